"""shared by C02 / C03: run translators/tr_schema.py, tie the hand-written validation code to its model
(which recursion `validate` performs), emit Gen_Validate.v / Gen_Schema.v, link schema items to binding members,
and generate conforming trees and single-facet violations from the schema."""
import ast
import importlib.util
import json
import os
import re
import subprocess

from lib import gdsgen
from lib.vcommon import PY, REPO, VERIF, coq_list, coq_str, impl_env

_spec = importlib.util.spec_from_file_location("tr_schema", os.path.join(VERIF, "translators", "tr_schema.py"))
tr_schema = importlib.util.module_from_spec(_spec)
_spec.loader.exec_module(tr_schema)


# ----------------------------------------------------------------------------- translators
def translate_schema(ck):
    out = os.path.join(ck.build, "schema.json")
    p = subprocess.run([PY, os.path.join(VERIF, "translators", "tr_schema.py"), out], capture_output=True, text=True,
                       env=impl_env(), timeout=300)
    if p.returncode != 0 or not os.path.exists(out):
        ck.oblige("translate:tr_schema", False, p.stderr[-2000:], kind="translate")
        return None
    s = json.load(open(out))
    ck.oblige("translate:tr_schema", not s["errors"], "; ".join(s["errors"][:20]), kind="translate")
    return s if not s["errors"] else None


# the statements (ast.unparse normal form, docstrings dropped) of the generateDS runtime helpers Model/Validate.v was
# written against; tr_bindings delivers the current ones in tab["runtime"]
RUNTIME_REF = {
    'GeneratedsSuper.gds_check_cardinality_': ['if value is None:\n    length = 0\nelif isinstance(value, list):\n    length = len(value)\nelse:\n    length = 1', "if required is not None:\n    if required and length < 1:\n        self.gds_collector_.add_message('Required value {}{} is missing'.format(input_name, self.gds_get_node_lineno_()))", "if length < min_occurs:\n    self.gds_collector_.add_message('Number of values for {}{} is below the minimum allowed, expected at least {}, found {}'.format(input_name, self.gds_get_node_lineno_(), min_occurs, length))\nelif length > max_occurs:\n    self.gds_collector_.add_message('Number of values for {}{} is above the maximum allowed, expected at most {}, found {}'.format(input_name, self.gds_get_node_lineno_(), max_occurs, length))"],
    'GeneratedsSuper.gds_validate_builtin_ST_': ['if value is not None:\n    try:\n        validator(value, input_name=input_name)\n    except GDSParseError as parse_error:\n        self.gds_collector_.add_message(str(parse_error))'],
    'GeneratedsSuper.gds_validate_defined_ST_': ['if value is not None:\n    try:\n        validator(value)\n    except GDSParseError as parse_error:\n        self.gds_collector_.add_message(str(parse_error))'],
    'GeneratedsSuper.gds_validate_simple_patterns': ['found1 = True', 'target = str(target)', 'for patterns1 in patterns:\n    found2 = False\n    for patterns2 in patterns1:\n        mo = re_.search(patterns2, target)\n        if mo is not None and len(mo.group(0)) == len(target):\n            found2 = True\n            break\n    if not found2:\n        found1 = False\n        break', 'return found1'],
    'GeneratedsSuper.gds_validate_string': ["if not input_data:\n    return ''\nelse:\n    return input_data"],
    'GeneratedsSuper.gds_validate_integer': ["try:\n    value = int(input_data)\nexcept (TypeError, ValueError):\n    raise_parse_error(node, 'Requires integer value')", 'return value'],
    'GeneratedsSuper.gds_validate_float': ["try:\n    value = float(input_data)\nexcept (TypeError, ValueError):\n    raise_parse_error(node, 'Requires float value')", 'return value'],
    'GeneratedsSuper.gds_validate_double': ["try:\n    value = float(input_data)\nexcept (TypeError, ValueError):\n    raise_parse_error(node, 'Requires double or float value')", 'return value'],
    'Validate_simpletypes_': 'True',
    'raise_parse_error': ["if node is not None:\n    msg = '%s (element %s/line %d)' % (msg, node.tag, node.sourceline)", 'raise GDSParseError(msg)'],
}


def runtime_tie(ck, tab):
    """the generateDS runtime helpers are regenerated code: any difference from the text the interpreter mirrors is
    reported (the correspondence run then shows whether behaviour changed)"""
    bad = [k for k, v in RUNTIME_REF.items() if tab["runtime"].get(k) != v]
    ck.oblige("translate:runtime-helpers-as-modelled", not bad, "differs: " + ", ".join(bad), kind="translate")
    return not bad


def _fn_stmts(tree, cls, fn):
    for n in ast.walk(tree):
        if isinstance(n, ast.ClassDef) and n.name == cls:
            for f in n.body:
                if isinstance(f, ast.FunctionDef) and f.name == fn:
                    body = [s for s in f.body if not (isinstance(s, ast.Expr) and isinstance(s.value, ast.Constant)
                                                      and isinstance(s.value.value, str))]
                    return [ast.unparse(s) for s in body]
    return None


def _top_fn_stmts(tree, fn):
    for f in tree.body:
        if isinstance(f, ast.FunctionDef) and f.name == fn:
            body = [s for s in f.body if not (isinstance(s, ast.Expr) and isinstance(s.value, ast.Constant)
                                              and isinstance(s.value.value, str))]
            return [ast.unparse(s) for s in body]
    return None


VALIDATE_GEN = ["collector = GdsCollector()", "valid = True",
                "for c in type(self).__mro__:\n    if getattr(c, 'validate_', None):\n        v = c.validate_(self, collector, recursive)\n        valid = valid and v",
                "if valid is False:\n    err = 'Validation failed:\\n'\n    for msg in collector.get_messages():\n        err += f'- {msg}\\n'\n    raise ValueError(err)"]
VALIDATE_ALL = ["collector = GdsCollector()", "valid = self._validate_members(collector, recursive)",
                "if valid is False:\n    err = 'Validation failed:\\n'\n    for msg in collector.get_messages():\n        err += f'- {msg}\\n'\n    raise ValueError(err)"]
VALIDATE_MEMBERS = ["valid = True",
                    "for c in type(self).__mro__:\n    if getattr(c, 'validate_', None):\n        v = c.validate_(self, collector, False)\n        valid = valid and v",
                    "if recursive:\n    for c in type(self).__mro__:\n        for member in vars(c).get('member_data_items_', []):\n            value = getattr(self, member.get_name(), None)\n            children = value if isinstance(value, list) else [value]\n            for child in children:\n                if isinstance(child, GeneratedsSuperSuper):\n                    v = child._validate_members(collector, True)\n                    valid = valid and v",
                    "return valid"]
IS_VALID = ["nml_doc = loaders.read_neuroml2_file(file_name, include_includes=True, verbose=False, optimized=True)",
            "try:\n    nml_doc.validate(recursive=True)\nexcept ValueError:\n    return False", "return True"]
VALIDATE_NML2 = ["nml_doc = loaders.read_neuroml2_file(file_name, include_includes=True, verbose=False, optimized=True)",
                 "nml_doc.validate(recursive=True)", 'print("It\'s valid!")']


def switch_obligation_(ck, path):
    """validate() is a function of the tree: neither it nor _validate_members (nor anything else named validate* in that
    file) reads the global switch that is documented to affect component_factory()/add() only"""
    name = "validate:does-not-read-the-build-time-validation-switch"
    try:
        readers = []
        for n in ast.walk(ast.parse(open(path).read())):
            if isinstance(n, ast.FunctionDef) and (n.name.startswith("validate") or n.name.startswith("_validate")):
                for x in ast.walk(n):
                    if (isinstance(x, ast.Attribute) and x.attr in ("build_time_validation", "ENABLED", "get_build_time_validation")) or \
                            (isinstance(x, ast.Name) and x.id in ("build_time_validation", "get_build_time_validation")):
                        readers.append("%s (line %d)" % (n.name, x.lineno))
                        break
        ck.oblige(name, not readers, "neuroml.build_time_validation is read in: " + ", ".join(readers), kind="instance")
        # ... and a failure inside the recursion is not swallowed: no handler for RecursionError / MemoryError / a blanket
        # Exception / BaseException / bare except without a re-raise in those functions
        swallow = []
        for n in ast.walk(ast.parse(open(path).read())):
            if isinstance(n, ast.FunctionDef) and (n.name.startswith("validate") or n.name.startswith("_validate")):
                for h in ast.walk(n):
                    if not isinstance(h, ast.ExceptHandler):
                        continue
                    names = [] if h.type is None else [getattr(x, "id", getattr(x, "attr", "?")) for x in
                                                       (h.type.elts if isinstance(h.type, ast.Tuple) else [h.type])]
                    broad = h.type is None or any(x in ("RecursionError", "RuntimeError", "MemoryError", "Exception", "BaseException") for x in names)
                    if broad and not any(isinstance(x, ast.Raise) for x in ast.walk(h)):
                        swallow.append("%s (line %d: except %s)" % (n.name, h.lineno, ", ".join(names) or "<bare>"))
        ck.oblige("validate:recursion-does-not-swallow-RecursionError-or-blanket-exceptions", not swallow,
                  "handlers without re-raise: " + ", ".join(swallow), kind="instance")
    except Exception as e:  # noqa
        ck.oblige(name, False, repr(e), kind="instance")


def validate_mode(ck, switch_obligation=False):
    """which recursion does GeneratedsSuperSuper.validate perform?  Recognised source shapes select the model variant
    directly; an unrecognised (refactored) shape is classified by a probe on the real code and the correspondence
    run over all classes has to confirm the choice.  Returns 'gen' | 'all'."""
    path = os.path.join(REPO, "neuroml", "nml", "generatedssupersuper.py")
    info = {"shape": "unrecognised"}
    try:
        tree = ast.parse(open(path).read())
        v = _fn_stmts(tree, "GeneratedsSuperSuper", "validate")
        vm = _fn_stmts(tree, "GeneratedsSuperSuper", "_validate_members")
        if v == VALIDATE_GEN:
            info["shape"] = "mro-walk-delegating-recursion-to-generated-validate_"
            mode = "gen"
        elif v == VALIDATE_ALL and vm == VALIDATE_MEMBERS:
            info["shape"] = "own-recursion-over-all-members"
            mode = "all"
        else:
            mode = None
    except Exception as e:  # noqa
        info["error"] = repr(e)
        mode = None
    if mode is None:
        probe = ("import json\nfrom neuroml import NeuroMLDocument, IafCell\n"
                 "d = NeuroMLDocument(id='d')\n"
                 "d.iaf_cells.append(IafCell(id='bad id!', leak_reversal='-50mV', thresh='-55mV', reset='-70mV', C='0.2nF', leak_conductance='0.01uS'))\n"
                 "try:\n    d.validate(recursive=True)\n    print(json.dumps('gen'))\nexcept ValueError:\n    print(json.dumps('all'))\n")
        p = subprocess.run([PY, "-c", probe], capture_output=True, text=True, env=impl_env(), timeout=120, cwd=ck.build)
        lines = [l for l in p.stdout.splitlines() if l.strip()]
        mode = json.loads(lines[-1]) if p.returncode == 0 and lines else "gen"
        info["mode_by_probe"] = mode
    ck.extra["validate_source_shape"] = info
    if switch_obligation:
        switch_obligation_(ck, path)
    # the file-level wrappers
    try:
        ut = ast.parse(open(os.path.join(REPO, "neuroml", "utils.py")).read())
        ok = _top_fn_stmts(ut, "is_valid_neuroml2") == IS_VALID and _top_fn_stmts(ut, "validate_neuroml2") == VALIDATE_NML2
    except Exception:  # noqa
        ok = False
    ck.extra["file_wrappers_as_modelled"] = ok
    return mode


# ----------------------------------------------------------------------------- Coq emitters
def cre(r):
    k = r[0]
    if k == "eps":
        return "Eps"
    if k == "emp":
        return "Emp"
    if k == "sym":
        return "(Sym %s)" % coq_list(["(%d, %d)" % (a, b) for a, b in r[1]])
    if k in ("cat", "alt"):
        return "(%s %s %s)" % ("Cat" if k == "cat" else "Alt", cre(r[1]), cre(r[2]))
    if k == "star":
        return "(Star %s)" % cre(r[1])
    raise ValueError(r)


def cdec(x):
    """python float / decimal string -> Coq dec literal"""
    s = x if isinstance(x, str) else repr(float(x))
    if "e" in s or "E" in s or "n" in s:
        raise ValueError("facet value outside the decimal instance: %r" % s)
    m, e = gdsgen.dec_of(s)
    return "((%d)%%Z, %d%%nat)" % (m, e)


BK = {"str": "BStr", "int": "BInt", "float": "BFloat"}
GK = {"string": "GString", "integer": "GInteger", "float": "GFloat", "double": "GDouble"}
FK = {"minInclusive": "FMinIncl", "minExclusive": "FMinExcl", "maxInclusive": "FMaxIncl", "maxExclusive": "FMaxExcl"}


class Pool:
    """named definitions for repeated terms"""
    def __init__(self, prefix, ty):
        self.prefix, self.ty, self.names, self.lines = prefix, ty, {}, []

    def get(self, term):
        if term not in self.names:
            n = "%s_%d" % (self.prefix, len(self.names))
            self.names[term] = n
            self.lines.append("Definition %s : %s := %s." % (n, self.ty, term))
        return self.names[term]


def emit_validate(tab, mode):
    """Gen_Validate.v : V : vtables  from the bindings table; returns (text, errors)"""
    errors = []
    res, svs = Pool("vre", "cre"), Pool("vsv", "stval")
    cls_lines = []
    names = []
    for i, c in enumerate(tab["classes"]):
        sts = []
        for sv in c.get("st_validators", []):
            try:
                if sv["base"] is not None and sv["base"] not in BK:
                    raise ValueError("isinstance base %s" % sv["base"])
                if sv["enums"] is None:
                    en = "None"
                else:
                    en = "(Some %s)" % coq_list(["(EStr %s)" % coq_str(e) if isinstance(e, str) else "(EDec %s)" % cdec(e)
                                                  for e in sv["enums"]])
                if sv["patterns"] is None:
                    pt = "None"
                else:
                    pt = "(Some %s)" % coq_list([coq_list([res.get(cre(tr_schema.parse_py_pattern(p))) for p in grp])
                                                 for grp in sv["patterns"]])
                fc = coq_list(["(%s, %s)" % (FK[f["facet"]], cdec(f["value"])) for f in sv["facets"]])
                term = "{| sv_name := %s; sv_base := %s; sv_enums := %s; sv_pats := %s; sv_facets := %s |}" % (
                    coq_str(sv["name"]), "None" if sv["base"] is None else "(Some %s)" % BK[sv["base"]], en, pt, fc)
                sts.append(svs.get(term))
            except Exception as e:  # noqa  (tr_schema.Bad, ValueError)
                errors.append("%s.validate_%s: %s" % (c["name"], sv.get("name"), e))
        items = []
        for it in c.get("val_items", []):
            if it["op"] == "builtin":
                if it["st"] not in GK:
                    errors.append("%s.validate_: builtin validator %s" % (c["name"], it["st"]))
                    continue
                items.append("IBuiltin %s %s" % (coq_str(it["member"]), GK[it["st"]]))
            elif it["op"] == "defined":
                items.append("IDefined %s %s" % (coq_str(it["member"]), coq_str(it["st"])))
            elif it["op"] == "card_req":
                items.append("ICardReq %s %s" % (coq_str(it["member"]), "true" if it["required"] else "false"))
            elif it["op"] == "card":
                items.append("ICard %s (%d)%%Z (%d)%%Z" % (coq_str(it["member"]), it["min"], it["max"]))
            else:
                errors.append("%s.validate_: op %s" % (c["name"], it["op"]))
        sup = c["super"] if c["super"] not in (None, "GeneratedsSuper") else None
        cls_lines.append(
            "Definition vcls_%d : vcls :=\n {| v_name := %s; v_super := %s;\n    v_items := %s;\n    v_rec := %s;\n"
            "    v_sts := %s;\n    v_members := %s |}." % (
                i, coq_str(c["name"]), "None" if sup is None else "(Some %s)" % coq_str(sup), coq_list(items),
                coq_list(["(%s, %s)" % (coq_str(r["member"]), "true" if r["list"] else "false") for r in c.get("val_rec", [])]),
                coq_list(sts), coq_list([coq_str(m["name"]) for m in c["mspecs"]])))
        names.append("vcls_%d" % i)
    head = ["From Coq Require Import String List ZArith Bool.",
            "From LNML Require Import Lib.Dec Lib.Regex Model.Gds Model.Validate.",
            "Import ListNotations.", "Open Scope string_scope.", "Open Scope nat_scope.", ""]
    text = "\n".join(head + res.lines + svs.lines + cls_lines +
                     ["Definition V : vtables := {| vt_mode := %s; vt_classes := %s |}." % (
                         "RecAllMembers" if mode == "all" else "RecGenerated", coq_list(names))]) + "\n"
    return text, errors


def gen_validate(ck, tab, mode):
    text, errors = emit_validate(tab, mode)
    ck.oblige("translate:validators->Gen_Validate", not errors, "; ".join(errors[:20]), kind="translate")
    g = ck.gen_v("Gen_Validate.v", text)
    ok, out = ck.coqc(g, timeout=600)
    ck.oblige("Gen_Validate.v:compiles", ok, out[-1500:], kind="translate")
    return ok and not errors


# ---------------------------------------------------------------------------- real messages -> Coq
MK = {"base_str": "KBase BStr", "base_int": "KBase BInt", "base_float": "KBase BFloat", "enum": "KEnum",
      "pattern": "KPattern", "minInclusive": "KFacet FMinIncl", "minExclusive": "KFacet FMinExcl",
      "maxInclusive": "KFacet FMaxIncl", "maxExclusive": "KFacet FMaxExcl", "parse_integer": "KParse GInteger",
      "parse_float": "KParse GFloat", "parse_double": "KParse GDouble"}


def cmsg(m):
    cls, kind, member = m
    if kind in MK:
        k = MK[kind]
    elif kind in ("required", "below", "above"):
        k = "%s %s" % ({"required": "KRequired", "below": "KBelow", "above": "KAbove"}[kind], coq_str(member))
    else:
        return None
    return "(%s, %s)" % (coq_str(cls), k)


# ----------------------------------------------------------------------------- schema <-> binding members
def flat_elems(p, ctx=()):
    """element declarations of a particle in document order: (tag, type, lo, hi, ctx); ctx = enclosing groups"""
    if p is None:
        return []
    k = p[0]
    if k == "elem":
        return [(p[1], p[2], p[3], p[4], ctx)]
    if k in ("seq", "all"):
        return [x for q in p[1] for x in flat_elems(q, ctx + (k,))]
    if k == "choice":
        return [x for q in p[3] for x in flat_elems(q, ctx + ("choice",))]
    if k == "any":
        return []
    raise ValueError(p)


class Link:
    """reads the schema through the names the bindings give: for every complex type the python member behind each
    attribute / element declaration (via the class's own _exportAttributes / _exportChildren entries)"""

    def __init__(self, schema, T):
        self.S, self.T = schema, T
        self.ct = {c["name"]: c for c in schema["ctypes"]}
        self.st = {s["name"]: s for s in schema["stypes"]}
        self.problems = []
        self._attrs, self._elems = {}, {}
        self.parents = {}      # type -> [(parent type, elem record)]
        for c in self.ct:
            for e in self.own_elems(c):
                if e["type"] in self.ct:
                    self.parents.setdefault(e["type"], []).append((c, e))
        self.subtypes = {}
        for c, rec in self.ct.items():
            if rec["base"]:
                self.subtypes.setdefault(rec["base"], []).append(c)

    def chain(self, c):
        out = []
        while c:
            out.append(c)
            c = self.ct[c]["base"]
        return out[::-1]                      # base first

    def own_attrs(self, c):
        if c not in self._attrs:
            out = []
            k = self.T.C.get(c, {})
            eas = {a["xml"]: a for a in k.get("exp_attrs", [])}
            for a in self.ct[c]["attrs"]:
                ea = eas.get(a["name"])
                if ea is None:
                    self.problems.append("%s/@%s: no exported attribute of that name" % (c, a["name"]))
                    continue
                out.append({"xml": a["name"], "py": ea["py"], "kind": ea["kind"], "st": a["type"], "required": a["required"],
                            "default": a["default"], "fixed": a["fixed"], "owner": c})
            self._attrs[c] = out
        return self._attrs[c]

    def own_elems(self, c):
        if c not in self._elems:
            out = []
            k = self.T.C.get(c, {})
            eks = {a["tag"]: a for a in k.get("exp_kids", [])}
            for tag, ty, lo, hi, ctx in flat_elems(self.ct[c]["content"]):
                ek = eks.get(tag)
                if ek is None:
                    self.problems.append("%s/%s: no exported child of that tag" % (c, tag))
                    continue
                out.append({"tag": tag, "py": ek["py"], "kind": ek["kind"], "type": ty, "lo": lo, "hi": hi, "ctx": ctx,
                            "owner": c})
            self._elems[c] = out
        return self._elems[c]

    def all_attrs(self, c):
        return [a for k in self.chain(c) for a in self.own_attrs(k)]

    def all_elems(self, c):
        return [e for k in self.chain(c) for e in self.own_elems(k)]

    def has_any(self, c):
        return any('"any"' in json.dumps(self.ct[k]["content"]) for k in self.chain(c))


# ----------------------------------------------------------------------------- value spaces
def sample_regex(r, rng, star_max=3):
    k = r[0]
    if k == "eps":
        return ""
    if k == "sym":
        codes = [c for lo, hi in r[1] for c in range(lo, hi + 1) if 32 <= c <= 126]
        if not codes:
            codes = [c for lo, hi in r[1] for c in range(lo, hi + 1)]
        return chr(rng.choice(codes))
    if k == "cat":
        return sample_regex(r[1], rng, star_max) + sample_regex(r[2], rng, star_max)
    if k == "alt":
        return sample_regex(rng.choice([r[1], r[2]]), rng, star_max)
    if k == "star":
        return "".join(sample_regex(r[1], rng, star_max) for _ in range(rng.choice([0, 1, 1, 2, star_max])))
    raise ValueError(r)


def py_fullmatch(st, s):
    """generator-side oracle only: the XSD pattern read as a Python regex"""
    return any(re.fullmatch(p, s) for p in st["pattern_src"])


PLAIN = "abcXYZ019_ -.:;,/()[]{}=+*%$#@!?|~^"
URI_PLAIN = "abcXYZ019_-./~ ()!*,;=+$@?"
SPECIAL_CHARS = "<>&\"'\n<>&\"'"
# deterministic well-formedness cases: every XML-special character, alone and combined
SPECIAL_STRINGS = ['the "big" cell\'s soma', '"', "'", "'\"", '"\'"', "a<b", "a>b", "a&b", "<&>\"'", "x\ny", "&amp;", "&quot;&apos;",
                   "]]>", "<a b='c' d=\"e\"/>", "1 < 2 && \"x\" != 'y'", "&#10;", "\n\"\n'", "--", "<!-- c -->", " \" ", "'' \"\""]


class SchemaGen:
    def __init__(self, link, rng):
        self.L, self.rng = link, rng

    # ---- simple values
    def good_value(self, stname, kind):
        """a python-side value (keyword-tree leaf) in the value space of the simple type"""
        rng = self.rng
        st = self.L.st[stname]
        p = st["prim"]
        if p in ("string", "anyURI"):
            if st["enums"]:
                return {"s": rng.choice(st["enums"])}
            if st["patterns"]:
                for _ in range(20):
                    s = sample_regex(rng.choice(st["patterns"]), rng)
                    if py_fullmatch(st, s):
                        return {"s": s}
                raise RuntimeError("no sample for " + stname)
            n = rng.choice([0, 1, 2, 5, 9])
            if p == "anyURI":
                return {"s": "".join(rng.choice(URI_PLAIN) for _ in range(n))}
            # unrestricted xs:string: XML-special characters, both quote characters together, newline
            if rng.random() < 0.35:
                return {"s": rng.choice(SPECIAL_STRINGS)}
            return {"s": "".join(rng.choice(PLAIN + SPECIAL_CHARS) for _ in range(n))}
        if p in ("float", "double"):
            if st["enums"]:
                return {"f": repr(float(rng.choice(st["enums"])))}
            lo = hi = None
            lo_open = hi_open = False
            for k, v in st["facets"]:
                if k.startswith("min"):
                    lo, lo_open = float(v), k.endswith("Exclusive")
                else:
                    hi, hi_open = float(v), k.endswith("Exclusive")
            cands = [0.0, 1.0, 0.5, 0.25, 0.125, 3.0, 12.5, 100.0, -1.0, -0.5, -7.25, 1023.0]
            ok = [x for x in cands if (lo is None or x > lo or (x == lo and not lo_open))
                  and (hi is None or x < hi or (x == hi and not hi_open))]
            edge = [x for x in (lo, hi) if x is not None and x in ok]
            if edge and rng.random() < 0.5:
                return {"f": repr(rng.choice(edge))}       # the bounds themselves, where an off-by-one shows
            return {"f": repr(rng.choice(ok))}
        if p == "nonNegativeInteger":
            return {"i": rng.choice([0, 1, 2, 7, 1000])}
        if p == "positiveInteger":
            return {"i": rng.choice([1, 2, 7, 1000])}
        raise ValueError(p)

    def bad_values(self, stname):
        """[(facet label, leaf)] : one value per facet of the type lying outside it (inside the python base type)"""
        st = self.L.st[stname]
        p = st["prim"]
        out = []
        if p in ("string", "anyURI"):
            if st["enums"]:
                out.append(("enumeration", {"s": st["enums"][0] + "_x"}))
            if st["patterns"]:
                # a gross violation and near misses of a valid sample (a blank inside, a character appended/prepended)
                good = sample_regex(st["patterns"][0], self.rng)
                cands = ["bad id!", "1.5 ??", "a b", good + "!", "-" + good + "-", good[:1] + " " + good[1:], "9" + good, good + " x"]
                k = 0
                for cand in cands:
                    if not py_fullmatch(st, cand) and all(32 <= ord(ch) < 127 for ch in cand):
                        out.append(("pattern" if k == 0 else "pattern-near-miss%d" % k, {"s": cand}))
                        k += 1
                        if k >= 3:
                            break
        elif p in ("float", "double"):
            if st["enums"]:
                out.append(("enumeration", {"f": "0.5"}))
            for k, v in st["facets"]:
                x = float(v)
                if k == "minInclusive":
                    out.append((k, {"f": repr(x - 0.5)}))
                elif k == "minExclusive":
                    out.append((k, {"f": repr(x)}))
                elif k == "maxInclusive":
                    out.append((k, {"f": repr(x + 0.5)}))
                elif k == "maxExclusive":
                    out.append((k, {"f": repr(x)}))
        elif p == "nonNegativeInteger":
            out.append(("integer-range", {"i": -3}))
        elif p == "positiveInteger":
            out.append(("integer-range", {"i": 0}))
        return out

    # ---- trees
    def tree(self, c, depth, rich=False, force=None):
        """a conforming keyword tree of type c.  depth bounds optional content only (required children are always
        built).  force = {py member: count} overrides the number of children under a member."""
        rng = self.rng
        kw = []
        for a in self.L.all_attrs(c):
            if a["fixed"] is not None:
                kw.append([a["py"], {"s": a["fixed"]}])
                continue
            if a["required"] or rich or rng.random() < 0.4:
                kw.append([a["py"], self.good_value(a["st"], a["kind"])])
        counts = {}
        force = force or {}
        for k in self.L.chain(c):
            self.fill(self.L.ct[k]["content"], depth, rich, counts, force)
        for e in self.L.all_elems(c):
            n = counts.get(e["tag"], 0)
            if n == 0:
                continue
            if e["type"] not in self.L.ct:           # simple-typed element (notes)
                kw.append([e["py"], self.good_value(e["type"], "str")])
                continue
            kids = [self.tree(e["type"], depth - 1, rich and depth > 1) for _ in range(n)]
            if e["kind"] == "objlist":
                kw.append([e["py"], {"l": kids}])
            else:
                kw.append([e["py"], {"o": kids[0]}])
        rng.shuffle(kw)
        return {"cls": c, "kw": kw}

    def fill(self, p, depth, rich, counts, force):
        """choose how many children each element declaration gets (into counts[tag]); force[tag] fixes a count and
        steers the choices so that the forced children are legal"""
        rng = self.rng
        if p is None:
            return
        k = p[0]
        if k == "elem":
            tag, ty, lo, hi = p[1], p[2], p[3], p[4]
            if tag in force:
                n = force[tag]
            elif depth <= 0 and ty in self.L.ct:
                n = lo
            else:
                top = lo + 2 if hi is None else min(hi, lo + 2)
                n = rng.choice([lo, top] if rich else [lo, lo, rng.randint(lo, top)])
            counts[tag] = counts.get(tag, 0) + n
        elif k in ("seq", "all"):
            for q in p[1]:
                self.fill(q, depth, rich, counts, force)
        elif k == "choice":
            lo, hi, alts = p[1], p[2], p[3]
            tags = [[t for t, _, _, _, _ in flat_elems(a)] for a in alts]
            wanted = [i for i, ts in enumerate(tags) if any(force.get(t, 0) > 0 for t in ts)]
            banned = [i for i, ts in enumerate(tags) if any(force.get(t, 1) == 0 for t in ts)]
            if wanted:
                a = alts[wanted[0]]
                if a[0] == "elem":
                    self.fill(a, depth, rich, counts, force)
                else:                      # a fixed group: as many repetitions as its forced member asks for
                    n = max(force.get(t, 0) for t in tags[wanted[0]])
                    for t in tags[wanted[0]]:
                        counts[t] = counts.get(t, 0) + (n if t not in force else force[t])
                return
            reps = lo if (hi == lo or depth <= 0) else rng.choice([lo, lo + 1, lo + 2])
            used_seq = False
            for _ in range(reps):
                cand = [a for i, a in enumerate(alts) if not (a[0] == "seq" and used_seq) and i not in banned] or \
                    [a for a in alts if not (a[0] == "seq" and used_seq)]
                a = rng.choice(cand)
                if a[0] == "seq":
                    used_seq = True       # the writer groups children by member: a second pair would be written f f r r
                self.fill_once(a, depth, rich, counts, force)
        elif k == "any":
            return

    def fill_once(self, a, depth, rich, counts, force):
        """one occurrence of a choice alternative"""
        if a[0] == "elem" and a[4] == 1 and a[3] == 1:
            counts[a[1]] = counts.get(a[1], 0) + 1
        else:
            self.fill(a, depth, rich, counts, force)

    # ---- placing a tree below parents
    def embed(self, tree, steps):
        """wrap `tree` into conforming parents: steps = [(parent type, elem record)] from the innermost parent outwards.
        Returns (root tree, path from the root to the embedded tree as [[member, index|None]..])"""
        path = []
        for parent, e in steps:
            p = self.tree(parent, 0, force={e["tag"]: 1})     # a choice around e is steered to e's alternative
            p["kw"] = [kv for kv in p["kw"] if kv[0] != e["py"]]
            if e["kind"] == "objlist":
                p["kw"].append([e["py"], {"l": [tree]}])
                path.insert(0, [e["py"], 0])
            else:
                p["kw"].append([e["py"], {"o": tree}])
                path.insert(0, [e["py"], None])
            tree = p
        return tree, path

    def parent_steps(self, c, depth, want_root=None):
        """a chain of `depth` parents above type c (random), or None.  c may sit under a member typed with c itself
        only (exact class), as the round-trip typing demands."""
        steps = []
        cur = c
        for _ in range(depth):
            ps = self.L.parents.get(cur, [])
            if not ps:
                return None
            par, e = self.rng.choice(ps)
            steps.append((par, e))
            cur = par
        return steps

    def steps_to_document(self, c, maxdepth=6):
        """shortest chain of parents from c up to NeuroMLDocument (BFS), or None"""
        root = self.L.S["root"][1]
        if c == root:
            return []
        seen = {c}
        frontier = [(c, [])]
        for _ in range(maxdepth):
            nxt = []
            for cur, steps in frontier:
                for par, e in self.L.parents.get(cur, []):
                    if par == root:
                        return steps + [(par, e)]
                    if par not in seen:
                        seen.add(par)
                        nxt.append((par, steps + [(par, e)]))
            frontier = nxt
        return None


# ----------------------------------------------------------------------------- Gen_Schema.v
PRIM = {"string": "PString", "anyURI": "PAnyURI", "float": "PFloat", "double": "PDouble",
        "nonNegativeInteger": "PNonNegInt", "positiveInteger": "PPosInt"}


def cpart(p):
    k = p[0]
    hi = lambda h: "None" if h is None else "(Some %d)" % h  # noqa
    if k == "elem":
        return "(PElem %s %s %d %s)" % (coq_str(p[1]), coq_str(p[2]), p[3], hi(p[4]))
    if k == "seq":
        return "(PSeq %s)" % coq_list([cpart(q) for q in p[1]])
    if k == "all":
        return "(PAll %s)" % coq_list([cpart(q) for q in p[1]])
    if k == "choice":
        return "(PChoice %d %s %s)" % (p[1], hi(p[2]), coq_list([cpart(q) for q in p[3]]))
    if k == "any":
        return "(PAny %d %s)" % (p[1], hi(p[2]))
    raise ValueError(p)


def emit_schema(S):
    res = Pool("xre", "cre")
    lines = []
    sts = []
    for i, st in enumerate(S["stypes"]):
        lines.append("Definition st_%d : stype := {| st_name := %s; st_prim := %s; st_enums := %s; st_pats := %s; st_facets := %s |}." % (
            i, coq_str(st["name"]), PRIM[st["prim"]], coq_list([coq_str(e) for e in st["enums"]]),
            coq_list([res.get(cre(r)) for r in st["patterns"]]),
            coq_list(["(%s, %s)" % (FK[k], cdec(v if "." in v else v + ".0")) for k, v in st["facets"]])))
        sts.append("st_%d" % i)
    cts = []
    for i, ct in enumerate(S["ctypes"]):
        attrs = coq_list(["{| xa_name := %s; xa_type := %s; xa_req := %s; xa_default := %s; xa_fixed := %s |}" % (
            coq_str(a["name"]), coq_str(a["type"]), "true" if a["required"] else "false",
            "None" if a["default"] is None else "(Some %s)" % coq_str(a["default"]),
            "None" if a["fixed"] is None else "(Some %s)" % coq_str(a["fixed"])) for a in ct["attrs"]])
        lines.append("Definition ct_%d : ctype := {| ct_name := %s; ct_base := %s; ct_attrs := %s; ct_content := %s |}." % (
            i, coq_str(ct["name"]), "None" if ct["base"] is None else "(Some %s)" % coq_str(ct["base"]), attrs,
            "None" if ct["content"] is None else "(Some %s)" % cpart(ct["content"])))
        cts.append("ct_%d" % i)
    head = ["From Coq Require Import String List ZArith Bool.",
            "From LNML Require Import Lib.Dec Lib.Regex Model.Gds Model.Validate Model.Xsd.",
            "Import ListNotations.", "Open Scope string_scope.", "Open Scope nat_scope.", ""]
    tail = ["Definition S : schema := {| s_ctypes := %s; s_stypes := %s; s_root_tag := %s; s_root_type := %s |}." % (
        coq_list(cts), coq_list(sts), coq_str(S["root"][0]), coq_str(S["root"][1]))]
    return "\n".join(head + res.lines + lines + tail) + "\n"


def gen_schema(ck, S):
    g = ck.gen_v("Gen_Schema.v", emit_schema(S))
    ok, out = ck.coqc(g, timeout=600)
    ck.oblige("Gen_Schema.v:compiles", ok, out[-1500:], kind="translate")
    return ok
