"""generator of typed component trees (as constructor keyword trees) from the translated tables, and JSON->Coq emitters"""
import json

from lib.vcommon import coq_list, coq_str

ATTR_ALPHABET = "abcXYZ019_ -.:;,/()[]{}<>&\"'=+*%$#@!?|~^`\\"
TEXT_ALPHABET = ATTR_ALPHABET + "\n"


def rstr(rng, alphabet, maxlen=8):
    n = rng.choice([0, 1, 1, 2, 3, 5, maxlen])
    return "".join(rng.choice(alphabet) for _ in range(n))


def rdyadic(rng, nonneg=False):
    den = rng.choice([1, 1, 2, 4, 8, 16, 64])
    num = rng.choice([0, 1, 3, 5, 7, 12, 100, 255, 1023, 65537]) * rng.choice([1, 1, 1, den])
    if not nonneg and rng.random() < 0.4:
        num = -num
    x = num / den
    s = repr(float(x))
    assert "e" not in s
    return s


def dec_of(s):
    neg = s.startswith("-")
    s = s.lstrip("+-")
    ip, _, fp = s.partition(".")
    m = int((ip + fp) or "0")
    e = len(fp)
    while e > 0 and m % 10 == 0:
        m //= 10
        e -= 1
    return (-m if neg else m), e


class Gen:
    def __init__(self, tables, rng):
        self.T = tables
        self.rng = rng

    def attr_value(self, c, ea, ba, full):
        rng = self.rng
        kind = ea["kind"]
        default = self.T.default_of_chain(c, ea["py"])
        if ea["guard"] is None and default is None and not full and rng.random() < 0.3:
            return None
        if ea["guard"] is not None and rng.random() < 0.3:
            return "OMIT"   # leave the keyword out: constructor default
        if kind == "str":
            return {"s": rstr(rng, ATTR_ALPHABET)}
        if kind == "int":
            lo = 1 if (ba and ba["range"] == "pos") else 0
            v = rng.choice([lo, lo + 1, 7, 12, 1000, 2 ** 40])
            if not (ba and ba["range"]) and rng.random() < 0.3:
                v = -v
            return {"i": v}
        if rng.random() < 0.15:
            # an int (incl. 0) given for a float member: the constructor's _cast(float, .) converts it
            return {"i": rng.choice([0, 0, 1, 7, -3, 250])}
        return {"f": rdyadic(rng)}

    def tree(self, c, depth, full=False):
        """keyword tree for class c; full=True populates every member"""
        rng = self.rng
        T = self.T
        kw = []
        bas = {b["py"]: b for b in T.bld_attrs(c)}
        for ea in T.exp_attrs(c):
            v = self.attr_value(c, ea, bas.get(ea["py"]), full)
            if v == "OMIT":
                continue
            kw.append([ea["py"], v])
        bks = {b["py"]: b for b in T.bld_kids(c)}
        for ek in T.exp_kids(c):
            b = bks.get(ek["py"])
            if ek["kind"] == "any" or b is None:
                continue
            if ek["kind"] == "text":
                if full or rng.random() < 0.6:
                    kw.append([ek["py"], {"s": rstr(rng, TEXT_ALPHABET, 12)}])
                continue
            if depth <= 0:
                continue
            if ek["kind"] == "obj":
                if full or rng.random() < 0.5:
                    kw.append([ek["py"], {"o": self.tree(T.child_class(c, ek["py"], b["cls"]), depth - 1, full and depth > 1)}])
            elif ek["kind"] == "objlist":
                n = rng.choice([0, 1, 1, 2, 3]) if not full else rng.choice([1, 2])
                if n:
                    kw.append([ek["py"], {"l": [self.tree(T.child_class(c, ek["py"], b["cls"]), depth - 1, False) for _ in range(n)]}])
        rng.shuffle(kw)
        return {"cls": c, "kw": kw}


    def focus_tree(self, c, member, others="none"):
        """tree of class c in which `member` is populated and (others="none") as little else as the types allow"""
        T = self.T
        rng = self.rng
        kw = []
        bas = {b["py"]: b for b in T.bld_attrs(c)}
        for ea in T.exp_attrs(c):
            default = T.default_of_chain(c, ea["py"])
            if ea["py"] == member or others == "all":
                v = self.attr_value(c, dict(ea, guard=None), bas.get(ea["py"]), True)
                # a value different from the default so that the guard lets it through
                kw.append([ea["py"], v])
            elif default is None and ea["guard"] is None:
                kw.append([ea["py"], None])
        bks = {b["py"]: b for b in T.bld_kids(c)}
        for ek in T.exp_kids(c):
            b = bks.get(ek["py"])
            if (ek["py"] != member and others != "all") or ek["kind"] == "any":
                continue
            cls = T.child_class(c, ek["py"], b["cls"]) if b and b.get("cls") else None
            if cls is None:
                # the builder has no branch for it: take the class from the member spec
                for k in T.chain(c):
                    for ms in T.C[k]["mspecs"]:
                        if ms["name"] == ek["py"] and ms["type"] in T.C:
                            cls = ms["type"]
            if ek["kind"] == "text":
                kw.append([ek["py"], {"s": "text " + rstr(rng, TEXT_ALPHABET, 6)}])
            elif ek["kind"] == "obj" and cls:
                kw.append([ek["py"], {"o": self.tree(cls, 0, True)}])
            elif ek["kind"] == "objlist" and cls:
                kw.append([ek["py"], {"l": [self.tree(cls, 0, True), self.tree(cls, 0, False)]}])
        return {"cls": c, "kw": kw}


# ---------------------------------------------------------------------------- Coq emitters
def cval(v):
    if v is None:
        return "VNone"
    if "s" in v:
        return "(VStr %s)" % coq_str(v["s"])
    if "i" in v:
        return "(VInt (%d)%%Z)" % v["i"]
    if "f" in v:
        m, e = dec_of(v["f"])
        return "(VFlt ((%d)%%Z, %d%%nat))" % (m, e)
    if "o" in v:
        return "(VObj %s)" % cobj(v["o"])
    if "l" in v:
        return "(VObjs %s)" % coq_list([cobj(x) for x in v["l"]])
    if "raw" in v:
        if v["raw"]:
            raise ValueError("raw content not supported in the decimal instance")
        return "(VRaw [])"
    raise ValueError(v)


def cobj(d):
    return "(Obj %s %s)" % (coq_str(d["cls"]), coq_list(["(%s, %s)" % (coq_str(n), cval(v)) for n, v in d["fields"]]))


def cxml(x):
    tag, attrs, text, kids = x
    return "(Elem %s %s %s %s)" % (coq_str(tag), coq_list(["(%s, %s)" % (coq_str(a), coq_str(b)) for a, b in attrs]),
                                   coq_str(text), coq_list([cxml(k) for k in kids]))


def has_bad_float(d):
    s = json.dumps(d)
    return '"f": "!' in s
