"""driver:  bin/check <id> [--tier quick|thorough] [--replay file]"""
import argparse
import importlib
import json
import os
import sys
import traceback

sys.path.insert(0, os.path.dirname(os.path.abspath(__file__)))
sys.path.insert(0, os.path.join(os.path.dirname(os.path.dirname(os.path.abspath(__file__)))))
import vcommon  # noqa: E402


def main():
    ap = argparse.ArgumentParser()
    ap.add_argument("pid")
    ap.add_argument("--tier", default=os.environ.get("VERIF_TIER", "quick"), choices=["quick", "thorough"])
    ap.add_argument("--replay", default=None)
    ap.add_argument("--seed", default=os.environ.get("VERIF_SEED", "0"))
    a = ap.parse_args()
    try:
        seed = int(a.seed)
    except ValueError:
        seed = 0
    mod = importlib.import_module("checks." + a.pid.lower())
    ck = vcommon.Check(a.pid, a.tier, seed)
    if a.replay:
        data = json.load(open(a.replay))
        if hasattr(mod, "replay"):
            rc = mod.replay(ck, data)
        else:
            print(json.dumps(data, indent=1))
            rc = 0
        sys.exit(rc or 0)
    try:
        mod.run(ck)
    except Exception:
        # the machinery itself failed: the property is not shown to hold on this run
        ck.oblige("harness:" + a.pid, False, traceback.format_exc()[-3000:], kind="harness")
        traceback.print_exc()
    sys.exit(ck.finish())


if __name__ == "__main__":
    main()
