"""shared by C09/C10/C11: turn the `mspecs` part of the tr_bindings table (+ class names, supers, export name maps,
constructor keywords) into Gen_Members.v for coq/Model/Super.v, and mirror the member lookup in python for the
generators.  Fails closed: anything outside the shapes the model covers is an error (-> broken obligation)."""
from lib.vcommon import coq_list, coq_str

TECHNICAL = ("extensiontype_", "gds_collector_")

HEADER = ("From Coq Require Import String List ZArith Bool.\nFrom LNML Require Import Lib.Dec Model.Gds Model.Super.\n"
          "Import ListNotations.\nOpen Scope string_scope.\n")


def b(x):
    return "true" if x else "false"


def dtype(t, errors, where):
    if isinstance(t, str):
        return "(DT %s)" % coq_str(t)
    if isinstance(t, list) and all(isinstance(x, str) for x in t):
        return "(DTChain %s)" % coq_list([coq_str(x) for x in t])
    errors.append("%s: data type %r" % (where, t))
    return '(DT "")'


def emit_sig(sig):
    return coq_list(["(%s, %s)" % (coq_str(n), coq_str(d or "")) for n, d in sig])


def emit_members(tab, eq_excluded=None, supersig=None, switch=None, helpers=None):
    """-> (text, errors)"""
    errors = []
    names = [c["name"] for c in tab["classes"]]
    if len(set(names)) != len(names):
        errors.append("duplicate class names")
    out = [HEADER]
    cl = []
    for i, c in enumerate(tab["classes"]):
        specs = []
        for j, m in enumerate(c["mspecs"]):
            where = "%s.%s" % (c["name"], m.get("name"))
            if m["container"] not in (0, 1) or isinstance(m["container"], bool):
                errors.append("%s: container %r" % (where, m["container"]))
            if m["optional"] not in (0, 1) or isinstance(m["optional"], bool):
                errors.append("%s: optional %r" % (where, m["optional"]))
            if not isinstance(m["name"], str):
                errors.append("%s: name" % where)
                continue
            specs.append("{| ms_name := %s; ms_dtype := %s; ms_container := %s; ms_optional := %s; ms_owner := %s; ms_idx := %d |}"
                         % (coq_str(m["name"]), dtype(m["type"], errors, where), b(m["container"]), b(m["optional"]),
                            coq_str(c["name"]), j))
        sup = c["super"] if c["super"] in names else None
        if sup is None and c["super"] != "GeneratedsSuper":
            errors.append("%s: base class %r is neither a binding class nor GeneratedsSuper" % (c["name"], c["super"]))
        out.append("Definition mc_%d : mclass := {| mc_name := %s; mc_super := %s;\n  mc_specs := %s |}."
                   % (i, coq_str(c["name"]), "None" if sup is None else "(Some %s)" % coq_str(sup), coq_list(specs)))
        cl.append("mc_%d" % i)
    out.append("Definition M : mtables := %s." % coq_list(cl))
    # constructor keywords (the full signature as translated, technical ones included)
    out.append("Definition ctor_kw : list (string * list string) := %s." % coq_list(
        ["(%s, %s)" % (coq_str(c["name"]), coq_list([coq_str(p["name"]) for p in c.get("init_params", [])]))
         for c in tab["classes"]]))
    # python name <-> xml name per class, inherited included (export tables)
    P = Mirror(tab)
    out.append("Definition pyxml_of : list (string * list pyxml) := %s." % coq_list(
        ["(%s, %s)" % (coq_str(c), coq_list(["{| px_py := %s; px_xml := %s; px_is_attr := %s |}" % (coq_str(p), coq_str(x), b(a))
                                              for p, x, a in P.pyxml(c)])) for c in names]))
    # attribute names GeneratedsSuper.__eq__ leaves out of the comparison (translators/tr_eq.py)
    out.append("Definition eq_excluded : list string := %s." % coq_list([coq_str(x) for x in (eq_excluded or [])]))
    # calling conventions and run-time class attributes of generatedssupersuper.py (translators/tr_supersig.py)
    sigs = (supersig or {}).get("signatures", {})
    out.append("Definition add_signature : list (string * string) := %s." % emit_sig(sigs.get("add", [])))
    out.append("Definition factory_signature : list (string * string) := %s." % emit_sig(sigs.get("component_factory", [])))
    out.append("Definition class_level_attrs : list string := %s." % coq_list([coq_str(x) for x in (supersig or {}).get("class_attrs", [])]))
    ss = supersig or {}
    out.append("Definition add_loops : list string := %s." % coq_list([coq_str(x) for x in ss.get("add_loops", [])]))
    out.append("Definition hint_loops : list string := %s." % coq_list([coq_str(x) for x in ss.get("hint_loops", [])]))
    out.append("Definition state_calls : list string := %s." % coq_list([coq_str(x) for x in ss.get("state_calls", ["missing"])]))
    out.append("Definition cache_writes : list string := %s." % coq_list([coq_str(x) for x in ss.get("cache_writes", [])]))
    out.append("Definition arg_check : list string := %s." % coq_list([coq_str(x) for x in ss.get("arg_check", [])]))
    out.append("Definition hint_tests : list string := %s." % coq_list([coq_str(x) for x in ss.get("hint_tests", [])]))
    # what methods that are read-only by name write on self (translators/tr_readonly.py)
    out.append("Definition reader_writes : list string := %s." % coq_list(
        [coq_str("%s.%s: %s" % (c_, m_, "; ".join(w_))) for c_, m_, w_ in (helpers or {}).get("writes", [])]))
    out.append("Definition validate_default_recursive : string := %s." % coq_str(ss.get("validate_default_recursive", "missing")))
    out.append("Definition validate_sites : list (string * string) := %s." % coq_list(
        ["(%s, %s)" % (coq_str(a), coq_str(b_)) for a, b_ in ss.get("validate_sites", [])]))
    # shape of the global switch: build_time_validation.py and the helpers of neuroml/__init__.py (translators/tr_switch.py)
    sw = switch or {}
    strs = lambda l: coq_list([coq_str(x) for x in l])  # noqa
    out.append("Definition switch_module : list string := %s." % strs(sw.get("module", [])))
    out.append("Definition switch_helpers : list (string * list string) := %s." % coq_list(
        ["(%s, %s)" % (coq_str(n), strs(b_)) for n, b_ in sw.get("helpers", [])]))
    out.append("Definition switch_binding : list string := %s." % strs(sw.get("binding", [])))
    out.append("Definition switch_uses : list string := %s." % strs(sw.get("uses", [])))
    return "\n".join(out) + "\n", errors


def gen_members(ck, tab, eq_excluded=None, supersig=None, switch=None, helpers=None):
    text, errors = emit_members(tab, eq_excluded, supersig, switch, helpers)
    ck.oblige("translate:supergen", not errors, "; ".join(errors[:20]), kind="translate")
    g = ck.gen_v("Gen_Members.v", text)
    ok, out = ck.coqc(g, timeout=600)
    ck.oblige("Gen_Members.v:compiles", ok, out[-1500:], kind="translate")
    return ok and not errors


class Mirror:
    """python mirror of Super.members_set / targets_of over the translated table"""

    def __init__(self, tab):
        self.C = {c["name"]: c for c in tab["classes"]}
        self.order = [c["name"] for c in tab["classes"]]

    def chain(self, c):
        out = []
        while c in self.C and c not in out:
            out.append(c)
            c = self.C[c]["super"]
        return out

    @staticmethod
    def dt(m):
        t = m["type"]
        if isinstance(t, list):
            return t[-1] if t else "xs:string"
        return t

    def members(self, c):
        return [m for k in self.chain(c) for m in self.C[k]["mspecs"]]

    def targets(self, parent, child):
        return [m for m in self.members(parent) if self.dt(m) == child]

    def ctor_keywords(self, c):
        return [p["name"] for p in self.C[c].get("init_params", []) if p["name"] not in TECHNICAL]

    def pyxml(self, c):
        """(python name, xml name, is_attribute) for every exported member, inherited included; xs:any -> tag __ANY__"""
        out = []
        for k in self.chain(c):
            for a in self.C[k].get("exp_attrs", []):
                out.append((a["py"], a["xml"], True))
            for a in self.C[k].get("exp_kids", []):
                out.append((a["py"], a["tag"], False))
        return out


def emit_schema(S):
    """Gen_SchemaMembers.v from the output of translators/tr_schema_members.py"""
    out = [HEADER]
    names = []
    for i, c in enumerate(S["classes"]):
        decls = ["{| sd_xml := %s; sd_is_attr := %s; sd_type := %s; sd_required := %s; sd_required_literal := %s; "
                 "sd_list := %s; sd_in_choice := %s |}" % (coq_str(d["xml"]), b(d["is_attr"]), coq_str(d["type"]), b(d["required"]),
                                                            b(d["required_literal"]), b(d["list"]), b(d["in_choice"]))
                 for d in c["all"]]
        out.append("Definition sc_%d : sclass := {| sc_name := %s; sc_decls := %s |}." % (i, coq_str(c["name"]), coq_list(decls)))
        names.append("sc_%d" % i)
    out.append("Definition S : schema := {| s_classes := %s;\n  s_simple_base := %s |}." % (
        coq_list(names), coq_list(["(%s, %s)" % (coq_str(k), coq_str(v)) for k, v in sorted(S["simple_base"].items())])))
    return "\n".join(out) + "\n"


def gen_schema(ck, S):
    g = ck.gen_v("Gen_SchemaMembers.v", emit_schema(S))
    ok, out = ck.coqc(g, timeout=600)
    ck.oblige("Gen_SchemaMembers.v:compiles", ok, out[-1500:], kind="translate")
    return ok
