"""Shared machinery for all property checks (see FRAMEWORK.md).

A check module  checks/cXX.py  defines  run(ck)  and optionally  replay(ck, data).
The driver (lib/check_main.py) creates the Check object, calls run(), then ck.finish().

Everything that touches libNeuroML runs in a *subprocess* under /venv/bin/python with
PYTHONPATH=$VERIF_REPO (default /repo) and PYTHONHASHSEED=0, so the tree under test is always the
current working tree and can be redirected to a scratch worktree for mutation testing.
"""
import hashlib
import json
import os
import random
import re
import shutil
import subprocess
import sys
import time

VERIF = os.path.dirname(os.path.dirname(os.path.abspath(__file__)))
REPO = os.environ.get("VERIF_REPO", "/repo")
PY = "/venv/bin/python"
COQ = os.path.join(VERIF, "coq")
GUARD = "NEURALENSEMBLE_LIBNEUROML_VERIF"

FORBIDDEN = re.compile(
    r"\b(Admitted|admit|Axiom|Axioms|Parameter|Parameters|Conjecture|Conjectures|"
    r"Admit Obligations|bypass_check|Unset Guard Checking|Unset Positivity Checking|"
    r"Unset Universe Checking|type-in-type|impredicative-set)\b"
)

STDLIB_AXIOMS_OK = (
    "ClassicalDedekindReals.sig_forall_dec",
    "ClassicalDedekindReals.sig_not_dec",
    "FunctionalExtensionality.functional_extensionality_dep",
    "functional_extensionality_dep",
    "sig_forall_dec",
    "sig_not_dec",
    "Classical_Prop.classic",
    "classic",
    "Eqdep.Eq_rect_eq.eq_rect_eq",
    "ProofIrrelevance.proof_irrelevance",
    "JMeq.JMeq_eq",
)


def strip_coq(src):
    """remove comments and string literals before scanning for forbidden vernacular"""
    body = re.sub(r'"(?:[^"]|"")*"', '""', src)
    return re.sub(r"\(\*.*?\*\)", "", body, flags=re.S)


def clean_out(s):
    """drop the conda warning line every shell/python start prints here"""
    return "\n".join(l for l in s.splitlines() if "WARNING: conda" not in l and "conda.cli" not in l)


def impl_env(extra=None):
    env = dict(os.environ)
    env["PYTHONPATH"] = REPO + os.pathsep + os.path.join(VERIF, "impl")
    env["PYTHONHASHSEED"] = "0"
    env["PYTHONDONTWRITEBYTECODE"] = "1"
    env[GUARD] = "1"
    env["VERIF_REPO"] = REPO
    env["LC_ALL"] = "C.UTF-8"
    env["LANG"] = "C.UTF-8"
    if extra:
        env.update(extra)
    return env


class Check:
    def __init__(self, pid, tier="quick", seed=0):
        self.pid = pid
        self.tier = tier
        self.seed = int(seed)
        self.rng = random.Random(self.seed * 1000003 + int(pid[1:]))
        self.t0 = time.time()
        # one build directory per (property, tree under test): runs against scratch worktrees do not disturb runs on /repo
        suffix = "" if REPO == "/repo" else "-" + hashlib.sha1(REPO.encode()).hexdigest()[:6]
        self.build = os.path.join(VERIF, "build", pid + suffix)
        shutil.rmtree(self.build, ignore_errors=True)
        os.makedirs(self.build, exist_ok=True)
        os.makedirs(os.path.join(VERIF, "evidence"), exist_ok=True)
        os.makedirs(os.path.join(VERIF, "replays"), exist_ok=True)
        self.obligations = []  # {name, kind, ok, detail}
        self.witnesses = []  # failing inputs seen on the real implementation
        self.disagreements = []  # model vs implementation
        self.evaluations = 0
        self.nontrivial = set()
        self.samples = []
        self.dist = {}
        self.axioms = {}  # theorem -> list of axioms
        self.trusted = []
        self.assumptions = []
        self.rule = ""
        self.extra = {}
        self.known = []
        self.fixed = []
        kf = os.path.join(VERIF, "known_findings.jsonl")
        if os.path.exists(kf):
            for line in open(kf):
                line = line.strip()
                if not line or line.startswith("#"):
                    continue
                d = json.loads(line)
                if d.get("property") != pid:
                    continue
                (self.known if d.get("status") == "known" else self.fixed).append(d)

    # ------------------------------------------------------------------ sizes
    def n(self, quick, thorough):
        return thorough if self.tier == "thorough" else quick

    # ------------------------------------------------------------ obligations
    def oblige(self, name, ok, detail="", kind="instance"):
        self.obligations.append({"name": name, "kind": kind, "ok": bool(ok), "detail": str(detail)[:2000]})
        return bool(ok)

    # -------------------------------------------------------------------- coq
    def gen_v(self, name, text):
        """write a generated .v file into the build directory; returns its path"""
        path = os.path.join(self.build, name)
        with open(path, "w") as f:
            f.write(text)
        return path

    def coqc(self, path, timeout=600):
        """compile one file that lives in the build dir (logical root Run) -> (ok, output)"""
        cmd = ["timeout", str(timeout), "coqc", "-noglob", "-Q", COQ, "LNML", "-Q", self.build, "Run", path]
        try:
            p = subprocess.run(cmd, capture_output=True, text=True, cwd=self.build, timeout=timeout + 30)
            out = clean_out(p.stdout + "\n" + p.stderr)
            return p.returncode == 0, out
        except subprocess.TimeoutExpired:
            return False, "timeout"

    THM = re.compile(r"^\s*(Theorem|Lemma|Example|Corollary)\s+([A-Za-z0-9_']+)", re.M)

    def compile_obligations(self, path, kind="theorem", timeout=600):
        """Compile a .v file (already in build dir) and record one obligation per
        Theorem/Lemma/Example in it.  On failure the statement containing the error line is
        the broken one; those after it are 'not reached' (also counted as not discharged)."""
        src = open(path).read()
        gate = self.gate_text(src, os.path.basename(path))
        names = [(m.start(), m.group(2)) for m in self.THM.finditer(src)]
        ok, out = self.coqc(path, timeout)
        base = os.path.basename(path)
        if ok and gate:
            for _, nm in names:
                self.oblige(base + ":" + nm, True, kind=kind)
            self.parse_assumptions(out)
            return True, out
        errline = None
        m = re.search(r'line (\d+), characters', out)
        if m:
            errline = int(m.group(1))
        offs = [0]
        for line in src.splitlines(True):
            offs.append(offs[-1] + len(line))
        erroff = offs[errline - 1] if errline and errline - 1 < len(offs) else 0
        broken_idx = None
        for i, (st, nm) in enumerate(names):
            if st <= erroff:
                broken_idx = i
        for i, (st, nm) in enumerate(names):
            if broken_idx is not None and i < broken_idx:
                self.oblige(base + ":" + nm, True, kind=kind)
            else:
                self.oblige(base + ":" + nm, False, detail=out[-1500:] if i == (broken_idx or 0) else "not reached", kind=kind)
        if not names:
            self.oblige(base, False, detail=out[-1500:], kind=kind)
        return False, out

    def compile_props(self, name=None, timeout=900):
        """copy coq/Props/<pid>.v into the build dir and compile it there (fresh on every run,
        so Print Assumptions output is parsed from this run)"""
        name = name or (self.pid + ".v")
        src = os.path.join(COQ, "Props", name)
        dst = os.path.join(self.build, "Props_" + name)
        shutil.copy(src, dst)
        return self.compile_obligations(dst, kind="theorem", timeout=timeout)

    def gate_text(self, src, label):
        # strip comments (non-nested is enough for our files) before looking for forbidden words
        body = strip_coq(src)
        m = FORBIDDEN.search(body)
        if m:
            self.oblige("gate:" + label, False, "forbidden construct: " + m.group(0), kind="gate")
            return False
        return True

    def gate_static(self):
        """no Admitted/Axiom/... anywhere in the static development"""
        bad = []
        for root, _, files in os.walk(COQ):
            for fn in files:
                if fn.endswith(".v"):
                    body = strip_coq(open(os.path.join(root, fn)).read())
                    m = FORBIDDEN.search(body)
                    if m:
                        bad.append(fn + ":" + m.group(0))
        self.oblige("gate:static-development", not bad, ",".join(bad), kind="gate")
        if os.environ.get("VERIF_SKIP_STATIC_BUILD"):
            return not bad  # development only: the caller compiled its own files with bin/coqone
        # the static development must be built (setup_cmd); rebuild incrementally if stale (serialised by a lock)
        p = subprocess.run(["flock", os.path.join(VERIF, "build", ".coq.lock"), os.path.join(VERIF, "bin", "setup")],
                           capture_output=True, text=True)
        # files that fail to compile surface as failing obligations of the checks that import them
        self.extra["static_build"] = clean_out(p.stdout + p.stderr).strip().splitlines()[-1:] if p.stdout or p.stderr else []
        return not bad

    def parse_assumptions(self, out):
        # output of `Print Assumptions t.` : "Closed under the global context" or "Axioms:\n name : type ..."
        cur = None
        for blk in re.split(r"(?=Closed under the global context|Axioms:)", out):
            if blk.startswith("Closed under"):
                self.axioms.setdefault("_closed", 0)
                self.axioms["_closed"] += 1
            elif blk.startswith("Axioms:"):
                for m in re.finditer(r"^([A-Za-z_][A-Za-z0-9_.']*)\s*:", blk[len("Axioms:"):], re.M):
                    ax = m.group(1)
                    self.axioms.setdefault("_axioms", [])
                    if ax not in self.axioms["_axioms"]:
                        self.axioms["_axioms"].append(ax)
        bad = [a for a in self.axioms.get("_axioms", []) if not any(a.endswith(ok.split(".")[-1]) for ok in STDLIB_AXIOMS_OK)]
        if bad:
            self.oblige("gate:axioms", False, "unexpected axioms: " + ",".join(bad), kind="gate")

    def coq_eval(self, name, text, timeout=600):
        """compile a generated cases file; returns (ok, list of result strings).
        The file should print with   Eval vm_compute in (...).   or  Compute.
        Results are the text after '= ' up to the ': type' trailer, whitespace-collapsed."""
        path = self.gen_v(name, text)
        ok, out = self.coqc(path, timeout)
        res = []
        if ok:
            for blk in re.split(r"^\s*= ", out, flags=re.M)[1:]:
                blk = re.sub(r"\n\s*:\s[^\n]*(\n|$).*", "", blk, flags=re.S)
                res.append(re.sub(r"\s+", " ", blk).strip())
        return ok, res, out

    # ------------------------------------------------------------------- impl
    def impl(self, script, payload=None, timeout=900, extra_env=None, args=(), pyflags=(), cwd=None):
        """run impl/<script> against the repo; payload is sent as JSON on stdin; the script prints
        one JSON document on its last stdout line"""
        cmd = [PY] + list(pyflags) + [os.path.join(VERIF, "impl", script)] + list(args)
        p = subprocess.run(cmd, input=json.dumps(payload) if payload is not None else "", capture_output=True,
                           text=True, env=impl_env(extra_env), timeout=timeout, cwd=cwd or self.build)
        lines = [l for l in p.stdout.splitlines() if l.strip()]
        if p.returncode != 0 or not lines:
            raise RuntimeError("impl script %s failed (%d): %s" % (script, p.returncode, clean_out(p.stderr)[-3000:]))
        return json.loads(lines[-1])

    def try_impl(self, script, payload=None, timeout=300, label=None, **kw):
        """like impl() but a crash / timeout of the implementation-side driver is recorded as a broken
        correspondence obligation and None is returned, so that the rest of the check still runs"""
        name = "impl:%s%s" % (script, (":" + label) if label else "")
        t0 = time.time()
        try:
            r = self.impl(script, payload, timeout=timeout, **kw)
            if os.environ.get("VERIF_TIMING"):
                sys.stderr.write("TIMING %s %.1fs\n" % (name, time.time() - t0))
            self.oblige(name, True, kind="correspondence")
            return r
        except subprocess.TimeoutExpired:
            self.oblige(name, False, "the implementation-side driver did not finish within %d s" % timeout, kind="correspondence")
        except Exception as e:  # noqa
            self.oblige(name, False, str(e)[-1500:], kind="correspondence")
        return None

    # ---------------------------------------------------------------- results
    def count(self, n=1, nontrivial_key=None, sample=None):
        self.evaluations += n
        if nontrivial_key is not None:
            self.nontrivial.add(nontrivial_key if isinstance(nontrivial_key, str) else json.dumps(nontrivial_key, sort_keys=True, default=str))
        if sample is not None and len(self.samples) < 6:
            self.samples.append(sample)

    def tally(self, key, n=1):
        self.dist[key] = self.dist.get(key, 0) + n

    def witness(self, key, what, input=None, expected=None, observed=None, broken=None):
        """a concrete input on which the *property* fails on the real implementation"""
        self.witnesses.append({"key": key, "what": what, "input": input, "expected": expected,
                               "observed": observed, "broken": broken})

    def disagree(self, model, input, model_out, impl_out, note=""):
        """model and implementation differ on an input (correspondence broken)"""
        self.disagreements.append({"model": model, "input": input, "model_out": model_out,
                                   "impl_out": impl_out, "note": note})

    # ----------------------------------------------------------------- finish
    def _write_replay(self, tag, data):
        h = hashlib.sha1(json.dumps(data, sort_keys=True, default=str).encode()).hexdigest()[:10]
        rdir = os.path.join(VERIF, "replays") if REPO == "/repo" else os.path.join(self.build, "replays")
        os.makedirs(rdir, exist_ok=True)
        path = os.path.join(rdir, "%s-%s-%s.json" % (self.pid, tag, h))
        with open(path, "w") as f:
            json.dump(data, f, indent=1, sort_keys=True, default=str)
        return path

    def finish(self):
        known_keys = {d["key"]: d for d in self.known}
        lines = []
        violations = 0
        seen_known = {}
        unlisted = {}
        for w in self.witnesses:
            if w["key"] in known_keys:
                seen_known.setdefault(w["key"], w)
            else:
                unlisted.setdefault(w["key"], w)
        for k, w in seen_known.items():
            lines.append("KNOWN-FINDING: property=%s %s [%s]" % (self.pid, known_keys[k].get("what", w["what"]), k))
        for k, w in unlisted.items():
            path = self._write_replay("witness", {"property": self.pid, "kind": "failing-input", **w})
            lines.append("VIOLATION property=%s replay=%s" % (self.pid, path))
            violations += 1
        broken = [o for o in self.obligations if not o["ok"]]
        if (broken or self.disagreements) and not unlisted:
            # the property is no longer shown to hold and the search found no failing input
            data = {"property": self.pid, "kind": "broken-obligation",
                    "broken_obligations": broken, "disagreements": self.disagreements[:5],
                    "note": "no failing input was found on the implementation; the named theorem / "
                            "instance obligation / correspondence no longer checks"}
            path = self._write_replay("obligation", data)
            lines.append("VIOLATION property=%s replay=%s no-failing-input-found" % (self.pid, path))
            violations += 1
        wall = time.time() - self.t0
        nob = len(self.obligations)
        ndis = len([o for o in self.obligations if o["ok"]])
        ev = {
            "property_id": self.pid,
            "tier": self.tier,
            "seed": self.seed,
            "level": "proof",
            "coverage": {
                "obligations": max(nob, 0),
                "discharged": ndis,
                "obligation_names": [o["name"] for o in self.obligations][:400],
                "broken": [o["name"] for o in broken],
                "checker_cmd": "coqc -Q coq LNML (Coq 8.16.1 kernel, vm_compute; no native_compute) on the static "
                               "development (make) and on the per-run generated files in build/%s" % self.pid,
                "trusted_base": self.trusted,
                "axioms_reported_by_print_assumptions": self.axioms.get("_axioms", []),
                "theorems_closed_under_global_context": self.axioms.get("_closed", 0),
                "evaluations": self.evaluations,
                "distinct_nontrivial": len(self.nontrivial),
                "rule": self.rule,
                "samples": self.samples[:6] or ["(none)"],
                "distribution": self.dist,
                "model_impl_disagreements": len(self.disagreements),
                "known_findings_seen": sorted(seen_known),
                "repo": REPO,
            },
            "assumptions": self.assumptions,
            "wall_s": round(wall, 2),
            "violations": violations,
        }
        ev["coverage"].update(self.extra)
        # the registered evidence file describes runs against /repo itself; a run redirected to a scratch tree
        # (VERIF_REPO, used for seeded changes) keeps its record in its own build directory
        ev_path = (os.path.join(VERIF, "evidence", self.pid + ".json") if REPO == "/repo"
                   else os.path.join(self.build, "evidence.json"))
        with open(ev_path, "w") as f:
            json.dump(ev, f, indent=1, default=str)
        for l in lines:
            print(l)
        print("%s tier=%s seed=%d obligations=%d/%d evaluations=%d nontrivial=%d disagreements=%d wall=%.1fs -> %s"
              % (self.pid, self.tier, self.seed, ndis, nob, self.evaluations, len(self.nontrivial),
                 len(self.disagreements), wall, "FAIL" if violations else "ok"))
        return 1 if violations else 0


# -------------------------------------------------------------- Coq literal helpers
def coq_str(s):
    """Coq string literal for an ASCII python string (non-ASCII/ctrl via String (ascii_of_nat..) not needed:
    we escape only the double quote; callers keep to printable ASCII + newline)."""
    assert all(ord(c) < 128 for c in s), "non-ascii in coq literal"
    return '"' + s.replace('"', '""') + '"'


def coq_list(items):
    return "[" + "; ".join(items) + "]"


def coq_z(n):
    return "(%d)%%Z" % n


def coq_opt(x, f=lambda v: v):
    return "None" if x is None else "(Some %s)" % f(x)
