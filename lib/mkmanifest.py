"""writes MANIFEST.json from the table below (python3 lib/mkmanifest.py)"""
import json
import os

VERIF = os.path.dirname(os.path.dirname(os.path.abspath(__file__)))
props = [json.loads(l) for l in open(os.path.join(VERIF, "properties.jsonl"))]

# id -> (technique, level text, level note, design ref)
CLAIMED = {
    "C20": ("Coq: kernel-checked equality of regenerated helper/class tables (translator tie)",
            "Theorem regen_spec over the tables regenerated from helper_methods.py, nml.py, the XSD, __version__.py, "
            "writers.py and regenerate-nml.sh on every run; the quantifier (all class/helper and class/complex-type pairs) is "
            "finite, so the kernel computation is the proof; regen_ok <-> regen_spec is proved generically. Whole-file part: "
            "generateDS is re-run on every run with the command line read from regenerate-nml.sh in a scratch copy of the tree's "
            "sources and all ~3850 units (generated and helper methods, class bases, module functions, imports) of the regenerated "
            "module are compared with the shipped one in Coq (full_ok <-> full_spec proved generically).",
            "Trusted: Coq kernel + vm_compute, tr_helpers.py (ast.unparse normal form; generateDS interpolation re-enacted), "
            "the generateDS template-method name list, tr_regen.py (sha256 of docstring/annotation-free ast.dump per unit; one named "
            "generator-version normalisation), the installed generateDS itself. No axioms.",
            "DESIGN.md §6 C20"),
}

import glob
# only properties whose check has been integrated and verified on the unchanged tree are claimed
INTEGRATED = [l.strip() for l in open(os.path.join(VERIF, "checks", "INTEGRATED")) if l.strip()]
for mf in sorted(glob.glob(os.path.join(VERIF, "checks", "c*.meta.json"))):
    md = json.load(open(mf))
    pid = os.path.basename(mf).split(".")[0].upper()
    if pid in INTEGRATED and os.path.exists(os.path.join(VERIF, "checks", pid.lower() + ".py")) and not md.get("disabled"):
        CLAIMED[pid] = (md["technique"], md["level_text"], md["level_note"], md.get("design_ref", "DESIGN.md §6 " + pid))

checks = []
na = []
for p in props:
    pid = p["id"]
    if pid in CLAIMED and pid in INTEGRATED:
        tech, text, note, ref = CLAIMED[pid]
        checks.append({
            "property_id": pid,
            "quick_cmd": "./bin/check %s --tier quick" % pid,
            "thorough_cmd": "./bin/check %s --tier thorough" % pid,
            "evidence_file": "/verif/evidence/%s.json" % pid,
            "replay_cmd_template": "./bin/check %s --replay {path}" % pid,
            "engine": "coq-lnml",
            "level_claimed": {"category": "proof", "text": text, "design_ref": ref},
            "level_note": note,
            "technique": tech,
        })
    else:
        na.append({"property_id": pid, "reason": "not claimed yet: the Coq model and its tie to the code for this property "
                                                 "are still being built (see DESIGN.md §6); no technique switch is intended"})

m = {
    "version": 1,
    "setup_cmd": "./bin/setup",
    "hooks": {
        "guard": "NEURALENSEMBLE_LIBNEUROML_VERIF",
        "enable": "no source hooks are needed: fault injection, interleaving and handle inspection are done by the harness "
                  "process through monkey-patching; checks run the working tree with PYTHONPATH=/repo",
        "baseline_off_cmd": "cd /repo && /venv/bin/python -m pytest -ra -q -p no:cacheprovider --timeout=900 --continue-on-collection-errors",
        "source_commits": [],
        "add_only": True,
    },
    "engines": [{
        "name": "coq-lnml", "path": "/verif/coq",
        "serves_properties": [c["property_id"] for c in checks],
        "kind_free_text": "Coq 8.16.1 development (Lib/Model/Proofs static, Gen/Inst/Props compiled per run) + python "
                          "translators (translators/) + correspondence harness (checks/, impl/) driven by bin/check",
    }],
    "checks": checks,
    "not_applicable": na,
    "notes": "All checks: ./bin/check <id> --tier quick|thorough. Known findings: known_findings.jsonl. Design: DESIGN.md.",
}
json.dump(m, open(os.path.join(VERIF, "MANIFEST.json"), "w"), indent=1)
print("claimed", len(checks), "unclaimed", len(na))
