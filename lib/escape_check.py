"""C01/C04 text layer ("strings including XML-special characters are read back verbatim").

run_escape(ck)   (called from checks/c01.py; ck is a lib.vcommon.Check)
  1. translators/tr_escape.py on the tree under test -> Gen_Escape.v                      (obligation translate:tr_escape)
  2. Inst_Escape.v / Inst_EscapeNum.v : generated tables = reference tables of coq/Model/Escape.v, by reflexivity
     (one named obligation per table; on failure every lemma is re-tried alone so that exactly the broken ones are named)
  3. coq/Props/C01_escape.v compiled fresh (theorems C01_attr, C01_text, C01_text_cdata_refuted, C01_int, ...)
  4. correspondence, diffed by the kernel: model quote functions == real quote_attrib/quote_xml, model XML readers ==
     lxml (on the writer's outputs and on raw inputs), Lib/Dec fmt_int/parse_int == gds_format_integer/gds_parse_integer
  5. the property predicate on the real code: every in-domain string comes back verbatim as attribute and as text
     (-> ck.witness on failure; the complete-CDATA-section case is the known finding C01:cdata-section-in-text and is
     re-demonstrated on every run); schema-float values come back to 15 decimals.
"""
import json
import os
import re
import subprocess
from concurrent.futures import ThreadPoolExecutor

from lib.vcommon import PY, VERIF, coq_str, impl_env

KNOWN_CDATA_KEY = "C01:cdata-section-in-text"
KNOWN_CDATA_WITNESS = "x <![CDATA[ y<z ]]> w"

HEADER = ("From Coq Require Import String Ascii List ZArith Bool.\n"
          "From LNML Require Import Lib.Dec Model.Escape.\n%s"
          "Import ListNotations.\nOpen Scope string_scope.\n")

INST_TABLES = [
    ("gen_attrib_repl_is_ref", "gen_attrib_repl = ref_attrib_repl"),
    ("gen_attrib_decision_is_ref", "gen_attrib_decision = ref_attrib_decision"),
    ("gen_xml_repl_is_ref", "gen_xml_repl = ref_xml_repl"),
    ("gen_cdata_regex_is_ref", "gen_cdata_regex = ref_cdata_regex /\\ gen_cdata_flags = ref_cdata_flags"),
    ("gen_quote_xml_body_is_ref", "gen_quote_xml_body = ref_quote_xml_body"),
]
INST_NUM = [
    ("gen_int_format_is_ref", "gen_int_format = ref_int_format /\\ gen_int_parse = ref_int_parse"),
    ("gen_float_format_is_ref", "gen_float_format = ref_float_format /\\ gen_float_parse = ref_float_parse"),
    ("gen_validate_string_is_ref", "gen_validate_string = ref_validate_string"),
]


TRUSTED = [
    "translators/tr_escape.py (python-ast shape matcher for quote_attrib / quote_xml_aux / quote_xml / CDATA_pattern_ / "
    "gds_format_integer / gds_parse_integer / gds_format_float / gds_parse_float / gds_validate_string; fail closed)",
    "hand-written model of an XML 1.0 reader for one attribute value and for character data (coq/Model/Escape.v attr_parse, "
    "text_parse), validated against lxml/libxml2 on the writer's outputs and on raw inputs in every run",
    "hand-written reading of the regular expression <!\\[CDATA\\[.*?\\]\\]> (DOTALL) and of the finditer loop "
    "(quote_xml_loop), validated against the real quote_xml in every run",
    "CPython '%d' / int() / '%.15f' renderings (the model's fmt_int / parse_int and the strip step are compared with them)",
]
ASSUMPTIONS = [
    "strings are byte strings in Coq; UTF-8 sequences of non-ASCII characters pass through both the writer and the reader "
    "unchanged (exercised by the non-ASCII stream under a UTF-8 locale, not proved)",
    "attribute values: TAB, CR and C0 controls are outside the property's printable text (the reader normalises TAB/CR to a "
    "space and rejects other controls; Examples attr_tab_not_verbatim, attr_cr_not_verbatim, attr_c0_not_wellformed)",
    "element text: CR is outside (read back as LF); a complete <![CDATA[...]]> section inside a string is the known finding",
    "int(): surrounding blanks, '_' separators and non-ASCII digits accepted by Python are not modelled (never written by '%d')",
]
RULE = ("strings over a special-character alphabet (< > & quotes newline ; # entity and character references, ]]>, CDATA openers; "
        "streams: printable, with TAB/CR, with C0 controls, complete / incomplete CDATA sections, non-ASCII) are written by the REAL "
        "quote_attrib / quote_xml, parsed by lxml inside <a v=.../> and <a>...</a>, and must come back verbatim when in the "
        "property's domain; the same inputs and outputs are diffed inside Coq against the model writer (tables translated from "
        "nml.py) and the model readers; raw reader inputs (valid and invalid references, line ends, CDATA, ]]>) are diffed "
        "against lxml; integers and '%.15f' renderings likewise. non-trivial = in-domain string with at least one of "
        "< > & quote newline, distinct by content; integers with >= 2 digits; decimals with a fractional part")

# ------------------------------------------------------------------ Coq terms
def cbytes(b):
    """Coq string term for arbitrary bytes: printable ASCII + newline as literals, everything else (TAB, CR, other
    controls, bytes >= 128) as  str1 (ascii_of_nat n)  -- never inside a literal"""
    if isinstance(b, str):
        b = b.encode("utf-8")
    parts = []
    run = []
    for x in b:
        if 32 <= x < 127 or x == 10:
            run.append(chr(x))
        else:
            if run:
                parts.append(coq_str("".join(run)))
                run = []
            parts.append("str1 (ascii_of_nat %d)" % x)
    if run or not parts:
        parts.append(coq_str("".join(run)))
    return parts[0] if len(parts) == 1 and parts[0].startswith('"') else "(" + " ++ ".join(parts) + ")"


def copt(v):
    return "None" if v is None else "(Some %s)" % cbytes(v)


def clist(items):
    return "[" + ";\n  ".join(items) + "]"


# ------------------------------------------------------------------ translator + instance obligations
def translate(ck):
    p = subprocess.run([PY, os.path.join(VERIF, "translators", "tr_escape.py")], capture_output=True, text=True,
                       env=impl_env(), timeout=300)
    lines = [l for l in p.stdout.splitlines() if l.strip()]
    if p.returncode != 0 or not lines:
        err = "\n".join(l for l in p.stderr.splitlines() if "conda" not in l)
        ck.oblige("translate:tr_escape", False, err[-2000:], kind="translate")
        return None
    ck.oblige("translate:tr_escape", True, kind="translate")
    return json.loads(lines[-1])


def inst_text(lemmas):
    t = ("From Coq Require Import String Ascii List.\nFrom LNML Require Import Model.Escape.\n"
         "From Run Require Import Gen_Escape.\n")
    for nm, stmt in lemmas:
        t += "Lemma %s : %s.\nProof. vm_compute. repeat split; reflexivity. Qed.\n" % (nm, stmt)
    return t


def instances(ck, fname, lemmas):
    """-> list of the lemma names that hold"""
    path = ck.gen_v(fname, inst_text(lemmas))
    n0 = len(ck.obligations)
    ok, out = ck.compile_obligations(path, kind="instance")
    if ok:
        return [nm for nm, _ in lemmas]
    # name exactly the broken ones: each lemma alone
    del ck.obligations[n0:]
    good = []
    for nm, stmt in lemmas:
        p1 = ck.gen_v("%s_%s.v" % (fname[:-2], nm), inst_text([(nm, stmt)]))
        ok1, out1 = ck.coqc(p1, timeout=120)
        ck.oblige("%s:%s" % (fname, nm), ok1, out1[-1500:], kind="instance")
        if ok1:
            good.append((nm, stmt))
    # keep a compilable Inst file with the lemmas that still hold, so that the theorems that do not depend on the
    # broken table are still established (props_split)
    ck.coqc(ck.gen_v(fname, inst_text(good)), timeout=120)
    return [nm for nm, _ in good]


def props_split(ck, name):
    """compile every Theorem of coq/Props/<name> in a file of its own (used when an instance lemma is missing):
    exactly the theorems that need the missing lemma are recorded as broken"""
    src = open(os.path.join(VERIF, "coq", "Props", name)).read()
    blocks = re.split(r"(?m)^(?=Theorem )", src)
    header, blocks = blocks[0], blocks[1:]

    def one(b):
        thm = re.match(r"Theorem\s+([A-Za-z0-9_']+)", b).group(1)
        ok, out = ck.coqc(ck.gen_v("Props_%s_%s.v" % (name[:-2], thm), header + b), timeout=300)
        return thm, ok, out, b
    with ThreadPoolExecutor(max_workers=8) as ex:
        for thm, ok, out, b in ex.map(one, blocks):
            ck.oblige("Props_%s:%s" % (name, thm), ok and ck.gate_text(header + b, name), out[-1500:], kind="theorem")
            if ok:
                ck.parse_assumptions(out)


# ------------------------------------------------------------------ generators
PIECES = ["<", ">", "&", '"', "'", "\n", ";", "#", "&amp;", "&lt;", "&gt;", "&quot;", "&apos;", "&#10;", "&#x41;", "&#",
          "amp;", "lt", "x", "a", "b", "Z", " ", "  ", "]", "]]", "]]>", "[", "<!", "[CDATA[", "CDATA", "0", "9", "=", "/",
          "-", "~", "\\", "%s", "%", "{", "}", "\n\n", "--", "!", "<a", "/>", "</a>", "(", "*)", "(*", "|", "`", "$", "@"]
SPECIAL = ["<", ">", "&", '"', "'", "\n"]
REFS = ["&amp;", "&lt;", "&gt;", "&quot;", "&apos;", "&#10;", "&#13;", "&#9;", "&#x41;", "&#65;", "&#0065;", "&#x00041;",
        "&#x7e;", "&#x7E;", "&#200;", "&#x20AC;", "&#x1F600;", "&#x10FFFF;", "&#xD7FF;", "&#xE000;", "&#xFFFD;", "&#32;"]
BADREFS = ["&", "&;", "&#;", "&#x;", "&foo;", "&amp", "&AMP;", "&#X41;", "&#0;", "&#1;", "&#x1F;", "&#xD800;", "&#xDFFF;",
           "&#xFFFE;", "&#xFFFF;", "&#x110000;", "&#99999999999;", "&#12a;", "&#xZ;", "& amp;", "&a b;", "&#-1;", "&#x 41;"]
NONASCII = ["\u00e9", "\u03bb", "\u20ac", "\U0001F600", "\u00a0", "\x7f", "\x80", "\x85", "\u2028", "\ufffd", "\u00df", "\u4e2d"]
C0 = ["\x00", "\x01", "\x08", "\x0b", "\x0c", "\x0e", "\x1f"]


def pick_pieces(rng, n, extra=()):
    out = []
    for _ in range(n):
        r = rng.random()
        if r < 0.45:
            out.append(rng.choice(SPECIAL))
        elif extra and r < 0.6:
            out.append(rng.choice(extra))
        else:
            out.append(rng.choice(PIECES))
    return out


def gen_string(rng, kind):
    n = rng.choice([0, 1, 1, 2, 3, 4, 5, 6, 8, 10, 14])
    if kind == "printable":
        return "".join(pick_pieces(rng, n))
    if kind == "tabcr":
        return "".join(pick_pieces(rng, max(n, 1), extra=["\t", "\r", "\r\n", "\n\r", "\t\t"]))
    if kind == "ctrl":
        p = pick_pieces(rng, n)
        p.insert(rng.randrange(len(p) + 1), rng.choice(C0))
        return "".join(p)
    if kind == "nonascii":
        return "".join(pick_pieces(rng, max(n, 1), extra=NONASCII))
    if kind == "cdata-complete":
        pre = "".join(pick_pieces(rng, rng.randrange(3)))
        inner = "".join(pick_pieces(rng, rng.randrange(5), extra=["<![CDATA[", "]]", "]"]))
        post = "".join(pick_pieces(rng, rng.randrange(3), extra=["<![CDATA[", "]]>"]))
        return pre + "<![CDATA[" + inner + "]]>" + post
    if kind == "cdata-incomplete":
        pre = "".join(pick_pieces(rng, rng.randrange(3), extra=["]]>"]))
        inner = "".join(pick_pieces(rng, rng.randrange(5), extra=["]]", "]", "]>"]))
        s = pre + rng.choice(["<![CDATA[", "<![CDATA", "<![CDATA[]]", "<!CDATA[", "<![cdata["]) + inner
        i = s.find("<![CDATA[")
        if i >= 0 and s.find("]]>", i + 9) >= 0:      # by accident complete: cut the closers behind the opener
            s = s[:i + 9] + s[i + 9:].replace("]]>", "]] >")
        return s
    raise ValueError(kind)


def has_complete_cdata(s):
    i = s.find("<![CDATA[")
    return i >= 0 and s.find("]]>", i + 9) >= 0


def in_domain(s):
    """printable text of the property: U+0020..U+007E, newline, and printable non-ASCII; TAB / CR / other C0 controls
    are normalised or rejected by every XML parser and are outside"""
    return all(c == "\n" or ord(c) >= 32 for c in s)


def gen_raw_attr(rng):
    d = rng.choice(['"', "'"])
    n = rng.choice([0, 1, 2, 3, 4, 6, 8])
    parts = []
    for _ in range(n):
        r = rng.random()
        if r < 0.3:
            parts.append(rng.choice(REFS))
        elif r < 0.4:
            parts.append(rng.choice(BADREFS))
        elif r < 0.55:
            parts.append(rng.choice(["\t", "\r", "\n", "\r\n", "\n\r", "\r\r\n", " "]))
        elif r < 0.6:
            parts.append(rng.choice(["<", "\x01", "\x0b", "\x7f"]))
        elif r < 0.65:
            parts.append(rng.choice(NONASCII))
        else:
            parts.append(rng.choice(PIECES + [">", "'", '"', "]]>"]))
    body = "".join(parts).replace(d, "")           # the value may not contain its own delimiter
    body = body.replace("<", "") if rng.random() < 0.7 else body
    return d + body + d


def gen_raw_text(rng):
    n = rng.choice([0, 1, 2, 3, 4, 6, 8])
    parts = []
    for _ in range(n):
        r = rng.random()
        if r < 0.25:
            parts.append(rng.choice(REFS))
        elif r < 0.33:
            parts.append(rng.choice(BADREFS))
        elif r < 0.45:
            parts.append(rng.choice(["\t", "\r", "\n", "\r\n", "\n\r", "\r\r\n", " "]))
        elif r < 0.6:
            inner = "".join(rng.choice(["a", "<", "&", "&amp;", "]", "]]", "\r\n", "\r", "\n", ">", "]>", "<![CDATA[", " ", "\x01" if rng.random() < 0.1 else "b"])
                            for _ in range(rng.randrange(5)))
            parts.append("<![CDATA[" + inner + (rng.choice(["]]>", "]]>", "]]>", "]]", ""])))
        elif r < 0.65:
            parts.append(rng.choice(["]]>", "]]", "]>", "]]]>", "]] >", "]]&gt;", ">"]))
        elif r < 0.68:
            parts.append(rng.choice(["<", "\x01", "\x0b", "\x7f", "<a/>", "<!-- c -->"]))
        elif r < 0.73:
            parts.append(rng.choice(NONASCII))
        else:
            parts.append(rng.choice([p for p in PIECES if "<" not in p] + ["'", '"']))
    return "".join(parts)


FIXED_STRINGS = [KNOWN_CDATA_WITNESS, "", "a<b", "a&lt;b", "&", "<", ">", '"', "'", "\n", "\"'", "'\"'", "a\"b", "a'b",
                 "a&b<c>d\"e'f\ng", "&amp;", "&#10;", "]]>", "a]]>b", "<![CDATA[", "<![CDATA[]]>", "<![CDATA[a]]>", "]]><![CDATA[",
                 "<![CDATA[<![CDATA[a]]>b]]>", "x<![CDATA[a]]>y<![CDATA[b]]>z", "<![CDATA[ a ]] >", "\t", "\r", "\r\n", "a\tb",
                 " lead and trail ", "  ", "0.12345678", "\u00e9<\u20ac>&\U0001F600\"'"]
FIXED_RAW_ATTR = ['""', "''", '"a"', "'a\"b'", '"a\'b"', '"a<b"', '"a>b"', '"a&b"', '"a', "a", "", '"a"b"', "'", '"',
                  '"a\tb\nc\rd\r\ne"', '"&#10;&#9;&#13;"', '"&quot;&apos;&amp;&lt;&gt;"', '"]]>"', '"\r\n"', '"\n\r"', '"&#x20;&#32; "']
FIXED_RAW_TEXT = ["", "a]]>b", "a\x01b", "a&#1;b", "a&#13;b", "a\r\nb\rc", "x<![CDATA[ a&amp;<b \r\n ]]>y", "<![CDATA[ab", "&#x41;&#65;",
                  "&#xZ;", "&#;", "&#x;", "&foo;", "&amp", "a&#128;b", "&#x10FFFF;", "&#x110000;", "&#xD800;", "&#xFFFE;", "]]",
                  "]]&gt;", "a<b", "&#9;&#10;&#13;", "<![CDATA[]]>", "<![CDATA[]]]]>", "<![CDATA[a]]>]]>", "<![CDATA[a]]><![CDATA[b]]>",
                  "\t\n ", "]]]>", "]>", "]] >", "a<!-- c -->b", "<b/>", "a\r", "\r", "<![CDATA[\r]]>", "<![CDATA[a\r\n]]>"]
FIXED_INTS = [0, 1, -1, 9, 10, 11, 99, 100, 101, -10, -99, 2 ** 31 - 1, -2 ** 31, 2 ** 63, 10 ** 30, -10 ** 30 + 7, 1234567890123456789]
FIXED_RAW_INTS = ["0", "-0", "+0", "007", "+5", "-5", "", "-", "+", "5a", "a", "--5", "+-5", "12 3", "1.0"]
FIXED_FLOATS = ["0", "1", "-1", "0.5", "0.1", "0.12345678", "-0.000123456789012", "3.141592653589793", "100", "123456.789",
                "0.000000000000001", "1e-7", "2.5e-10", "1e10", "0.3", "-70.0", "1e22"]


# ------------------------------------------------------------------ the run
def run_impl(ck, payload):
    return ck.impl("escape_impl.py", payload, timeout=900)


def _indices(res):
    return [int(x) for x in re.findall(r"\d+", res)]


def eval_cases(ck, name, gen_ok, qa, qx, pa, px, ints, rints, flts):
    imp = "From Run Require Import Gen_Escape.\n" if gen_ok else ""
    fa, fx = ("gen_quote_attrib", "gen_quote_xml") if gen_ok else ("quote_attrib", "quote_xml")
    t = HEADER % imp
    t += "Definition qa_cases : list (string * string) := %s.\n" % clist(["(%s, %s)" % (cbytes(a), cbytes(b)) for a, b in qa])
    t += "Definition qx_cases : list (string * string) := %s.\n" % clist(["(%s, %s)" % (cbytes(a), cbytes(b)) for a, b in qx])
    t += "Definition pa_cases : list (string * option string) := %s.\n" % clist(["(%s, %s)" % (cbytes(a), copt(b)) for a, b in pa])
    t += "Definition px_cases : list (string * option string) := %s.\n" % clist(["(%s, %s)" % (cbytes(a), copt(b)) for a, b in px])
    t += "Definition int_cases : list (Z * string) := %s.\n" % clist(["((%d)%%Z, %s)" % (z, cbytes(s)) for z, s in ints])
    t += "Definition rint_cases : list (string * option Z) := %s.\n" % clist(
        ["(%s, %s)" % (cbytes(s), "None" if z is None else "(Some (%d)%%Z)" % z) for s, z in rints])
    t += "Eval vm_compute in (mism_str %s qa_cases 0).\n" % fa
    t += "Eval vm_compute in (mism_str %s qx_cases 0).\n" % fx
    t += "Eval vm_compute in (mism_opt attr_parse pa_cases 0).\n"
    t += "Eval vm_compute in (mism_opt text_parse px_cases 0).\n"
    t += "Eval vm_compute in (mism_gen String.eqb fmt_int int_cases 0).\n"
    t += "Eval vm_compute in (mism_gen oz_eqb parse_int rint_cases 0).\n"
    t += "Definition flt_cases : list (string * string) := %s.\n" % clist(["(%s, %s)" % (cbytes(a), cbytes(b)) for a, b in flts])
    t += "Eval vm_compute in (mism_str (float_finish_of %s) flt_cases 0).\n" % ("gen_float_format" if gen_ok else "ref_float_format")
    return ck.coq_eval(name, t, timeout=600)


def run_escape(ck):
    rng = ck.rng
    # ---- 1/2: translator tie
    d = translate(ck)
    gen_ok = False
    if d is not None:
        g = ck.gen_v("Gen_Escape.v", d["coq"])
        gen_ok, out = ck.coqc(g)
        ck.oblige("Gen_Escape.v:compiles", gen_ok, out[-1500:], kind="translate")
    if gen_ok:
        held = instances(ck, "Inst_Escape.v", INST_TABLES) + instances(ck, "Inst_EscapeNum.v", INST_NUM)
        # ---- 3: theorems
        if len(held) == len(INST_TABLES) + len(INST_NUM):
            ck.compile_props("C01_escape.v")
        else:
            props_split(ck, "C01_escape.v")
    else:
        for nm in re.findall(r"(?m)^Theorem\s+([A-Za-z0-9_']+)", open(os.path.join(VERIF, "coq", "Props", "C01_escape.v")).read()):
            ck.oblige("Props_C01_escape.v:" + nm, False,
                      "not established: the text-layer functions of nml.py could not be translated "
                      "(see translate:tr_escape)", kind="theorem")
    # ---- 4/5: inputs
    n_str = ck.n(700, 15000)
    kinds = [("printable", 0.40), ("cdata-complete", 0.12), ("cdata-incomplete", 0.12), ("tabcr", 0.14), ("ctrl", 0.06),
             ("nonascii", 0.16)]
    strings = [(s, "fixed") for s in FIXED_STRINGS]
    for _ in range(n_str):
        r = rng.random()
        acc = 0.0
        for k, w in kinds:
            acc += w
            if r < acc:
                break
        strings.append((gen_string(rng, k), k))
    raw_attr = FIXED_RAW_ATTR + [gen_raw_attr(rng) for _ in range(ck.n(300, 5000))]
    raw_text = FIXED_RAW_TEXT + [gen_raw_text(rng) for _ in range(ck.n(300, 5000))]
    ints = list(FIXED_INTS)
    for _ in range(ck.n(150, 3000)):
        mag = rng.choice([1, 2, 3, 5, 9, 10, 18, 19, 20, 40])
        ints.append(rng.randrange(-10 ** mag, 10 ** mag))
    raw_ints = list(FIXED_RAW_INTS)
    for _ in range(ck.n(60, 600)):
        raw_ints.append(rng.choice(["", "-", "+", "--"]) + "".join(rng.choice("0123456789") for _ in range(rng.randrange(0, 12)))
                        + rng.choice(["", "", "", "x", ".", "-"]))
    raw_ints = [t for t in raw_ints if t.strip() == t and "_" not in t]     # blanks / '_' of int() are not modelled
    floats = list(FIXED_FLOATS)
    for _ in range(ck.n(400, 50000)):
        k = rng.randrange(0, 16)
        mag = rng.choice([0, 0, 1, 2, 3, 6])
        m = rng.randrange(-10 ** (k + mag), 10 ** (k + mag) + 1)
        floats.append("%de-%d" % (m, k))
    res = run_impl(ck, {"strings": [s for s, _ in strings], "raw_attr": raw_attr, "raw_text": raw_text, "ints": ints,
                        "raw_ints": raw_ints, "floats": floats})

    # ---- 5: the property on the real code
    demonstrated = False
    for (s, kind), r in zip(strings, res["strings"]):
        ck.tally("string:" + kind)
        dom = in_domain(s)
        special = sum(1 for c in s if c in "<>&\"'\n")
        ck.count(1, nontrivial_key=("s", s) if dom and special >= 1 else None,
                 sample={"string": s, "attr": r.get("qa"), "text": r.get("qx")} if special >= 3 and dom and len(s) < 40 else None)
        if not dom:
            continue
        if "err" in r:
            ck.witness("C01:string:writer-raises", "quote_attrib/quote_xml raises on a string: %s" % r["err"], input={"string": s},
                       observed=r["err"])
            continue
        if r["back_attr"] != s:
            ck.witness("C01:string:attribute-not-verbatim",
                       "a string member written as an attribute is not read back verbatim (quote_attrib -> XML parser)",
                       input={"string": s, "written": r["qa"]}, expected=s, observed=r["back_attr"],
                       broken="Inst_Escape.v:gen_attrib_repl_is_ref / gen_attrib_decision_is_ref")
        if r["back_text"] != s:
            if has_complete_cdata(s):
                if not demonstrated or s == KNOWN_CDATA_WITNESS:
                    ck.witness(KNOWN_CDATA_KEY, "a string member containing a complete <![CDATA[...]]> section is not read back "
                               "verbatim (quote_xml leaves CDATA sections unescaped by design)",
                               input={"text": s, "written": r["qx"]}, expected=s, observed=r["back_text"])
                    demonstrated = True
                ck.tally("known:cdata-section-in-text")
            else:
                ck.witness("C01:string:text-not-verbatim",
                           "a string member written as element text is not read back verbatim (quote_xml -> XML parser)",
                           input={"string": s, "written": r["qx"]}, expected=s, observed=r["back_text"],
                           broken="Inst_Escape.v:gen_xml_repl_is_ref")
    failed = [o["name"] for o in ck.obligations if not o["ok"] and o["kind"] in ("instance", "translate")]
    for w in ck.witnesses:
        if w.get("broken"):
            w["broken"] = ", ".join(failed) if failed else None
    if not demonstrated:
        # the stored witness of the known finding no longer fails: the finding is stale -> the refutation theorem is wrong
        ck.oblige("known-finding:" + KNOWN_CDATA_KEY + ":re-demonstrated", False,
                  "the stored witness %r is read back verbatim by the implementation" % KNOWN_CDATA_WITNESS, kind="correspondence")
    for z, r in zip(ints, res["ints"]):
        ck.count(1, nontrivial_key=("i", z) if abs(z) >= 10 else None)
        if r["back"] != z:
            ck.witness("C01:integer-not-verbatim", "gds_parse_integer(gds_format_integer(z)) differs from z", input={"z": z},
                       expected=z, observed=r, broken="Inst_EscapeNum.v:gen_int_format_is_ref")
    for t, r in zip(floats, res["floats"]):
        ck.count(1, nontrivial_key=("f", t) if "e-" in t and not t.endswith("e-0") else None)
        if r["back15"] != r["x15"]:
            ck.witness("C01:float-not-to-15-decimals",
                       "a schema-float value is not read back to the 15 decimal places the format carries",
                       input={"value": t, "written": r["fmt"]}, expected=r["x15"], observed=r["back15"],
                       broken="Inst_EscapeNum.v:gen_float_format_is_ref")
    ck.tally("raw_attr", len(raw_attr))
    ck.tally("raw_text", len(raw_text))
    ck.tally("ints", len(ints))
    ck.tally("floats", len(floats))

    # ---- 4: model vs implementation, diffed by the kernel
    usable = [((s, k), r) for (s, k), r in zip(strings, res["strings"]) if "err" not in r]
    shard = 400
    jobs = []
    nshards = max((len(usable) + shard - 1) // shard, (len(raw_attr) + shard - 1) // shard, (len(raw_text) + shard - 1) // shard, 1)

    def chunk(lst, i):
        per = (len(lst) + nshards - 1) // nshards
        return lst[i * per:(i + 1) * per]
    for i in range(nshards):
        us = chunk(usable, i)
        qa = [(s, r["qa"]) for (s, _), r in us]
        qx = [(s, r["qx"]) for (s, _), r in us]
        ra = chunk(list(zip(raw_attr, res["raw_attr"])), i)
        rt = chunk(list(zip(raw_text, res["raw_text"])), i)
        pa = [(r["qa"], r["pa"]) for _, r in us] + ra
        px = [(r["qx"], r["px"]) for _, r in us] + rt
        ic = chunk([(z, r["fmt"]) for z, r in zip(ints, res["ints"])], i)
        rc = chunk(list(zip(raw_ints, res["raw_ints"])), i)
        fc = chunk([(r["x15"], r["fmt"]) for r in res["floats"]], i)
        jobs.append((i, qa, qx, pa, px, ic, rc, fc))
    with ThreadPoolExecutor(max_workers=8) as ex:
        evals = list(ex.map(lambda j: eval_cases(ck, "Cases_Escape_%d.v" % j[0], gen_ok, *j[1:]), jobs))
    ncases = 0
    for (i, qa, qx, pa, px, ic, rc, fc), (ok, results, out) in zip(jobs, evals):
        ck.oblige("Cases_Escape_%d.v:evaluates" % i, ok and len(results) == 7, out[-1500:], kind="correspondence")
        if not ok or len(results) != 7:
            continue
        ncases += len(qa) + len(qx) + len(pa) + len(px) + len(ic) + len(rc) + len(fc)
        for name, cases, r in (("Escape.quote_attrib_of (tables from nml.py)" if gen_ok else "Escape.quote_attrib (reference)", qa, results[0]),
                               ("Escape.quote_xml_of (tables from nml.py)" if gen_ok else "Escape.quote_xml (reference)", qx, results[1]),
                               ("Escape.attr_parse vs lxml", pa, results[2]), ("Escape.text_parse vs lxml", px, results[3]),
                               ("Dec.fmt_int vs gds_format_integer", ic, results[4]), ("Dec.parse_int vs gds_parse_integer", rc, results[5]),
                               ("Escape.float_finish_of('%.15f' rendering) vs gds_format_float", fc, results[6])):
            for idx in _indices(r):
                inp, outp = cases[idx]
                ck.disagree(name, inp, "(differs; evaluate in Cases_Escape_%d.v, index %d)" % (i, idx), outp)
    for t in TRUSTED:
        if t not in ck.trusted:
            ck.trusted.append(t)
    for a in ASSUMPTIONS:
        if a not in ck.assumptions:
            ck.assumptions.append(a)
    ck.extra["escape_rule"] = RULE
    ck.extra["escape_correspondence_cases"] = ncases
    ck.extra["escape_strings"] = len(strings)
    return d


def replay_escape(ck, data):
    """re-run a stored failing string / number on the implementation; prints both outcomes; 1 when it still fails"""
    inp = data.get("input") or {}
    s = inp.get("string", inp.get("text"))
    payload = {"strings": [s] if s is not None else [], "ints": [inp["z"]] if "z" in inp else [],
               "floats": [inp["value"]] if "value" in inp else []}
    res = run_impl(ck, payload)
    fails = False
    for r in res["strings"]:
        fails |= r.get("back_attr") != s or r.get("back_text") != s
    for z, r in zip(payload["ints"], res["ints"]):
        fails |= r["back"] != z
    for r in res["floats"]:
        fails |= r["back15"] != r["x15"]
    print(json.dumps({"stored": inp, "now": res}, indent=1)[:4000])
    return 1 if fails else 0
