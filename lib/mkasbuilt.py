"""regenerates the machine-written tables of DESIGN.md §11 (between the AS-BUILT markers) from meta/evidence/seeded files"""
import glob
import json
import os
import re
import subprocess

V = os.path.dirname(os.path.dirname(os.path.abspath(__file__)))
out = []
out.append("| id | obligations (quick) | theorems closed / axioms | model ↔ code cases (quick) | wall quick | Coq files |")
out.append("|---|---|---|---|---|---|")
FILES = {
    "C01": "Model/Gds, GdsWf, GdsExec, Escape; Proofs/GdsP1, GdsP, DecP, EscapeP", "C02": "Lib/Regex; Model/Validate, Xsd; Proofs/RegexP, ValidateP*, XsdP*",
    "C03": "Model/Validate; Proofs/ValidateP*", "C04": "Model/Gds*; Proofs/GdsP2", "C05": "Model/H5; Proofs/H5P", "C06": "Model/Includes; Proofs/IncludesP*",
    "C07": "Model/State; Proofs/StateP", "C08": "Model/Resource; Proofs/ResourceP", "C09": "Model/Super; Proofs/SuperP3", "C10": "Model/Super; Proofs/SuperP",
    "C11": "Model/Super; Proofs/SuperP2", "C12": "Model/Geom; Proofs/GeomP", "C13": "Model/Morph; Proofs/MorphP*", "C14": "Model/Groups; Proofs/Groups*P",
    "C15": "Model/Builder; Proofs/Builder*P", "C16": "Model/Section; Proofs/SectionP*", "C17": "Model/Refs; Proofs/RefsP*", "C18": "Model/ArrayMorph; Proofs/ArrayMorphP*",
    "C19": "Lib/StrFun*; Model/Accessors; Proofs/AccessorsP", "C20": "Model/Regen; Proofs/RegenP"}
for i in range(1, 21):
    pid = "C%02d" % i
    e = json.load(open(os.path.join(V, "evidence", pid + ".json")))
    c = e["coverage"]
    ax = c.get("axioms_reported_by_print_assumptions") or []
    out.append("| %s | %d/%d | %s closed; %s | %d (%d non-trivial) | %.0f s | %s |" % (
        pid, c["discharged"], c["obligations"], c.get("theorems_closed_under_global_context", 0),
        ("axioms: " + ", ".join(a.split(".")[-1] for a in ax)) if ax else "no axioms", c["evaluations"], c["distinct_nontrivial"], e["wall_s"], FILES[pid]))
tab1 = "\n".join(out)

out = ["| seed | property | where / mechanism | needs to manifest | verdict of `bin/check <id>` (quick) on the changed tree |", "|---|---|---|---|---|"]
for d in sorted(glob.glob(os.path.join(V, "seeded", "*"))):
    mf = os.path.join(d, "meta.json")
    if not os.path.exists(mf):
        continue
    m = json.load(open(mf))
    cf = m.get("confirmed_by_verif", {})
    co = [l for l in cf.get("check_output", []) if l.startswith("VIOLATION")]
    verdict = "exit %s" % cf.get("check_exit_on_changed_tree")
    if co:
        verdict += ", " + ("no-failing-input-found" if all("no-failing-input-found" in l for l in co) else "VIOLATION with failing input")
    rc = m.get("reconfirmed")
    if rc:
        if not rc.get("patch_applies", True):
            verdict += "; at /repo %s the patch no longer applies (a later fix rewrote these lines)" % rc.get("repo_head")
        else:
            ex = rc.get("checks", {})
            own = ex.get(m.get("property"))
            verdict = "exit %s%s (re-run at /repo %s)" % (own, ", VIOLATION with failing input" if rc.get("with_failing_input") else (", no-failing-input-found" if rc.get("only_broken_obligation") else ""), rc.get("repo_head"))
            first = cf.get("check_exit_on_changed_tree")
            if first == 0 and own == 1:
                verdict += "; missed at the first trial, caught after the strengthening described above"
    j = m.get("judged")
    if j and not j.get("violates_claimed_property", True):
        verdict += "; judged: %s holds as stated, the change violates %s and `bin/check %s` reports it" % (m.get("property"), j.get("violated_property"), j.get("reported_by_check"))
    def cell(s):
        return re.sub(r"\s+", " ", str(s or "")).replace("|", "/")[:260]
    out.append("| %s | %s | %s | %s | %s |" % (os.path.basename(d), m.get("property"), cell(m.get("what_breaks") or m.get("title")), cell(m.get("needs_to_manifest")), verdict))
tab2 = "\n".join(out)

fixes = subprocess.run(["git", "-C", "/repo", "log", "--format=%h %s", "--reverse"], capture_output=True, text=True).stdout.splitlines()
fixes = [l for l in fixes if " fix:" in l]
tab3 = "\n".join("* `%s` %s" % tuple(l.split(" ", 1)) for l in fixes)
known = [json.loads(l) for l in open(os.path.join(V, "known_findings.jsonl")) if l.strip() and json.loads(l).get("status") == "known"]
tab4 = "\n".join("* **%s** `%s` — %s" % (k["property"], k["key"], re.sub(r"\s+", " ", k["what"])[:400]) for k in sorted(known, key=lambda k: k["property"]))

p = os.path.join(V, "DESIGN.md")
s = open(p).read()
for name, tab in (("TABLE-CHECKS", tab1), ("TABLE-SEEDS", tab2), ("LIST-FIXES", tab3), ("LIST-KNOWN", tab4)):
    s = re.sub(r"(<!-- %s -->).*?(<!-- /%s -->)" % (name, name), lambda m: m.group(1) + "\n" + tab + "\n" + m.group(2), s, flags=re.S)
open(p, "w").write(s)
print("DESIGN.md tables regenerated: %d seeds, %d fixes, %d known" % (len(tab2.splitlines()) - 2, len(fixes), len(known)))
