"""tr_skeleton - python-ast translator (fail closed) from the read/write entry points of libNeuroML to
commands of the resource-protocol language of coq/Model/Resource.v (C08).

Reads (never imports) $VERIF_REPO/neuroml/{writers.py,loaders.py,hdf5/NeuroMLHdf5Parser.py,hdf5/NetworkContainer.py,
nml/nml.py} and prints ONE JSON document on the last stdout line:

  {"entries": [{"name", "file", "functions": [[file, funcname, first, last]...],      # entry + inlined callees
                "cmd": <nested list>, "sites": [{"label","kind","name","file","func","stmt":[first,last]}...],
                "guards": [...], "notes": [...]}...],
   "untranslatable": ["file:qualname:line:reason", ...]}

What is kept of a function body: every call (a fault point: `Op` when it goes to the file layer - open / tables.* /
anything reached through or given a file handle / another loader-writer entry point -, `MayRaise "Exception"`
otherwise), acquisitions (`x = open(..)`, `x = tables.open_file(..)`, `with .. as x`), releases (`x.close()`),
mutations of the caller's document (stores through a name derived from the document parameter) and the
restore idiom, and the whole control skeleton (if / for / while / try-except-finally / with / return / raise /
import).  Same-class callees are inlined; other resolvable callees (same-class recursive methods, `exportHdf5`,
`export`) are summarised after checking that they do not open, close or mutate; everything else is library
code (may raise, does not own our handles).  Any statement shape not listed here aborts that entry
(reported in "untranslatable") - never guessed.
"""
import ast
import json
import os
import sys

REPO = os.environ.get("VERIF_REPO", "/repo")

ENTRIES = [
    # (entry name, file, class or None, function, names of the parameters that hold the caller's document)
    ("NeuroMLWriter.write", "neuroml/writers.py", "NeuroMLWriter", "write", ["nmldoc"]),
    ("NeuroMLHdf5Writer.write", "neuroml/writers.py", "NeuroMLHdf5Writer", "write", ["nml_doc"]),
    ("ArrayMorphWriter.write", "neuroml/writers.py", "ArrayMorphWriter", "write", ["data"]),
    ("ArrayMorphLoader.load", "neuroml/loaders.py", "ArrayMorphLoader", "load", []),
    ("NeuroMLHdf5Parser.parse", "neuroml/hdf5/NeuroMLHdf5Parser.py", "NeuroMLHdf5Parser", "parse", []),
    ("NeuroMLLoader.load", "neuroml/loaders.py", "NeuroMLLoader", "load", []),
    ("NeuroMLHdf5Loader.load", "neuroml/loaders.py", "NeuroMLHdf5Loader", "load", []),
    ("read_neuroml2_file", "neuroml/loaders.py", None, "read_neuroml2_file", []),
    ("read_neuroml2_string", "neuroml/loaders.py", None, "read_neuroml2_string", []),
    # the two places where the XML parser is constructed and run (a retry with another parser after a failure
    # would show as an except clause that does not re-raise: `reports` fails)
    ("parsexml_", "neuroml/nml/nml.py", None, "parsexml_", []),
    ("parsexmlstring_", "neuroml/nml/nml.py", None, "parsexmlstring_", []),
]

# calls that are themselves entry points or go straight to the file layer (verified / injected separately)
FILE_FUNCS = {"nmlparse", "nmlparsestring", "read_neuroml2_string", "read_neuroml2_file", "_read_neuroml2",
              "NeuroMLWriter.write", "NeuroMLHdf5Loader.load", "NeuroMLLoader.load", "currParser.parse",
              "parsexml_", "parsexmlstring_", "etree_.parse", "etree_.fromstring", "etree_.XML", "etree_.iterparse"}
# method names resolved across nml.py / NetworkContainer.py when called on (part of) the document
DOC_METHODS = {"exportHdf5", "export"}
MUTATORS = {"append", "extend", "insert", "pop", "remove", "clear", "update", "setdefault", "add", "discard",
            "sort", "reverse", "popitem", "__setitem__", "__delitem__"}


class Untranslatable(Exception):
    pass


def names_in(node):
    return {n.id for n in ast.walk(node) if isinstance(n, ast.Name)}


def root_name(node):
    """the Name at the root of an attribute/subscript/call chain, or None"""
    while True:
        if isinstance(node, ast.Name):
            return node.id
        if isinstance(node, (ast.Attribute, ast.Subscript, ast.Starred)):
            node = node.value
        elif isinstance(node, ast.Call):
            node = node.func
        else:
            return None


def dotted(node):
    try:
        return ast.unparse(node)
    except Exception:  # pragma: no cover
        return "?"


def is_open_call(call):
    f = call.func
    if isinstance(f, ast.Name) and f.id == "open":
        return True
    if isinstance(f, ast.Attribute) and f.attr == "open_file":
        return True
    return False


class Module:
    def __init__(self, rel):
        self.rel = rel
        self.path = os.path.join(REPO, rel)
        self.tree = ast.parse(open(self.path).read(), self.path)
        self.classes = {n.name: n for n in self.tree.body if isinstance(n, ast.ClassDef)}
        self.funcs = {n.name: n for n in self.tree.body if isinstance(n, ast.FunctionDef)}

    def method(self, cls, name):
        c = self.classes.get(cls)
        if c is None:
            return None
        for n in c.body:
            if isinstance(n, ast.FunctionDef) and n.name == name:
                return n
        return None


_MODS = {}


def module(rel):
    if rel not in _MODS:
        _MODS[rel] = Module(rel)
    return _MODS[rel]


_METHOD_INDEX = None


def method_index():
    """method name -> [(file, class, FunctionDef)] over nml.py and NetworkContainer.py (for DOC_METHODS and their self-calls)"""
    global _METHOD_INDEX
    if _METHOD_INDEX is None:
        idx = {}
        for rel in ("neuroml/nml/nml.py", "neuroml/hdf5/NetworkContainer.py"):
            m = module(rel)
            for cname, c in m.classes.items():
                for n in c.body:
                    if isinstance(n, ast.FunctionDef):
                        idx.setdefault(n.name, []).append((rel, cname, n))
            for fname, f in m.funcs.items():
                idx.setdefault("<func>" + fname, []).append((rel, None, f))
        _METHOD_INDEX = idx
    return _METHOD_INDEX


def effects_of_defs(defs, self_is_doc, seen):
    """syntactic effect summary of a set of function definitions, transitively through self.X(..) calls and
    DOC_METHODS calls: does any of them open or close a file, or store into self / a parameter?"""
    eff = set()
    idx = method_index()
    for rel, cname, fn in defs:
        key = (rel, cname, fn.name)
        if key in seen:
            continue
        seen.add(key)
        params = {a.arg for a in fn.args.args + fn.args.kwonlyargs}
        for n in ast.walk(fn):
            if isinstance(n, ast.Call):
                if is_open_call(n):
                    eff.add("opens a file in %s.%s:%d" % (cname, fn.name, n.lineno))
                f = n.func
                if isinstance(f, ast.Attribute):
                    if f.attr == "close" and not n.args:
                        eff.add("closes %s in %s.%s:%d" % (dotted(f.value), cname, fn.name, n.lineno))
                    if f.attr in MUTATORS and root_name(f.value) == "self" and isinstance(f.value, ast.Attribute) and self_is_doc:
                        eff.add("mutates %s in %s.%s:%d" % (dotted(f.value), cname, fn.name, n.lineno))
                    # transitive: self.X(..), super().X(..) and document methods on children
                    tgt = None
                    if isinstance(f.value, ast.Name) and f.value.id in ("self", "cls"):
                        tgt = f.attr
                    elif isinstance(f.value, ast.Call) and isinstance(f.value.func, ast.Name) and f.value.func.id == "super":
                        tgt = f.attr
                    elif f.attr in DOC_METHODS:
                        tgt = f.attr
                    if tgt and tgt in idx:
                        eff |= effects_of_defs(idx[tgt], self_is_doc, seen)
                elif isinstance(f, ast.Name) and f.id == "setattr" and n.args and root_name(n.args[0]) == "self" and self_is_doc:
                    eff.add("setattr on self in %s.%s:%d" % (cname, fn.name, n.lineno))
            elif isinstance(n, (ast.Assign, ast.AugAssign, ast.AnnAssign, ast.Delete)) and self_is_doc:
                tgts = n.targets if isinstance(n, (ast.Assign, ast.Delete)) else [n.target]
                for t in tgts:
                    for y in ast.walk(t):
                        if isinstance(y, (ast.Attribute, ast.Subscript)) and isinstance(getattr(y, "ctx", None), (ast.Store, ast.Del)) \
                                and root_name(y) == "self":
                            eff.add("stores %s in %s.%s:%d" % (dotted(y), cname, fn.name, n.lineno))
    return eff


class Env:
    """per (inlined) function frame"""

    def __init__(self, rel, cls, fn, handle_alias=None, tainted=None, docs=None):
        self.rel, self.cls, self.fn = rel, cls, fn
        self.handle_alias = dict(handle_alias or {})  # local name -> handle name in the skeleton
        self.tainted = set(tainted or ())  # names holding a file handle or something reached through one
        self.docs = set(docs or ())  # names holding (part of) the caller's document
        self.saved = {}  # local name -> document attribute text it was copied from (restore idiom)
        self.mutated = set()  # document attribute texts already mutated in this frame


class Translator:
    def __init__(self, entry):
        self.name, self.rel, self.cls, self.func, self.docparams = entry
        self.sites = []
        self.guards = []
        self.notes = []
        self.functions = []
        self.stack = []
        self.counter = {}

    # ------------------------------------------------------------------ helpers
    def fail(self, node, why):
        raise Untranslatable("%s:%s:%d:%s" % (self.rel, self.name, getattr(node, "lineno", 0), why))

    def label(self, env, stmt, kind, name):
        key = (env.rel, stmt.lineno)
        k = self.counter.get(key, 0)
        self.counter[key] = k + 1
        lab = "L%d.%d" % (stmt.lineno, k)
        self.sites.append({"label": lab, "kind": kind, "name": name, "file": env.rel, "func": env.fn.name,
                           "stmt": [stmt.lineno, getattr(stmt, "end_lineno", stmt.lineno)]})
        return lab

    @staticmethod
    def seq(cmds):
        flat = []

        def add(c):  # statement lists are right-nested: Seq s1 (Seq s2 (... sn))
            if c[0] == "Seq":
                add(c[1])
                add(c[2])
            elif c != ["Skip"]:
                flat.append(c)

        for c in cmds:
            add(c)
        cmds = flat
        if not cmds:
            return ["Skip"]
        out = cmds[-1]
        for c in reversed(cmds[:-1]):
            out = ["Seq", c, out]
        return out

    def callee_name(self, call):
        return dotted(call.func)

    def is_file_call(self, env, call):
        f = call.func
        if is_open_call(call):
            return True
        nm = self.callee_name(call)
        if nm in FILE_FUNCS or nm.split(".")[-1] in {x.split(".")[-1] for x in FILE_FUNCS if "." not in x}:
            return True
        if root_name(f) == "tables":
            return True
        mentioned = names_in(call)
        if mentioned & env.tainted:
            return True
        return False

    # ------------------------------------------------------------------ expressions
    def calls_of(self, env, stmt, expr, skip=None):
        """fault points for every call inside expr, in evaluation order (arguments before the call)"""
        out = []
        if expr is None:
            return out

        def visit(n):
            if isinstance(n, ast.Call):
                visit(n.func)
                for a in n.args:
                    visit(a)
                for k in n.keywords:
                    visit(k.value)
                if n is not skip:
                    out.extend(self.call_cmd(env, stmt, n))
            elif isinstance(n, ast.AST):
                for c in ast.iter_child_nodes(n):
                    visit(c)

        visit(expr)
        return out

    def resolve_same_class(self, env, call):
        """cls.X(..) / self.X(..) / cls._C__x(..) -> FunctionDef in the same class"""
        f = call.func
        if isinstance(f, ast.Attribute) and isinstance(f.value, ast.Name) and f.value.id in ("cls", "self") and env.cls:
            name = f.attr
            pref = "_%s__" % env.cls
            if name.startswith(pref):
                name = "__" + name[len(pref):]
            return module(env.rel).method(env.cls, name)
        return None

    def inlinable(self, fn):
        rets = [n for n in ast.walk(fn) if isinstance(n, ast.Return)]
        if not rets:
            return True
        return len(rets) == 1 and fn.body and fn.body[-1] is rets[0]

    def call_cmd(self, env, stmt, call):
        """a single call as a list of commands"""
        f = call.func
        # x.close()
        if isinstance(f, ast.Attribute) and f.attr == "close" and not call.args and isinstance(f.value, ast.Name):
            h = env.handle_alias.get(f.value.id, f.value.id)
            return [["Close", self.label(env, stmt, "Close", h), h]]
        if is_open_call(call):
            self.fail(stmt, "open call in a position other than `x = open(..)` / `with open(..) as x`")
        # same-class callee: inline, or summarise when recursive / early-returning
        fn = self.resolve_same_class(env, call)
        if fn is not None:
            key = (env.rel, env.cls, fn.name)
            direct = [a for a in list(call.args) + [k.value for k in call.keywords]
                      if isinstance(a, ast.Name) and (a.id in env.handle_alias or a.id in env.docs)]
            # a callee that is handed a file handle or the document itself is inlined (its opens / closes /
            # mutations matter); any other same-class callee is summarised after an effect check
            if direct and key not in self.stack and self.inlinable(fn):
                return [self.inline(env, stmt, call, fn)]
            if direct:
                self.fail(stmt, "callee %s receives a handle/document but cannot be inlined (recursive or early return)" % fn.name)
            defs = [(env.rel, env.cls, fn)]
            eff = effects_of_defs(defs, self_is_doc=False, seen=set())
            eff = {e for e in eff if not e.startswith("mutates") and not e.startswith("stores")}
            lab = self.label(env, stmt, "Op", fn.name)
            if eff:
                self.notes.append("callee %s: %s" % (fn.name, "; ".join(sorted(eff))))
                return [["Mut", "callee %s: %s" % (fn.name, sorted(eff)[0])], ["Op", lab, fn.name]]
            return [["Op", lab, fn.name]]
        # document methods (exportHdf5 / export) on (part of) the document
        if isinstance(f, ast.Attribute) and f.attr in DOC_METHODS and (root_name(f.value) in env.docs):
            defs = method_index().get(f.attr, [])
            if not defs:
                self.fail(stmt, "no definition of %s found" % f.attr)
            eff = effects_of_defs(defs, self_is_doc=True, seen=set())
            lab = self.label(env, stmt, "Op", f.attr)
            if eff:
                self.notes.append("callee %s: %s" % (f.attr, "; ".join(sorted(eff))))
                return [["Mut", "callee %s: %s" % (f.attr, sorted(eff)[0])], ["Op", lab, f.attr]]
            return [["Op", lab, f.attr]]
        # mutating method on (part of) the document: handled at statement level (restore idiom); here = mutation
        if isinstance(f, ast.Attribute) and f.attr in MUTATORS and root_name(f.value) in env.docs \
                and isinstance(f.value, (ast.Attribute, ast.Subscript)):
            return [["Mut", dotted(f.value)]]
        nm = self.callee_name(call)
        # module-level function of the same module (e.g. _read_neuroml2): summarised after an effect check
        if isinstance(f, ast.Name) and f.id in module(env.rel).funcs and f.id not in [e[3] for e in ENTRIES if e[2] is None]:
            eff = effects_of_defs([(env.rel, None, module(env.rel).funcs[f.id])], self_is_doc=False, seen=set())
            if eff:
                self.notes.append("callee %s: %s" % (f.id, "; ".join(sorted(eff))))
                return [["Mut", "callee %s: %s" % (f.id, sorted(eff)[0])], ["Op", self.label(env, stmt, "Op", nm), nm]]
        if self.is_file_call(env, call):
            return [["Op", self.label(env, stmt, "Op", nm), nm]]
        return [["MayRaise", self.label(env, stmt, "MayRaise", nm), "Exception"]]

    def inline(self, env, stmt, call, fn):
        params = [a.arg for a in fn.args.args]
        if params and params[0] in ("cls", "self"):
            params = params[1:]
        if fn.args.vararg or fn.args.kwarg:
            self.fail(stmt, "callee %s has *args/**kwargs" % fn.name)
        binding = {}
        for p, a in zip(params, call.args):
            binding[p] = a
        for k in call.keywords:
            if k.arg is None:
                self.fail(stmt, "**kwargs call of %s" % fn.name)
            binding[k.arg] = k.value
        new = Env(env.rel, env.cls, fn)
        for p, a in binding.items():
            ns = names_in(a)
            if isinstance(a, ast.Name) and a.id in env.handle_alias:
                new.handle_alias[p] = env.handle_alias[a.id]
            if ns & env.tainted:
                new.tainted.add(p)
            if ns & env.docs:
                new.docs.add(p)
        self.stack.append((env.rel, env.cls, fn.name))
        if [env.rel, fn.name, fn.lineno, fn.end_lineno] not in self.functions:
            self.functions.append([env.rel, fn.name, fn.lineno, fn.end_lineno])
        body = list(fn.body)
        tail = []
        if body and isinstance(body[-1], ast.Return):
            tail = self.calls_of(new, body[-1], body[-1].value)
            body = body[:-1]
        c = self.seq([self.block(new, body)] + tail)
        self.stack.pop()
        return c

    # ------------------------------------------------------------------ statements
    def doc_target(self, env, t):
        """text of a store target that lives in the caller's document, else None"""
        if isinstance(t, (ast.Attribute, ast.Subscript)) and root_name(t) in env.docs:
            if isinstance(t, ast.Subscript):
                return dotted(t.value)
            return dotted(t)
        return None

    def restore_source(self, env, value):
        """`saved`, `list(saved)`, `saved[:]` where saved is a local copy of a document attribute -> that attribute"""
        v = value
        if isinstance(v, ast.Call) and isinstance(v.func, ast.Name) and v.func.id in ("list", "dict", "tuple") and len(v.args) == 1:
            v = v.args[0]
        if isinstance(v, ast.Subscript) and isinstance(v.slice, ast.Slice):
            v = v.value
        if isinstance(v, ast.Name) and v.id in env.saved:
            return env.saved[v.id]
        return None

    def note_saved(self, env, stmt):
        """track  saved = P.a / list(P.a) / []  and  for n in P.a: saved.append(n)"""
        if isinstance(stmt, ast.Assign) and len(stmt.targets) == 1 and isinstance(stmt.targets[0], ast.Name):
            nm = stmt.targets[0].id
            v = stmt.value
            if isinstance(v, ast.Call) and isinstance(v.func, ast.Name) and v.func.id in ("list", "dict", "tuple") and len(v.args) == 1:
                v = v.args[0]
            if isinstance(v, ast.Subscript) and isinstance(v.slice, ast.Slice):
                v = v.value
            if isinstance(v, ast.Attribute) and root_name(v) in env.docs and dotted(v) not in env.mutated:
                env.saved[nm] = dotted(v)
            elif isinstance(v, (ast.List, ast.Dict)) and not (v.elts if isinstance(v, ast.List) else v.keys):
                env.saved.setdefault(nm, None)  # empty so far; becomes a copy if filled from one attribute only
            else:
                env.saved.pop(nm, None)
        if isinstance(stmt, ast.For) and len(stmt.body) == 1 and isinstance(stmt.body[0], ast.Expr):
            c = stmt.body[0].value
            if isinstance(c, ast.Call) and isinstance(c.func, ast.Attribute) and c.func.attr == "append" \
                    and isinstance(c.func.value, ast.Name) and c.func.value.id in env.saved \
                    and isinstance(stmt.iter, ast.Attribute) and root_name(stmt.iter) in env.docs \
                    and isinstance(stmt.target, ast.Name) and len(c.args) == 1 and isinstance(c.args[0], ast.Name) \
                    and c.args[0].id == stmt.target.id and dotted(stmt.iter) not in env.mutated:
                nm = c.func.value.id
                if env.saved[nm] in (None, dotted(stmt.iter)):
                    env.saved[nm] = dotted(stmt.iter)

    def restore_loop(self, env, stmt):
        """for n in saved: P.a.append(n)  -> attribute text"""
        if isinstance(stmt, ast.For) and len(stmt.body) == 1 and isinstance(stmt.body[0], ast.Expr) and not stmt.orelse:
            c = stmt.body[0].value
            if isinstance(c, ast.Call) and isinstance(c.func, ast.Attribute) and c.func.attr == "append" \
                    and isinstance(stmt.iter, ast.Name) and env.saved.get(stmt.iter.id) \
                    and dotted(c.func.value) == env.saved[stmt.iter.id] and dotted(c.func.value) in env.mutated \
                    and isinstance(stmt.target, ast.Name) and len(c.args) == 1 and isinstance(c.args[0], ast.Name) \
                    and c.args[0].id == stmt.target.id:
                return dotted(c.func.value)
        return None

    def block(self, env, stmts):
        return self.seq([self.stmt(env, s) for s in stmts])

    def propagate(self, env, targets, value):
        """taint / document derivation through an assignment"""
        ns = names_in(value) if value is not None else set()
        for t in targets:
            for n in ast.walk(t):
                if isinstance(n, ast.Name) and isinstance(n.ctx, ast.Store):
                    if ns & env.tainted:
                        env.tainted.add(n.id)
                    if ns & env.docs:
                        env.docs.add(n.id)

    def stmt(self, env, s):
        if isinstance(s, ast.Expr) and isinstance(s.value, ast.Constant):
            return ["Skip"]  # docstring
        if isinstance(s, ast.Pass):
            return ["Skip"]
        if isinstance(s, (ast.Import, ast.ImportFrom)):
            return ["MayRaise", self.label(env, s, "MayRaise", "import"), "ImportError"]
        if isinstance(s, (ast.Assign, ast.AnnAssign, ast.AugAssign)):
            targets = s.targets if isinstance(s, ast.Assign) else [s.target]
            value = s.value
            self.note_saved(env, s)
            # acquisition
            if isinstance(value, ast.Call) and is_open_call(value):
                if not (len(targets) == 1 and isinstance(targets[0], ast.Name)) or isinstance(s, ast.AugAssign):
                    self.fail(s, "open result not bound to a plain name")
                h = targets[0].id
                env.handle_alias[h] = h
                env.tainted.add(h)
                pre = self.calls_of(env, s, value, skip=value)
                return self.seq(pre + [["Open", self.label(env, s, "Open", dotted(value.func)), h]])
            pre = self.calls_of(env, s, value)
            for t in targets:
                if not isinstance(t, ast.Name):
                    pre += self.calls_of(env, s, t)
            self.propagate(env, targets, value)
            # alias of a handle:  fileh = file
            if isinstance(value, ast.Name) and len(targets) == 1 and isinstance(targets[0], ast.Name):
                if value.id in env.handle_alias:
                    env.handle_alias[targets[0].id] = env.handle_alias[value.id]
            out = list(pre)
            for t in targets:
                d = self.doc_target(env, t)
                if d is not None:
                    src = self.restore_source(env, value) if isinstance(s, ast.Assign) else None
                    if src == d and d in env.mutated:
                        out.append(["Restore", d])
                    else:
                        env.mutated.add(d)
                        out.append(["Mut", d])
            return self.seq(out)
        if isinstance(s, ast.Expr):
            v = s.value
            # P.a.extend(saved)  as a restore
            if isinstance(v, ast.Call) and isinstance(v.func, ast.Attribute) and v.func.attr == "extend" and len(v.args) == 1:
                d = dotted(v.func.value)
                if root_name(v.func.value) in env.docs and self.restore_source(env, v.args[0]) == d and d in env.mutated:
                    return ["Restore", d]
            return self.seq(self.calls_of(env, s, v))
        if isinstance(s, ast.If):
            pre = self.calls_of(env, s, s.test)
            g = dotted(s.test)
            if g not in self.guards:
                self.guards.append(g)
            # both branches see the same environment; effects on the environment are merged
            a = self.block(env, s.body)
            b = self.block(env, s.orelse)
            return self.seq(pre + [["Guard", g, a, b]])
        if isinstance(s, (ast.For, ast.While)):
            if s.orelse:
                self.fail(s, "loop with else")
            for n in ast.walk(s):
                if isinstance(n, (ast.Break, ast.Continue)):
                    self.fail(n, "break/continue")
            if isinstance(s, ast.For):
                r = self.restore_loop(env, s)
                if r is not None:
                    return ["Restore", r]
                self.note_saved(env, s)
                pre = self.calls_of(env, s, s.iter)
                self.propagate(env, [s.target], s.iter)
                head = []
                if names_in(s.iter) & env.tainted:
                    head = [["Op", self.label(env, s, "Op", "iterate " + dotted(s.iter)), "iterate"]]
                body = self.seq(head + [self.block(env, s.body)])
                return self.seq(pre + [["Loop", body]])
            pre = self.calls_of(env, s, s.test)
            return self.seq(pre + [["Loop", self.seq([self.block(env, s.body)] + self.calls_of(env, s, s.test))]])
        if isinstance(s, ast.Try):
            if s.orelse:
                self.fail(s, "try with else")
            if len(s.handlers) > 1:
                self.fail(s, "more than one except clause")
            body = self.block(env, s.body)
            if s.handlers:
                h = s.handlers[0]
                if h.type is None:
                    exns = ["*"]
                else:
                    ts = h.type.elts if isinstance(h.type, ast.Tuple) else [h.type]
                    exns = []
                    for t in ts:
                        nm = dotted(t).split(".")[-1]
                        exns.append("*" if nm in ("Exception", "BaseException") else nm)
                self.handler_ctx = (h.name, exns[0] if len(exns) == 1 else "*")
                hb = self.block(env, h.body)
                self.handler_ctx = None
                body = ["TryExcept", body, exns, hb]
            if s.finalbody:
                body = ["TryFinally", body, self.block(env, s.finalbody)]
            return body
        if isinstance(s, ast.With):
            if len(s.items) != 1:
                self.fail(s, "with with several items")
            it = s.items[0]
            if not (isinstance(it.context_expr, ast.Call) and is_open_call(it.context_expr)
                    and isinstance(it.optional_vars, ast.Name)):
                self.fail(s, "with over something that is not `open(..) as name`")
            h = it.optional_vars.id
            env.handle_alias[h] = h
            env.tainted.add(h)
            pre = self.calls_of(env, s, it.context_expr, skip=it.context_expr)
            lab = self.label(env, s, "With", dotted(it.context_expr.func))
            return self.seq(pre + [["With", lab, h, self.block(env, s.body)]])
        if isinstance(s, ast.Return):
            return self.seq(self.calls_of(env, s, s.value) + [["Ret"]])
        if isinstance(s, ast.Raise):
            pre = self.calls_of(env, s, s.exc, skip=s.exc if isinstance(s.exc, ast.Call) else None)
            ctx = getattr(self, "handler_ctx", None)
            if s.exc is None:
                nm = ctx[1] if ctx else "*"
            elif isinstance(s.exc, ast.Call):
                pre = []
                for a in list(s.exc.args) + [k.value for k in s.exc.keywords]:
                    pre += self.calls_of(env, s, a)
                nm = dotted(s.exc.func).split(".")[-1]
            elif isinstance(s.exc, ast.Name) and ctx and s.exc.id == ctx[0]:
                nm = ctx[1]
            else:
                nm = dotted(s.exc).split(".")[-1]
            if nm in ("Exception", "BaseException"):
                nm = "Exception"
            return self.seq(pre + [["Raise", nm]])
        if isinstance(s, ast.Assert):
            return self.seq(self.calls_of(env, s, s.test) + [["MayRaise", self.label(env, s, "MayRaise", "assert"), "AssertionError"]])
        self.fail(s, "statement %s not in the translated fragment" % type(s).__name__)

    # ------------------------------------------------------------------ entry
    def run(self):
        m = module(self.rel)
        fn = m.method(self.cls, self.func) if self.cls else m.funcs.get(self.func)
        if fn is None:
            raise Untranslatable("%s:%s:0:entry point not found" % (self.rel, self.name))
        env = Env(self.rel, self.cls, fn, docs=self.docparams)
        for p in self.docparams:
            if p not in [a.arg for a in fn.args.args]:
                raise Untranslatable("%s:%s:%d:document parameter %s not found" % (self.rel, self.name, fn.lineno, p))
        self.stack.append((self.rel, self.cls, fn.name))
        self.functions.append([self.rel, fn.name, fn.lineno, fn.end_lineno])
        cmd = self.block(env, fn.body)
        return {"name": self.name, "file": self.rel, "functions": self.functions, "cmd": cmd, "sites": self.sites,
                "guards": self.guards, "notes": self.notes}


def iter_state():
    """classes of the document model that are their own iterators: which fields an iteration stores, and which of
    them the leading statements of __iter__ reset to a constant"""
    rows = []
    import glob
    rels = sorted(set(os.path.relpath(f, REPO) for pat in ("neuroml/*.py", "neuroml/hdf5/*.py", "neuroml/nml/*.py")
                      for f in glob.glob(os.path.join(REPO, pat))))
    rels = [r for r in rels if not r.endswith("helper_methods.py") and "/test" not in r]
    for rel in rels:
        for cname, c in module(rel).classes.items():
            meths = {n.name: n for n in c.body if isinstance(n, ast.FunctionDef)}
            if "__next__" not in meths and "__iter__" not in meths:
                continue

            def stores(fn, skip=0):
                out = []
                for st in fn.body[skip:]:
                    for n in ast.walk(st):
                        if isinstance(n, ast.Attribute) and isinstance(n.ctx, (ast.Store, ast.Del)) and root_name(n) == "self":
                            while isinstance(n.value, ast.Attribute):
                                n = n.value
                            if n.attr not in out:
                                out.append(n.attr)
                        if isinstance(n, ast.Call) and isinstance(n.func, ast.Attribute) and n.func.attr in MUTATORS \
                                and root_name(n.func.value) == "self" and isinstance(n.func.value, ast.Attribute):
                            a = n.func.value
                            while isinstance(a.value, ast.Attribute):
                                a = a.value
                            if a.attr not in out:
                                out.append(a.attr)
                return out

            reset, lead = [], 0
            it = meths.get("__iter__")
            if it is not None:
                body = it.body
                if body and isinstance(body[0], ast.Expr) and isinstance(body[0].value, ast.Constant):
                    lead = 1  # docstring
                for st in body[lead:]:
                    if isinstance(st, ast.Assign) and len(st.targets) == 1 and isinstance(st.targets[0], ast.Attribute) \
                            and isinstance(st.targets[0].value, ast.Name) and st.targets[0].value.id == "self" \
                            and isinstance(st.value, ast.Constant):
                        reset.append(st.targets[0].attr)
                        lead += 1
                    else:
                        break
            mod = []
            for nm in ("__next__", "next"):
                if nm in meths:
                    mod += [f for f in stores(meths[nm]) if f not in mod]
            if it is not None:
                mod += [f for f in stores(it, lead) if f not in mod]
            rows.append({"cls": cname, "file": rel, "modified": mod, "reset": reset})
    return rows


PARSER_CTORS = {"ETCompatXMLParser", "XMLParser", "XMLPullParser", "HTMLParser", "HTMLPullParser", "iterparse"}
# keyword arguments that make libxml2 accept or silently repair input that is not a well-formed document
LAX_KEYWORDS = {"recover"}


def parser_table():
    """every construction of an XML parser in nml.py / loaders.py / utils.py: (function, constructor, lax flags)"""
    rows = []
    for rel in ("neuroml/nml/nml.py", "neuroml/loaders.py", "neuroml/utils.py"):
        m = module(rel)

        def scan(fn, qual):
            for n in ast.walk(fn):
                if isinstance(n, ast.Call) and isinstance(n.func, (ast.Attribute, ast.Name)):
                    nm = n.func.attr if isinstance(n.func, ast.Attribute) else n.func.id
                    if nm not in PARSER_CTORS:
                        continue
                    lax = []
                    if nm.startswith("HTML"):
                        lax.append("html parser")
                    for k in n.keywords:
                        if k.arg is None:
                            lax.append("**kwargs")
                        elif k.arg in LAX_KEYWORDS and not (isinstance(k.value, ast.Constant) and k.value.value in (False, None)):
                            lax.append("%s=%s" % (k.arg, dotted(k.value)))
                    if nm == "iterparse" and not any(k.arg == "recover" for k in n.keywords):
                        pass
                    rows.append({"file": rel, "func": qual, "line": n.lineno, "ctor": nm, "lax": lax})

        for fname, fn in m.funcs.items():
            scan(fn, fname)
        if rel != "neuroml/nml/nml.py":  # the 199 generated classes construct no parser; their methods are scanned through the module walk below
            for cname, c in m.classes.items():
                for n in c.body:
                    if isinstance(n, ast.FunctionDef):
                        scan(n, cname + "." + n.name)
        else:
            for cname, c in m.classes.items():
                for n in c.body:
                    if isinstance(n, ast.FunctionDef):
                        scan(n, cname + "." + n.name)
    return rows


def refusal_table():
    """every `raise` in an exportHdf5 method (the constructs the HDF5 layout cannot hold), with the tests / loops
    that guard it: (class, [guards outermost first], first string of the message, line)"""
    rows = []
    for rel, cname, fn in method_index().get("exportHdf5", []):

        def visit(stmts, guards):
            for st in stmts:
                if isinstance(st, ast.Raise):
                    msg = ""
                    if st.exc is not None:
                        for n in ast.walk(st.exc):
                            if isinstance(n, ast.Constant) and isinstance(n.value, str):
                                msg = n.value
                                break
                    rows.append({"cls": cname, "file": rel, "guards": list(guards), "message": msg, "line": st.lineno})
                elif isinstance(st, ast.If):
                    g = dotted(st.test)
                    visit(st.body, guards + [g])
                    visit(st.orelse, guards + ["not (%s)" % g])
                elif isinstance(st, (ast.For, ast.While)):
                    g = "for %s in %s" % (dotted(st.target), dotted(st.iter)) if isinstance(st, ast.For) else "while %s" % dotted(st.test)
                    visit(st.body, guards + [g])
                    visit(st.orelse, guards)
                elif isinstance(st, ast.Try):
                    visit(st.body, guards + ["try"])
                    for h in st.handlers:
                        visit(h.body, guards + ["except %s" % (dotted(h.type) if h.type else "")])
                    visit(st.orelse, guards)
                    visit(st.finalbody, guards)
                elif isinstance(st, ast.With):
                    visit(st.body, guards)
                elif isinstance(st, (ast.FunctionDef, ast.ClassDef)):
                    raise Untranslatable("%s:%s.exportHdf5:%d:nested definition" % (rel, cname, st.lineno))

        visit(fn.body, [])
    rows.sort(key=lambda r: (r["file"], r["cls"], r["line"]))
    return rows


H5_NODE_CREATORS = {"create_array", "create_carray", "create_earray", "create_vlarray", "create_table", "create_group"}


def embed_table():
    """where NeuroMLHdf5Writer.write stores the embedded top-level XML, and where NeuroMLHdf5Parser.parse reads the
    XML it hands to read_neuroml2_string: rows (kind attr|node|unknown, name)"""
    wfn = module("neuroml/writers.py").method("NeuroMLHdf5Writer", "write")
    pfn = module("neuroml/hdf5/NeuroMLHdf5Parser.py").method("NeuroMLHdf5Parser", "parse")
    if wfn is None or pfn is None:
        raise Untranslatable("neuroml/writers.py:embed_table:0:writer or parser entry point not found")
    # ---- writer: names that hold (something derived from) the serialised XML  sf.getvalue()
    tainted = set()
    changed = True
    while changed:
        changed = False
        for n in ast.walk(wfn):
            if isinstance(n, ast.Assign):
                src = any(isinstance(c, ast.Call) and isinstance(c.func, ast.Attribute) and c.func.attr == "getvalue"
                          for c in ast.walk(n.value)) or (names_in(n.value) & tainted)
                if src:
                    for t in n.targets:
                        if isinstance(t, ast.Name) and t.id not in tainted:
                            tainted.add(t.id)
                            changed = True
    stores = []

    def uses(e):
        return bool(names_in(e) & tainted) or any(isinstance(c, ast.Call) and isinstance(c.func, ast.Attribute)
                                                  and c.func.attr == "getvalue" for c in ast.walk(e))

    for n in ast.walk(wfn):
        if isinstance(n, ast.Call) and isinstance(n.func, ast.Attribute):
            args = list(n.args) + [k.value for k in n.keywords]
            if not any(uses(a) for a in args):
                continue
            if n.func.attr in ("_f_setattr", "_v_attrs.__setattr__", "set_node_attr") and n.args:
                nm = next((a.value for a in n.args if isinstance(a, ast.Constant) and isinstance(a.value, str)), None)
                stores.append(["attr" if nm else "unknown", nm or dotted(n.func), n.lineno])
            elif n.func.attr in H5_NODE_CREATORS:
                nm = next((a.value for a in n.args[1:] if isinstance(a, ast.Constant) and isinstance(a.value, str)), None)
                stores.append(["node" if nm else "unknown", nm or dotted(n.func), n.lineno])
            elif root_name(n.func) in tainted or n.func.attr in ("encode", "getvalue", "write", "format", "join", "strip"):
                continue  # a method of the string itself (its result is tainted through the assignment rule)
            elif isinstance(n.func.value, ast.Name) and n.func.value.id in ("sf",):
                continue
            else:
                stores.append(["unknown", dotted(n.func), n.lineno])
        elif isinstance(n, ast.Assign) and uses(n.value):
            for t in n.targets:
                if isinstance(t, ast.Attribute) and "_v_attrs" in dotted(t):
                    stores.append(["attr", t.attr, n.lineno])
                elif isinstance(t, ast.Subscript) and "_v_attrs" in dotted(t.value):
                    k = t.slice
                    stores.append(["attr", k.value if isinstance(k, ast.Constant) else dotted(k), n.lineno])
                elif not isinstance(t, ast.Name):
                    stores.append(["unknown", dotted(t), n.lineno])
    # ---- parser: what is handed to read_neuroml2_string
    src_of = {}
    for n in ast.walk(pfn):
        if isinstance(n, ast.Assign) and len(n.targets) == 1 and isinstance(n.targets[0], ast.Name):
            v = n.value
            row = None
            if isinstance(v, ast.Call) and dotted(v.func).split(".")[-1] == "get_str_attribute_group" and len(v.args) == 2 \
                    and isinstance(v.args[1], ast.Constant):
                row = ["attr", v.args[1].value, n.lineno]
            elif isinstance(v, ast.Attribute) and "_v_attrs" in dotted(v):
                row = ["attr", v.attr, n.lineno]
            elif isinstance(v, ast.Call) and isinstance(v.func, ast.Attribute) and v.func.attr in ("read", "get_node", "decode", "tobytes"):
                cs = [c.value for c in ast.walk(v) if isinstance(c, ast.Constant) and isinstance(c.value, str)]
                attrs = [a.attr for a in ast.walk(v) if isinstance(a, ast.Attribute)]
                row = ["node", cs[0].strip("/").split("/")[-1] if cs else (attrs[1] if len(attrs) > 1 else dotted(v)), n.lineno]
            if row:
                src_of.setdefault(n.targets[0].id, []).append(row)
    reads = []
    for n in ast.walk(pfn):
        if isinstance(n, ast.Call) and dotted(n.func).split(".")[-1] == "read_neuroml2_string" and n.args:
            a = n.args[0]
            if isinstance(a, ast.Name) and a.id in src_of:
                reads += [r for r in src_of[a.id] if r not in reads]
            else:
                reads.append(["unknown", dotted(a), n.lineno])
    return {"stores": stores, "reads": reads}


def main():
    out = {"entries": [], "untranslatable": [], "expected": [e[0] for e in ENTRIES]}
    try:
        out["embed"] = embed_table()
    except Untranslatable as u:
        out["embed"] = {"stores": [], "reads": []}
        out["untranslatable"].append(str(u))
    except (OSError, SyntaxError) as x:
        out["embed"] = {"stores": [], "reads": []}
        out["untranslatable"].append("neuroml/writers.py:embed_table:0:%s" % x)
    try:
        out["refusals"] = refusal_table()
    except Untranslatable as u:
        out["refusals"] = []
        out["untranslatable"].append(str(u))
    except (OSError, SyntaxError) as x:
        out["refusals"] = []
        out["untranslatable"].append("neuroml/nml/nml.py:refusal_table:0:%s" % x)
    try:
        out["parsers"] = parser_table()
    except (OSError, SyntaxError) as x:
        out["parsers"] = []
        out["untranslatable"].append("neuroml/nml/nml.py:parser_table:0:%s" % x)
    try:
        out["iter_state"] = iter_state()
    except (OSError, SyntaxError) as x:
        out["iter_state"] = []
        out["untranslatable"].append("neuroml/hdf5/NetworkContainer.py:iter_state:0:%s" % x)
    for e in ENTRIES:
        try:
            out["entries"].append(Translator(e).run())
        except Untranslatable as u:
            out["untranslatable"].append(str(u))
        except (OSError, SyntaxError) as x:
            out["untranslatable"].append("%s:%s:0:%s" % (e[1], e[0], x))
    print(json.dumps(out))


if __name__ == "__main__":
    main()
