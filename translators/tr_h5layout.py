"""tr_h5layout: probing translator for C05 (HDF5 write -> load).

Executes, from the tree under test (first on PYTHONPATH):
  * every exportHdf5 (Network, Population, Projection, ElectricalProjection, ContinuousProjection, InputList) and
    NeuroMLHdf5Writer.write against a RECORDING mock h5file / group / array, with one distinct sentinel value per
    (row, field), twice with different sentinels, for every combination of row variants (and, for chemical projections,
    with/without segment+fraction information)  ->  writer tables
        (kind, flags) |-> column_N names, and per variant the source of every column  (SField f | SConst c)
    and the group attributes written (attribute name |-> object field | literal | row count);
  * NeuroMLHdf5Parser.start_group / parse_dataset / end_group against mock groups / datasets whose column_N
    attributes are permuted (each name once at column 0, once at a later column, once absent) with a recording
    handler  ->  reader tables   column name |-> handler argument, guard at column 0 / later, int() applied?, default;
    group attribute |-> handler argument; what an attribute holding None is read as;
  * the NetworkBuilder handlers with sentinel arguments in every context (sized / instance populations, unit /
    non-unit weight, weight+delay columns present or not)  ->  builder tables  ctx |-> variant built, field <- argument,
    arguments lost;
  * the writer on constructs the format cannot hold  ->  (construct, refused?).
Everything unrecognised aborts (fail closed): the check then records a broken translate obligation.
Output: one JSON document on the last stdout line: {"json": tables, "coq": text of Gen_C05.v}.
"""
import contextlib
import inspect
import io
import json
import logging
import sys
import warnings

import numpy

warnings.simplefilter("ignore")
logging.disable(logging.CRITICAL)

import neuroml  # noqa: E402  (the tree under test)
import neuroml.loaders  # noqa: E402,F401
import neuroml.writers  # noqa: E402,F401  (as any user of the HDF5 writer has)
from c05_impl import cell_of, delay_ms, sem_conn, sem_econn, sem_input  # noqa: E402  harness-side projection

CONSTS = {0.0: "CZero", 1.0: "COne", 0.5: "CHalf", -1.0: "CMinusOne"}


class Abort(Exception):
    pass


# ------------------------------------------------------------------------------------------ recording mock (writer side)
class MNode(object):
    def __init__(self, name):
        self._v_name = name
        self.attrs = []
        self.children = []

    def _f_setattr(self, k, v):
        self.attrs.append((k, v))


class MArray(MNode):
    pass


class MFile(object):
    def __init__(self):
        self.root = MNode("/")
        self.closed = False

    def create_group(self, parent, name, title=None, **kw):
        if parent == "/":
            parent = self.root
        g = MNode(name)
        parent.children.append(g)
        return g

    def create_carray(self, group, name, obj=None, title=None, **kw):
        a = MArray(name)
        a.obj = numpy.array(obj)
        if a.obj.dtype != numpy.float32:
            raise Abort("array of dtype %s written (float32 expected)" % a.obj.dtype)
        group.children.append(a)
        return a

    def close(self):
        self.closed = True


# ------------------------------------------------------------------------------------------ sentinels
class Sent(object):
    def __init__(self, base):
        self.n = base

    def i(self):
        self.n += 1
        return self.n


ROWFIELDS = {
    "projection": ["id", "pre_cell", "post_cell", "pre_seg", "post_seg", "pre_fract", "post_fract", "weight", "delay"],
    "electrical": ["id", "pre_cell", "post_cell", "pre_seg", "post_seg", "pre_fract", "post_fract", "weight"],
    "continuous": ["id", "pre_cell", "post_cell", "pre_seg", "post_seg", "pre_fract", "post_fract", "weight"],
    "inputlist": ["id", "cell", "seg", "fract", "weight"],
    "population": ["id", "x", "y", "z"],
}
VARIANTS = {
    "projection": ["Connection", "ConnectionWD"],
    "electrical": ["ElectricalConnection", "ElectricalConnectionInstance", "ElectricalConnectionInstanceW"],
    "continuous": ["ContinuousConnection", "ContinuousConnectionInstance", "ContinuousConnectionInstanceW"],
    "inputlist": ["Input", "InputW"],
    "population": ["Instance"],
}


def semrow(kind, obj):
    """field -> value of one row object, by the harness-side projection (never the library accessors)"""
    if kind == "projection":
        v = sem_conn(obj)
        return dict(zip(ROWFIELDS[kind], [int(obj.id)] + v))
    if kind in ("electrical", "continuous"):
        return dict(zip(ROWFIELDS[kind], sem_econn(obj)))
    if kind == "inputlist":
        return dict(zip(ROWFIELDS[kind], sem_input(obj)))
    if kind == "population":
        return {"id": int(obj.id), "x": float(obj.location.x), "y": float(obj.location.y), "z": float(obj.location.z)}
    raise Abort(kind)


def make_row(kind, variant, s, segfract=True, syn="syn", pre_comp="prec", post_comp="postc"):
    n = neuroml
    if kind == "projection":
        kw = dict(id=s.i(), pre_cell_id="../PRE[%d]" % s.i(), post_cell_id="../POST/%d/comp" % s.i())
        if segfract:
            kw.update(pre_segment_id=s.i(), post_segment_id=s.i(), pre_fraction_along=float(s.i()), post_fraction_along=float(s.i()))
        if variant == "Connection":
            return n.Connection(**kw)
        return n.ConnectionWD(weight=float(s.i()), delay="%dms" % s.i(), **kw)
    if kind in ("electrical", "continuous"):
        inst = not variant.endswith("Connection")
        kw = dict(id=s.i(), pre_cell=("../PRE/%d/comp" if inst else "%d") % s.i(), post_cell=("../POST[%d]" if inst else "%d") % s.i(),
                  pre_segment=s.i(), post_segment=s.i(), pre_fraction_along=float(s.i()), post_fraction_along=float(s.i()))
        if kind == "electrical":
            kw["synapse"] = syn
        else:
            kw["pre_component"] = pre_comp
            kw["post_component"] = post_comp
        if variant.endswith("W"):
            kw["weight"] = float(s.i())
        return getattr(n, variant)(**kw)
    if kind == "inputlist":
        kw = dict(id=s.i(), target="../POP/%d/comp" % s.i(), destination="synapses", segment_id=s.i(), fraction_along=float(s.i()))
        if variant == "InputW":
            kw["weight"] = float(s.i())
        return getattr(n, variant)(**kw)
    if kind == "population":
        o = n.Instance(id=s.i())
        o.location = n.Location(x=float(s.i()), y=float(s.i()), z=float(s.i()))
        return o
    raise Abort(kind)


LISTS = {
    "Connection": "connections", "ConnectionWD": "connection_wds",
    "ElectricalConnection": "electrical_connections", "ElectricalConnectionInstance": "electrical_connection_instances",
    "ElectricalConnectionInstanceW": "electrical_connection_instance_ws",
    "ContinuousConnection": "continuous_connections", "ContinuousConnectionInstance": "continuous_connection_instances",
    "ContinuousConnectionInstanceW": "continuous_connection_instance_ws",
    "Input": "input", "InputW": "input_ws", "Instance": "instances",
}


def make_container(kind, tag):
    n = neuroml
    if kind == "projection":
        return n.Projection(id="ID" + tag, presynaptic_population="PRE" + tag, postsynaptic_population="POST" + tag, synapse="SYN" + tag), \
            {"id": "ID" + tag, "pre": "PRE" + tag, "post": "POST" + tag, "synapse": "SYN" + tag}
    if kind == "electrical":
        return n.ElectricalProjection(id="ID" + tag, presynaptic_population="PRE" + tag, postsynaptic_population="POST" + tag), \
            {"id": "ID" + tag, "pre": "PRE" + tag, "post": "POST" + tag, "synapse": "SYN" + tag}
    if kind == "continuous":
        return n.ContinuousProjection(id="ID" + tag, presynaptic_population="PRE" + tag, postsynaptic_population="POST" + tag), \
            {"id": "ID" + tag, "pre": "PRE" + tag, "post": "POST" + tag, "pre_comp": "PREC" + tag, "post_comp": "POSTC" + tag}
    if kind == "inputlist":
        return n.InputList(id="ID" + tag, component="COMP" + tag, populations="POP" + tag), \
            {"id": "ID" + tag, "component": "COMP" + tag, "population": "POP" + tag}
    if kind == "population":
        p = n.Population(id="ID" + tag, component="COMP" + tag, type="populationList")
        p.properties.append(n.Property(tag="ptag" + tag, value="PVAL" + tag))
        return p, {"id": "ID" + tag, "component": "COMP" + tag}
    raise Abort(kind)


def export_once(kind, present, segfract, tag, base, nrows):
    """build one container with nrows rows of every present variant, export it on the mock, return
    (group attrs, names, array, [(variant, semrow)] in list-concatenation order, container string fields)"""
    s = Sent(base)
    cont, cfields = make_container(kind, tag)
    rows = []
    for v in VARIANTS[kind]:
        if v not in present:
            continue
        for _ in range(nrows):
            o = make_row(kind, v, s, segfract=segfract, syn=cfields.get("synapse", "syn"),
                         pre_comp=cfields.get("pre_comp", "prec"), post_comp=cfields.get("post_comp", "postc"))
            getattr(cont, LISTS[v]).append(o)
            rows.append((v, semrow(kind, o)))
    f = MFile()
    top = MNode("network")
    cont.exportHdf5(f, top)
    if len(top.children) != 1:
        raise Abort("%s: %d groups created" % (kind, len(top.children)))
    g = top.children[0]
    arrs = [c for c in g.children if isinstance(c, MArray)]
    if len(arrs) != 1:
        raise Abort("%s: %d arrays written" % (kind, len(arrs)))
    a = arrs[0]
    names = {}
    for k, v in a.attrs:
        if not k.startswith("column_"):
            raise Abort("array attribute %s" % k)
        j = int(k[len("column_"):])
        if j in names:
            raise Abort("column_%d named twice" % j)
        names[j] = str(v)
    return g, a, names, rows, cfields


def classify_cell(cellA, cellB, rowA, rowB):
    """source of one table cell, from two runs with different sentinels"""
    cand = [f for f in rowA if rowA[f] != rowB[f] and float(numpy.float32(rowA[f])) == cellA and float(numpy.float32(rowB[f])) == cellB]
    if len(cand) == 1:
        return ["SField", cand[0]]
    if len(cand) > 1:
        raise Abort("ambiguous cell source %s" % cand)
    if cellA == cellB and cellA in CONSTS:
        return ["SConst", CONSTS[cellA]]
    raise Abort("cell %r/%r is neither a field of its row nor a known constant" % (cellA, cellB))


def probe_writer_table(kind, present, segfract):
    gA, aA, namesA, rowsA, cfA = export_once(kind, present, segfract, "A", 100, 2)
    gB, aB, namesB, rowsB, cfB = export_once(kind, present, segfract, "B", 700, 3)
    if namesA != namesB or aA.obj.shape[1] != aB.obj.shape[1]:
        raise Abort("%s: layout depends on the values" % kind)
    ncols = aA.obj.shape[1]
    if aA.obj.shape[0] != len(rowsA) or aB.obj.shape[0] != len(rowsB):
        raise Abort("%s: row count differs from the number of list entries" % kind)
    variants = []
    order = []
    for v in VARIANTS[kind]:
        if v not in present:
            continue
        iA = [i for i, (vv, _) in enumerate(rowsA) if vv == v]
        iB = [i for i, (vv, _) in enumerate(rowsB) if vv == v]
        lay = None
        for ia, ib in zip(iA, iB):   # two row pairs: the layout must not depend on the row
            cols = [classify_cell(float(aA.obj[ia, j]), float(aB.obj[ib, j]), rowsA[ia][1], rowsB[ib][1]) for j in range(ncols)]
            if lay is not None and lay != cols:
                raise Abort("%s/%s: layout depends on the row" % (kind, v))
            lay = cols
        # third row of run B against first of run A as well
        cols = [classify_cell(float(aA.obj[iA[0], j]), float(aB.obj[iB[2], j]), rowsA[iA[0]][1], rowsB[iB[2]][1]) for j in range(ncols)]
        if cols != lay:
            raise Abort("%s/%s: layout depends on the row" % (kind, v))
        variants.append({"variant": v, "cols": lay})
        order.append(v)
    # group attributes
    gattrs = []
    for (k, va), (k2, vb) in zip(gA.attrs, gB.attrs):
        if k != k2 and not (k.startswith("property:") and k2.startswith("property:")):
            raise Abort("group attribute names depend on values: %s/%s" % (k, k2))
        if k.startswith("property:"):
            if k == "property:ptagA" and k2 == "property:ptagB" and va == "PVALA" and vb == "PVALB":
                gattrs.append(["property:", ["GProp"]])
                continue
            raise Abort("property attribute %s" % k)
        f = [x for x in cfA if cfA[x] == va and cfB[x] == vb]
        if len(f) == 1:
            gattrs.append([k, ["GField", f[0]]])
        elif isinstance(va, str) and va == vb:
            gattrs.append([k, ["GConst", va]])
        elif va == len(rowsA) and vb == len(rowsB):
            gattrs.append([k, ["GCount"]])
        else:
            raise Abort("%s: group attribute %s=%r/%r not understood" % (kind, k, va, vb))
    if len(gA.attrs) != len(gB.attrs):
        raise Abort("group attribute count depends on values")
    flags = sorted(present) + (["segfract"] if (kind == "projection" and segfract) else [])
    return {"kind": kind, "flags": flags, "ncols": ncols, "names": [namesA.get(j) for j in range(ncols)],
            "variants": variants, "order": order, "gattrs": gattrs, "group_name": gA._v_name.replace("IDA", "<id>"),
            "array_name": aA._v_name.replace("IDA", "<id>")}


def subsets(xs):
    out = []
    for m in range(1, 2 ** len(xs)):
        out.append([x for i, x in enumerate(xs) if m >> i & 1])
    return out


def probe_writer():
    tabs = []
    for kind in ("population", "projection", "electrical", "continuous", "inputlist"):
        for present in subsets(VARIANTS[kind]):
            for segfract in ((False, True) if kind == "projection" else (True,)):
                tabs.append(probe_writer_table(kind, present, segfract))
    return tabs


def probe_sized_population():
    out = []
    for tag, size in (("A", 5), ("B", 9)):
        p = neuroml.Population(id="ID" + tag, component="COMP" + tag, size=size)
        f = MFile()
        top = MNode("network")
        p.exportHdf5(f, top)
        g = top.children[0]
        if g.children:
            raise Abort("sized population wrote an array")
        out.append((g, {"id": "ID" + tag, "component": "COMP" + tag, "size": size}))
    (gA, cA), (gB, cB) = out
    res = []
    for (k, va), (k2, vb) in zip(gA.attrs, gB.attrs):
        f = [x for x in cA if cA[x] == va and cB[x] == vb]
        if k != k2 or len(f) != 1:
            raise Abort("sized population attribute %s" % k)
        res.append([k, ["GField", f[0]]])
    return res


def probe_network_and_doc():
    """attributes of the network group and of the root group (NeuroMLHdf5Writer.write on a patched tables.open_file)"""
    import tables
    res = {}
    runs = []
    for tag in ("A", "B"):
        doc = neuroml.NeuroMLDocument(id="DOC" + tag, notes="DNOTES" + tag)
        net = neuroml.Network(id="NET" + tag, notes="NNOTES" + tag, temperature="TEMP" + tag)
        doc.networks.append(net)
        mf = MFile()
        orig = tables.open_file
        tables.open_file = lambda *a, **k: mf
        try:
            from neuroml.writers import NeuroMLHdf5Writer
            with contextlib.redirect_stdout(io.StringIO()):
                NeuroMLHdf5Writer.write(doc, "/nonexistent/never-created.h5")
        finally:
            tables.open_file = orig
        if not mf.closed:
            raise Abort("writer did not close the file")
        if len(doc.networks) != 1:
            raise Abort("writer did not restore the networks of the document")
        root = mf.root.children[0]
        runs.append((root, {"id": "DOC" + tag, "notes": "DNOTES" + tag}, root.children[0],
                     {"id": "NET" + tag, "notes": "NNOTES" + tag, "temperature": "TEMP" + tag}))
    for idx, key in ((0, "document"), (2, "network")):
        gA, cA, gB, cB = runs[0][idx], runs[0][idx + 1], runs[1][idx], runs[1][idx + 1]
        out = []
        for (k, va), (k2, vb) in zip(gA.attrs, gB.attrs):
            f = [x for x in cA if cA[x] == va and cB[x] == vb]
            if len(f) == 1:
                out.append([k, ["GField", f[0]]])
            elif k == "GENERATED_BY":
                out.append([k, ["GConst", "<version>"]])
            elif k == "neuroml_top_level":
                out.append([k, ["GXml"]])
            else:
                raise Abort("%s group attribute %s" % (key, k))
        res[key] = {"gattrs": out, "group_name": gA._v_name}
    # absent temperature / notes: what is written
    net = neuroml.Network(id="N")
    mf = MFile()
    net.exportHdf5(mf, MNode("neuroml"))
    res["network_absent"] = [[k, v] for k, v in []]
    return res


# ------------------------------------------------------------------------------------------ reader side mocks
class RAttrs(object):
    def __init__(self, d):
        object.__setattr__(self, "_d", dict(d))

    @property
    def _v_attrnames(self):
        return sorted(self._d)

    def __getattr__(self, n):
        try:
            return object.__getattribute__(self, "_d")[n]
        except KeyError:
            raise AttributeError(n)

    def __getitem__(self, n):
        return self._d[n]

    def __contains__(self, n):
        return n in self._d


def np_str(v):
    return numpy.str_(v) if isinstance(v, str) else v


class RDataset(object):
    _c_classid = "CARRAY"

    def __init__(self, name, arr, colnames):
        self._v_name = name
        self.name = name
        self.arr = numpy.array(arr, numpy.float32)
        self.shape = self.arr.shape
        d = {"CLASS": np_str("CARRAY"), "TITLE": np_str("t"), "VERSION": np_str("1.1")}
        for j, nme in colnames.items():
            d["column_%d" % j] = np_str(nme)
        self.attrs = RAttrs(d)

    def __getitem__(self, k):
        return self.arr[k]


class RGroup(object):
    _c_classid = "GROUP"

    def __init__(self, name, attrs, children=()):
        self._v_name = name
        d = {"CLASS": np_str("GROUP"), "TITLE": np_str(""), "VERSION": np_str("1.0")}
        d.update(dict((k, np_str(v)) for k, v in attrs.items()))
        self._v_attrs = RAttrs(d)
        self.children = list(children)

    def __iter__(self):
        return iter(sorted(self.children, key=lambda c: c._v_name))


class Stub(object):
    def __init__(self, id):
        self.id = id


class Extra(object):
    """stands for the document read from the embedded XML: every id resolves to a component of that id"""

    def get_by_id(self, id):
        return Stub(id)


class Recorder(object):
    """records handler calls under the parameter names of the real NetworkBuilder"""

    def __init__(self):
        from neuroml.hdf5.NetworkBuilder import NetworkBuilder
        self.calls = []
        self._nb = NetworkBuilder

    def _rec(self, name, a, k):
        sig = inspect.signature(getattr(self._nb, name))
        b = sig.bind(None, *a, **k)
        d = dict(b.arguments)
        d.pop("self", None)
        self.calls.append((name, d))

    def handle_document_start(self, *a, **k): self._rec("handle_document_start", a, k)
    def handle_network(self, *a, **k): self._rec("handle_network", a, k)
    def handle_population(self, population_id, component, size, component_obj=None, properties={}, notes=None):
        self.calls.append(("handle_population", dict(population_id=population_id, component=component, size=size, properties=dict(properties))))
    def handle_location(self, *a, **k): self._rec("handle_location", a, k)
    def handle_projection(self, *a, **k): self._rec("handle_projection", a, k)
    def finalise_projection(self, *a, **k): self._rec("finalise_projection", a, k)
    def handle_connection(self, *a, **k): self._rec("handle_connection", a, k)
    def handle_input_list(self, *a, **k): self._rec("handle_input_list", a, k)
    def handle_single_input(self, *a, **k): self._rec("handle_single_input", a, k)
    def finalise_input_source(self, *a, **k): self._rec("finalise_input_source", a, k)


RKINDS = {
    # kind -> (group name, group attrs, row handler, type attr)
    "population": ("population_GID", {"id": "GID", "component": "GCOMP", "size": 3, "type": "populationList"}, "handle_location"),
    "projection": ("projection_GID", {"id": "GID", "type": "projection", "presynapticPopulation": "GPRE",
                                      "postsynapticPopulation": "GPOST", "synapse": "GSYN"}, "handle_connection"),
    "electrical": ("projection_GID", {"id": "GID", "type": "electricalProjection", "presynapticPopulation": "GPRE",
                                      "postsynapticPopulation": "GPOST", "synapse": "GSYN"}, "handle_connection"),
    "continuous": ("projection_GID", {"id": "GID", "type": "continuousProjection", "presynapticPopulation": "GPRE",
                                      "postsynapticPopulation": "GPOST", "preComponent": "GPREC", "postComponent": "GPOSTC"},
                   "handle_connection"),
    "inputlist": ("inputList_GID", {"id": "GID", "component": "GCOMP", "population": "GPOP"}, "handle_single_input"),
}


def run_reader(kind, colnames, ncols, nrows=3, gattrs=None):
    """parse one mock group holding one mock dataset -> recorded calls.  cell (i, j) = 100*(i+1) + j + 0.25"""
    from neuroml.hdf5.NeuroMLHdf5Parser import NeuroMLHdf5Parser
    gname, ga, rowh = RKINDS[kind]
    ga = dict(ga if gattrs is None else gattrs)
    arr = [[100.0 * (i + 1) + j + 0.25 for j in range(ncols)] for i in range(nrows)]
    d = RDataset(ga.get("id", "GID"), arr, colnames)
    g = RGroup(gname, ga, [d])
    rec = Recorder()
    p = NeuroMLHdf5Parser(rec)
    p.nml_doc_extra_elements = Extra()
    with contextlib.redirect_stdout(io.StringIO()):
        p.parse_group(g)
    for att in ("currPopulation", "currentProjectionId", "currInputList"):
        if getattr(p, att) != "":
            raise Abort("parser state %s not reset after the group" % att)
    return rec.calls, arr


def cell_match(val, arr, i):
    """which column of row i produced val, and was int() applied"""
    hits = []
    for j, c in enumerate(arr[i]):
        c32 = float(numpy.float32(c))
        if isinstance(val, (int, numpy.integer)) and not isinstance(val, bool) and int(val) == int(c32):
            hits.append((j, True))
        elif not isinstance(val, (int, numpy.integer)) and float(val) == c32:
            hits.append((j, False))
    return hits


def describe_arg(vals, arr):
    """vals = the argument's value in each row call -> ("col", j, int?) | ("rowindex",) | ("const", c) | ("other",)"""
    per = [cell_match(v, arr, i) for i, v in enumerate(vals)]
    common = set(per[0])
    for h in per[1:]:
        common &= set(h)
    if len(common) == 1:
        j, isint = list(common)[0]
        return ("col", j, isint)
    if all(isinstance(v, (int, numpy.integer)) and int(v) == i for i, v in enumerate(vals)):
        return ("rowindex",)
    if all(float(v) == float(vals[0]) for v in vals) and float(vals[0]) in CONSTS:
        return ("const", CONSTS[float(vals[0])])
    return ("other",)


def probe_reader(kind, names):
    """names: the column names the writer uses for this kind (union over its tables)"""
    gname, ga, rowh = RKINDS[kind]
    n = len(names)
    rowargs = None
    entries = {}

    def rows_of(calls):
        return [c[1] for c in calls if c[0] == rowh]

    # (1) every name at a later column (shift by one so that nobody sits at column 0): who reads what
    shifted = dict((j + 1, nm) for j, nm in enumerate(names))
    calls, arr = run_reader(kind, shifted, n + 2)
    rws = rows_of(calls)
    if len(rws) != 3:
        raise Abort("%s: %d row calls for 3 rows" % (kind, len(rws)))
    rowargs = [a for a in rws[0]]
    fed = {}
    for a in rowargs:
        vals = [r[a] for r in rws]
        if any(isinstance(v, str) or v is None for v in vals):
            continue
        dsc = describe_arg(vals, arr)
        if dsc[0] == "col":
            if dsc[1] - 1 >= n or dsc[1] == 0:
                raise Abort("%s: argument %s read from unnamed column %d" % (kind, a, dsc[1]))
            fed[a] = (names[dsc[1] - 1], dsc[2])
    out = []
    for a in rowargs:
        vals = [r[a] for r in rws]
        if any(isinstance(v, str) or v is None for v in vals):
            continue
        if a not in fed:
            # never fed by a named column: constant / row index argument
            dsc = describe_arg(vals, arr)
            out.append({"arg": a, "name": "", "at0": False, "atpos": False, "int": False,
                        "dflt": ["DRowIndex"] if dsc[0] == "rowindex" else ["DConst", dsc[1]] if dsc[0] == "const" else ["DOther"]})
            continue
        nm, isint = fed[a]
        # (2) name at column 0
        order0 = [nm] + [x for x in names if x != nm]
        calls0, arr0 = run_reader(kind, dict(enumerate(order0)), n + 1)
        d0 = describe_arg([r[a] for r in rows_of(calls0)], arr0)
        at0 = d0[0] == "col" and d0[1] == 0
        # (3) name absent
        rest = [x for x in names if x != nm]
        try:
            callsN, arrN = run_reader(kind, dict((j + 1, x) for j, x in enumerate(rest)), n + 2)
            dN = describe_arg([r[a] for r in rows_of(callsN)], arrN)
            dflt = ["DRowIndex"] if dN[0] == "rowindex" else ["DConst", dN[1]] if dN[0] == "const" else ["DOther"]
        except Abort:
            raise
        except Exception:
            dflt = ["DFail"]
        if not at0:
            # what it falls back to when its column is column 0 must be its default
            exp = ("rowindex",) if dflt == ["DRowIndex"] else ("const", dflt[1]) if dflt[0] == "DConst" else None
            if exp is not None and d0 != exp:
                raise Abort("%s: argument %s with its column at 0 is neither the cell nor its default" % (kind, a))
        out.append({"arg": a, "name": nm, "at0": bool(at0), "atpos": True, "int": bool(isint), "dflt": dflt})
    # names nobody reads
    unread = [nm for nm in names if nm not in [f[0] for f in fed.values()]]
    # group attributes -> handler arguments (all calls of this group)
    gmap = []
    allcalls = calls
    for k, v in ga.items():
        if not isinstance(v, str) or not v.startswith("G"):
            continue
        for cname, cargs in allcalls:
            for a, val in cargs.items():
                if (isinstance(val, str) and val == v) or (isinstance(val, Stub) and val.id == v and a == "pre_synapse_obj"):
                    if [k, cname, a] not in gmap and cname in ("handle_population", "handle_projection", "handle_input_list"):
                        gmap.append([k, cname, a])
    if kind == "population":
        pc = [c for c in allcalls if c[0] == "handle_population"][0][1]
        gmap.append(["size", "handle_population", "size"] if int(pc["size"]) in (3, ga["size"]) else ["size", "?", "?"])
    return {"kind": kind, "row_handler": rowh, "args": out, "unread_names": unread, "gattrs": sorted(gmap)}


def probe_reader_misc():
    """sized population (size from the attribute), properties, None attributes, document/network groups"""
    from neuroml.hdf5.NeuroMLHdf5Parser import NeuroMLHdf5Parser
    res = {}
    rec = Recorder()
    p = NeuroMLHdf5Parser(rec)
    p.nml_doc_extra_elements = None
    pop = RGroup("population_GID", {"id": "GID", "component": "GCOMP", "size": numpy.int64(41), "property:ptag": "PVAL"})
    net = RGroup("network", {"id": "NID", "notes": "NNOTES", "temperature": "NTEMP"}, [pop])
    root = RGroup("neuroml", {"id": "DID", "notes": "DNOTES"}, [net])
    with contextlib.redirect_stdout(io.StringIO()):
        p.parse_group(root)
    c = dict((n, a) for n, a in rec.calls)
    res["document"] = sorted([k, "handle_document_start", a] for k, v in (("id", "DID"), ("notes", "DNOTES"))
                             for a, val in c["handle_document_start"].items() if val == v)
    res["network"] = sorted([k, "handle_network", a] for k, v in (("id", "NID"), ("notes", "NNOTES"), ("temperature", "NTEMP"))
                            for a, val in c["handle_network"].items() if val == v)
    hp = c["handle_population"]
    res["sized_population"] = sorted([k, "handle_population", a] for k, v in (("id", "GID"), ("component", "GCOMP"), ("size", 41))
                                     for a, val in hp.items() if not isinstance(val, dict) and val == v)
    res["property_prefix_ok"] = hp["properties"] == {"ptag": "PVAL"}
    # attributes that hold None (absent notes / temperature are written as None or not written)
    rec = Recorder()
    p = NeuroMLHdf5Parser(rec)
    p.nml_doc_extra_elements = None
    net = RGroup("network", {"id": "NID", "notes": None})
    root = RGroup("neuroml", {"id": "DID", "notes": None}, [net])
    with contextlib.redirect_stdout(io.StringIO()):
        p.parse_group(root)
    c = dict((n, a) for n, a in rec.calls)
    res["none_notes_read_as"] = [c["handle_document_start"]["notes"], c["handle_network"]["notes"]]
    res["absent_temperature_read_as"] = c["handle_network"]["temperature"]
    return res


# ------------------------------------------------------------------------------------------ builder probe
def fresh_builder():
    from neuroml.hdf5.NetworkBuilder import NetworkBuilder
    nb = NetworkBuilder()
    for d in ("populations", "projections", "projection_syns", "projection_types", "projection_syns_pre", "input_lists", "weightDelays"):
        setattr(nb, d, {})
    nb.handle_document_start("doc", None)
    nb.handle_network("net", None)
    nb.handle_population("PS", "compS", 5)
    nb.handle_population("PI", "compI", 2)
    nb.handle_location(0, "PI", "compI", 1.0, 2.0, 3.0)
    nb.handle_location(1, "PI", "compI", 4.0, 5.0, 6.0)
    return nb


ARGS_CONN = ["conn_id", "preCellId", "postCellId", "preSegId", "preFract", "postSegId", "postFract", "delay", "weight"]


def probe_builder():
    out = []
    ctxs = []
    for kind, typ in (("projection", "projection"), ("electrical", "electricalProjection"), ("continuous", "continuousProjection")):
        for pops in ("sized", "inst", "mixed"):
            for unitw in (True, False):
                for cols, zerod in (((False, True), (True, True), (True, False)) if kind == "projection" else ((False, True),)):
                    ctxs.append((kind, typ, pops, unitw, cols, zerod))
    for kind, typ, pops, unitw, cols, zerod in ctxs:
        pre, post = {"sized": ("PS", "PS"), "inst": ("PI", "PI"), "mixed": ("PS", "PI")}[pops]
        nb = fresh_builder()
        s = Sent(300)
        vals = dict((a, s.i()) for a in ARGS_CONN)
        vals["preFract"] = float(vals["preFract"])
        vals["postFract"] = float(vals["postFract"])
        vals["weight"] = 1 if unitw else float(vals["weight"])
        vals["delay"] = 0 if zerod else float(vals["delay"])
        entry = {"kind": kind, "pops": pops, "unitw": unitw, "cols": cols, "zerod": zerod}
        try:
            with contextlib.redirect_stdout(io.StringIO()):
                nb.handle_projection("PRJ", pre, post, "SYN", hasWeights=cols, hasDelays=cols, type=typ)
                nb.handle_connection("PRJ", vals["conn_id"], pre, post, "SYN", vals["preCellId"], vals["postCellId"],
                                     vals["preSegId"], vals["preFract"], vals["postSegId"], vals["postFract"],
                                     delay=vals["delay"], weight=vals["weight"])
        except Exception as e:  # noqa: BLE001
            entry.update(variant="RAISE", fields=[], lost=[], error=type(e).__name__)
            out.append(entry)
            continue
        proj = nb.projections["PRJ"]
        made = []
        for v in VARIANTS[kind]:
            for o in getattr(proj, LISTS[v]):
                made.append((v, o))
        if len(made) != 1:
            raise Abort("builder made %d connections for one call" % len(made))
        v, o = made[0]
        row = semrow(kind, o)
        fields, lost = [], []
        for a in ARGS_CONN:
            special = (a == "weight" and unitw) or (a == "delay" and zerod)
            hit = [f for f in row if float(row[f]) == float(vals[a])]
            if special:
                continue
            if not hit:
                lost.append(a)
            for h in hit:
                fields.append([h, a])
        entry.update(variant=v, fields=sorted(fields), lost=lost,
                     pathform=[("list" if "/" in str(getattr(o, x))[3:] else "index" if "[" in str(getattr(o, x)) else "bare")
                               for x in (("pre_cell_id", "post_cell_id") if kind == "projection" else ("pre_cell", "post_cell"))])
        out.append(entry)
    # inputs
    for pops in ("sized", "inst"):
        for unitw in (True, False):
            nb = fresh_builder()
            pop = {"sized": "PS", "inst": "PI"}[pops]
            vals = {"id": 401, "cellId": 402, "segId": 403, "fract": 404.0, "weight": 1 if unitw else 405.0}
            entry = {"kind": "inputlist", "pops": pops, "unitw": unitw, "cols": False, "zerod": True}
            try:
                nb.handle_input_list("IL", pop, "COMP", 1)
                nb.handle_single_input("IL", vals["id"], vals["cellId"], segId=vals["segId"], fract=vals["fract"], weight=vals["weight"])
            except Exception as e:  # noqa: BLE001
                entry.update(variant="RAISE", fields=[], lost=[], error=type(e).__name__)
                out.append(entry)
                continue
            il = nb.input_lists["IL"]
            made = [(v, o) for v in VARIANTS["inputlist"] for o in getattr(il, LISTS[v])]
            if len(made) != 1:
                raise Abort("builder made %d inputs for one call" % len(made))
            v, o = made[0]
            row = semrow("inputlist", o)
            fields, lost = [], []
            for a in vals:
                if a == "weight" and unitw:
                    continue
                hit = [f for f in row if float(row[f]) == float(vals[a])]
                if not hit:
                    lost.append(a)
                for h in hit:
                    fields.append([h, a])
            entry.update(variant=v, fields=sorted(fields), lost=lost, pathform=["list" if "/" in o.target[3:] else "index"])
            out.append(entry)
    # locations
    nb = fresh_builder()
    nb.handle_population("PX", "compX", 1)
    nb.handle_location(501, "PX", "compX", 502.0, 503.0, 504.0)
    o = nb.populations["PX"].instances[0]
    row = semrow("population", o)
    vals = {"id": 501, "x": 502.0, "y": 503.0, "z": 504.0}
    fields = []
    for a in vals:
        hit = [f for f in row if float(row[f]) == float(vals[a])]
        if len(hit) != 1:
            raise Abort("builder location: argument %s -> %s" % (a, hit))
        fields.append([hit[0], a])
    out.append({"kind": "population", "pops": "inst", "unitw": True, "cols": False, "zerod": True, "variant": "Instance",
                "fields": sorted(fields), "lost": [], "pathform": [],
                "type_set": nb.populations["PX"].type == "populationList"})
    return out


def probe_builder_precision():
    """float arguments with many significant digits / extreme magnitudes (as numpy.float32, the way the parser hands them
    over) must arrive in the built object to float32 precision -> [kind, argument, value, ok]"""
    f32 = numpy.float32
    vals = [f32(1.2345678e-5), f32(0.0123456789), f32(7.6543e-7), f32(123456.79), f32(3.0000002)]
    a2f = {"preFract": "pre_fract", "postFract": "post_fract", "delay": "delay", "weight": "weight", "fract": "fract",
           "x": "x", "y": "y", "z": "z"}

    def ok(field_val, v):
        a, b = float(field_val), float(v)
        return a == b or abs(a - b) <= 1.2e-7 * max(abs(a), abs(b))
    out = []
    for kind, typ, cols in (("projection", "projection", True), ("electrical", "electricalProjection", False),
                            ("continuous", "continuousProjection", False)):
        for k, v in enumerate(vals):
            nb = fresh_builder()
            args = {"preFract": vals[k], "postFract": vals[(k + 1) % 5], "delay": vals[(k + 2) % 5], "weight": vals[(k + 3) % 5]}
            try:
                with contextlib.redirect_stdout(io.StringIO()):
                    nb.handle_projection("PRJ", "PI", "PI", "SYN", hasWeights=cols, hasDelays=cols, type=typ)
                    nb.handle_connection("PRJ", 1, "PI", "PI", "SYN", 0, 1, 0, args["preFract"], 0, args["postFract"],
                                         delay=args["delay"] if kind == "projection" else 0, weight=args["weight"])
                proj = nb.projections["PRJ"]
                o = [o for vv in VARIANTS[kind] for o in getattr(proj, LISTS[vv])][0]
                row = semrow(kind, o)
                for a, val in args.items():
                    if a == "delay" and kind != "projection":
                        continue
                    out.append([kind, a, repr(float(val)), bool(ok(row[a2f[a]], val))])
            except Exception:  # noqa: BLE001
                out.append([kind, "*", "exception", False])
    for k, v in enumerate(vals):
        nb = fresh_builder()
        try:
            nb.handle_input_list("IL", "PI", "COMP", 1)
            nb.handle_single_input("IL", 1, 0, segId=0, fract=float(vals[k]), weight=float(vals[(k + 1) % 5]))
            il = nb.input_lists["IL"]
            o = (list(il.input) + list(il.input_ws))[0]
            row = semrow("inputlist", o)
            out.append(["inputlist", "fract", repr(float(vals[k])), bool(ok(row["fract"], vals[k]))])
            out.append(["inputlist", "weight", repr(float(vals[(k + 1) % 5])), bool(ok(row["weight"], vals[(k + 1) % 5]))])
        except Exception:  # noqa: BLE001
            out.append(["inputlist", "*", "exception", False])
        nb = fresh_builder()
        nb.handle_population("PX", "compX", 1)
        nb.handle_location(0, "PX", "compX", float(vals[k]), float(vals[(k + 1) % 5]), float(vals[(k + 2) % 5]))
        row = semrow("population", nb.populations["PX"].instances[0])
        for a, val in (("x", vals[k]), ("y", vals[(k + 1) % 5]), ("z", vals[(k + 2) % 5])):
            out.append(["population", a, repr(float(val)), bool(ok(row[a], val))])
    return out


def probe_merge():
    """neuroml.utils.add_all_to_document (the merge of the embedded XML into the loaded document): id-less entries are all
    merged, an entry whose id is already in the SAME list is not duplicated, an equal id in another list does not suppress it,
    order is kept -> [(name, ok)]"""
    from neuroml.utils import add_all_to_document
    n = neuroml
    src = n.NeuroMLDocument(id="S")
    for nm in ("ct1", "ct2", "ct3"):
        src.ComponentType.append(n.ComponentType(name=nm))
    src.properties.append(n.Property(tag="t1", value="v1"))
    src.properties.append(n.Property(tag="t2", value="v2"))
    for i in ("a", "b", "c"):
        src.iaf_cells.append(n.IafCell(id=i, leak_reversal="-50mV", thresh="-55mV", reset="-70mV", C="0.2nF", leak_conductance="0.01uS"))
    src.pulse_generators.append(n.PulseGenerator(id="a", delay="1ms", duration="2ms", amplitude="1nA"))
    src.sine_generators.append(n.SineGenerator(id="a", delay="1ms", phase="0", duration="2ms", amplitude="1nA", period="3ms"))
    tgt = n.NeuroMLDocument(id="T")
    tgt.iaf_cells.append(src.iaf_cells[1])     # what NetworkBuilder appended already (a referenced component)
    with contextlib.redirect_stdout(io.StringIO()):
        add_all_to_document(src, tgt)
    return [
        ["idless_component_types_all_merged", [c.name for c in tgt.ComponentType] == ["ct1", "ct2", "ct3"]],
        ["idless_properties_all_merged", [q.tag for q in tgt.properties] == ["t1", "t2"]],
        ["same_id_same_list_not_duplicated", sorted(c.id for c in tgt.iaf_cells) == ["a", "b", "c"]],
        ["order_of_the_others_kept", [c.id for c in tgt.iaf_cells if c.id != "b"] == ["a", "c"]],
        ["same_id_in_other_lists_merged", [c.id for c in tgt.pulse_generators] == ["a"] and [c.id for c in tgt.sine_generators] == ["a"]],
        ["source_untouched", len(src.ComponentType) == 3 and len(src.iaf_cells) == 3],
    ]


BOUNDARY = ["", " ", "0", "None", "False", "a:b", "a/b"]


def probe_strings():
    """boundary strings in the string slots of the format -> [(slot, ok)]:
    getstr:<v>      neuroml.hdf5.get_str_attribute_group hands back exactly the stored string (as str, numpy.str_, numpy.bytes_)
    writer:<slot>   the empty string is written as the empty string
    reader:<slot>   the parser hands the empty string to the handler
    builder:<slot>  the handler stores the empty string in the object"""
    from neuroml.hdf5 import get_str_attribute_group
    from neuroml.hdf5.NeuroMLHdf5Parser import NeuroMLHdf5Parser
    out = []
    for v in BOUNDARY:
        oks = []
        for wrap in (lambda x: x, numpy.str_, lambda x: numpy.bytes_(x.encode())):
            g = RGroup("g", {})
            g._v_attrs._d["a"] = wrap(v)
            try:
                got = get_str_attribute_group(g, "a")
                oks.append(isinstance(got, str) and got == v)
            except Exception:  # noqa: BLE001
                oks.append(False)
        out.append(["getstr:" + repr(v), all(oks)])
    # writer
    n = neuroml
    import tables
    doc = n.NeuroMLDocument(id="D", notes="")
    net = n.Network(id="N", notes="")
    doc.networks.append(net)
    pop = n.Population(id="P", component="C", size=1)
    pop.properties.append(n.Property(tag="flag", value=""))
    net.populations.append(pop)
    mf = MFile()
    orig = tables.open_file
    tables.open_file = lambda *a, **k: mf
    try:
        from neuroml.writers import NeuroMLHdf5Writer
        with contextlib.redirect_stdout(io.StringIO()):
            NeuroMLHdf5Writer.write(doc, "/nonexistent/never-created.h5")
    finally:
        tables.open_file = orig
    root = mf.root.children[0]
    netg = root.children[0]
    popg = netg.children[0]
    out.append(["writer:document.notes", dict(root.attrs).get("notes", None) == ""])
    out.append(["writer:network.notes", dict(netg.attrs).get("notes", None) == ""])
    out.append(["writer:population.property.value", dict(popg.attrs).get("property:flag", None) == ""])
    # reader
    rec = Recorder()
    p = NeuroMLHdf5Parser(rec)
    p.nml_doc_extra_elements = None
    rp = RGroup("population_GID", {"id": "GID", "component": "GCOMP", "size": numpy.int64(4), "property:flag": ""})
    rn = RGroup("network", {"id": "NID", "notes": ""}, [rp])
    rr = RGroup("neuroml", {"id": "DID", "notes": ""}, [rn])
    with contextlib.redirect_stdout(io.StringIO()):
        p.parse_group(rr)
    c = dict((nm, a) for nm, a in rec.calls)
    out.append(["reader:document.notes", c["handle_document_start"]["notes"] == ""])
    out.append(["reader:network.notes", c["handle_network"]["notes"] == ""])
    out.append(["reader:population.property.value", c["handle_population"]["properties"] == {"flag": ""}])
    # builder
    nb = fresh_builder()
    nb.handle_document_start("XD", "")
    nb.handle_network("XN", "")
    nb.handle_population("XP", "XC", 1, properties={"flag": ""})
    out.append(["builder:document.notes", nb.nml_doc.notes == ""])
    out.append(["builder:network.notes", nb.network.notes == ""])
    out.append(["builder:population.property.value", [(q.tag, q.value) for q in nb.populations["XP"].properties] == [("flag", "")]])
    # optimized loader: the parser itself builds the objects
    p2 = NeuroMLHdf5Parser(None, optimized=True)
    p2.nml_doc_extra_elements = None
    with contextlib.redirect_stdout(io.StringIO()):
        p2.parse_group(rr)
    d2 = p2.get_nml_doc()
    out.append(["optimized:population.property.value",
                [(q.tag, q.value) for q in d2.networks[0].populations[0].properties] == [("flag", "")]])
    return out


def probe_builder_strings():
    """handler string arguments -> object string fields (projection ids, populations, synapses, components)"""
    res = {}
    for kind, typ in (("projection", "projection"), ("electrical", "electricalProjection"), ("continuous", "continuousProjection")):
        nb = fresh_builder()
        with contextlib.redirect_stdout(io.StringIO()):
            nb.handle_projection("XID", "PI", "PI", "XSYN", hasWeights=False, hasDelays=False, type=typ)
            nb.handle_connection("XID", 0, "PI", "PI", "XSYN", 0, 1, 0, 0.5, 0, 0.5, delay=0, weight=1)
        p = nb.projections["XID"]
        o = [o for v in VARIANTS[kind] for o in getattr(p, LISTS[v])][0]
        m = {"id": p.id == "XID", "pre": p.presynaptic_population == "PI", "post": p.postsynaptic_population == "PI"}
        if kind == "projection":
            m["synapse"] = p.synapse == "XSYN"
        elif kind == "electrical":
            m["synapse"] = o.synapse == "XSYN"
        else:
            m["post_comp"] = o.post_component == "XSYN"
            m["pre_comp_is_silent_when_unknown"] = o.pre_component == "silentSyn_XID"
            nb2 = fresh_builder()
            with contextlib.redirect_stdout(io.StringIO()):
                nb2.handle_projection("XID", "PI", "PI", "XSYN", hasWeights=False, hasDelays=False, type=typ,
                                      pre_synapse_obj=neuroml.SilentSynapse(id="XPRE"))
                nb2.handle_connection("XID", 0, "PI", "PI", "XSYN", 0, 1, 0, 0.5, 0, 0.5, delay=0, weight=1)
            m["pre_comp"] = nb2.projections["XID"].continuous_connection_instances[0].pre_component == "XPRE"
        res[kind] = m
    nb = fresh_builder()
    nb.handle_input_list("XID", "PI", "XCOMP", 1)
    il = nb.input_lists["XID"]
    res["inputlist"] = {"id": il.id == "XID", "population": il.populations == "PI", "component": il.component == "XCOMP"}
    nb = fresh_builder()
    nb.handle_population("XID", "XCOMP", 7, properties={"t": "v"})
    p = nb.populations["XID"]
    res["population"] = {"id": p.id == "XID", "component": p.component == "XCOMP", "size": p.size == 7,
                         "props": [(q.tag, q.value) for q in p.properties] == [("t", "v")]}
    nb = fresh_builder()
    nb.handle_document_start("XD", "XDN")
    nb.handle_network("XN", "XNN", temperature="XT")
    res["document"] = {"id": nb.nml_doc.id == "XD", "notes": nb.nml_doc.notes == "XDN"}
    res["network"] = {"id": nb.network.id == "XN", "notes": nb.network.notes == "XNN", "temperature": nb.network.temperature == "XT"}
    return res


# ------------------------------------------------------------------------------------------ refusals
def probe_refusals():
    n = neuroml
    out = []

    def attempt(name, build):
        net = n.Network(id="N")
        obj = build(net)
        f = MFile()
        try:
            with contextlib.redirect_stdout(io.StringIO()):
                (obj or net).exportHdf5(f, MNode("neuroml"))
            out.append([name, False])
        except Exception:  # noqa: BLE001
            out.append([name, True])

    attempt("synaptic_connections", lambda net: net.synaptic_connections.append(n.SynapticConnection(from_="a[0]", to="a[1]", synapse="s")))
    attempt("explicit_inputs", lambda net: net.explicit_inputs.append(n.ExplicitInput(target="a[0]", input="i")))
    attempt("spaces", lambda net: net.spaces.append(n.Space(id="s")))
    attempt("regions", lambda net: net.regions.append(n.Region(id="r", spaces="s")))
    attempt("cell_sets", lambda net: net.cell_sets.append(n.CellSet(id="c", select="x")))
    attempt("extracellular_properties", lambda net: net.extracellular_properties.append(n.ExtracellularPropertiesLocal(id="e")))

    def lay(net):
        p = n.Population(id="p", component="c", size=3)
        p.layout = n.Layout(spaces="s")
        return p
    attempt("population_layout", lay)

    def esyn(net):
        e = n.ElectricalProjection(id="e", presynaptic_population="a", postsynaptic_population="b")
        s = Sent(10)
        e.electrical_connections.append(make_row("electrical", "ElectricalConnection", s, syn="s1"))
        e.electrical_connections.append(make_row("electrical", "ElectricalConnection", s, syn="s2"))
        return e
    attempt("electrical_differing_synapses", esyn)

    def csyn(which):
        def b(net):
            e = n.ContinuousProjection(id="e", presynaptic_population="a", postsynaptic_population="b")
            s = Sent(10)
            e.continuous_connections.append(make_row("continuous", "ContinuousConnection", s, pre_comp="a1", post_comp="b1"))
            e.continuous_connection_instances.append(make_row("continuous", "ContinuousConnectionInstance", s,
                                                              pre_comp="a2" if which == "pre" else "a1",
                                                              post_comp="b2" if which == "post" else "b1"))
            return e
        return b
    attempt("continuous_differing_pre_components", csyn("pre"))
    attempt("continuous_differing_post_components", csyn("post"))
    return out


def probe_delay_units():
    out = []
    for txt, ms in (("3ms", 3.0), ("3 ms", 3.0), ("0.25s", 250.0), ("2 s", 2000.0)):
        p = neuroml.Projection(id="p", presynaptic_population="a", postsynaptic_population="b", synapse="s")
        p.connection_wds.append(neuroml.ConnectionWD(id=0, pre_cell_id="../a[1]", post_cell_id="../b[2]", weight=7.0, delay=txt))
        f = MFile()
        top = MNode("n")
        try:
            p.exportHdf5(f, top)
            arr = top.children[0].children[0].obj
            nm = dict((int(k[7:]), v) for k, v in top.children[0].children[0].attrs)
            j = [j for j in nm if nm[j] == "delay"][0]
            out.append([txt, float(arr[0, j]) == float(numpy.float32(ms)) and abs(delay_ms(txt) - ms) < 1e-9])
        except Exception:  # noqa: BLE001
            out.append([txt, False])
    return out



# ------------------------------------------------------------------------------------------ column selection decisions
SEL_DEFAULT = {"pre_seg": 0, "post_seg": 0, "pre_fract": 0.5, "post_fract": 0.5, "seg": 0, "fract": 0.5, "weight": 1.0, "delay": 0.0,
               "x": 0.0, "y": 0.0, "z": 0.0}
SEL_OFF = {"pre_seg": 3, "post_seg": 2, "pre_fract": 0.25, "post_fract": 0.75, "seg": 4, "fract": 0.125, "weight": 2.5, "delay": 1.5,
           "x": 1.5, "y": 2.5, "z": 3.5}


def sel_row(kind, variant, off, rid, values=None):
    """one row object of the variant with every defaultable field at its default except `off` (a set of fields);
    -> (object, semantic values incl. id / cells)"""
    n = neuroml
    v = dict((f, SEL_DEFAULT[f]) for f in ROWFIELDS[kind] if f in SEL_DEFAULT)
    for f in off:
        if f in v:
            v[f] = SEL_OFF[f]
    for f, val in (values or {}).items():
        v[f] = val
    if kind == "projection":
        kw = dict(id=rid, pre_cell_id="../PRE[1]", post_cell_id="../POST/2/comp", pre_segment_id=v["pre_seg"], post_segment_id=v["post_seg"],
                  pre_fraction_along=v["pre_fract"], post_fraction_along=v["post_fract"])
        if variant == "Connection":
            v["weight"], v["delay"] = 1.0, 0.0
            o = n.Connection(**kw)
        else:
            o = n.ConnectionWD(weight=v["weight"], delay="%sms" % v["delay"], **kw)
        v.update(id=rid, pre_cell=1, post_cell=2)
    elif kind in ("electrical", "continuous"):
        inst = not variant.endswith("Connection")
        kw = dict(id=rid, pre_cell="../PRE/1/comp" if inst else "1", post_cell="../POST[2]" if inst else "2", pre_segment=v["pre_seg"],
                  post_segment=v["post_seg"], pre_fraction_along=v["pre_fract"], post_fraction_along=v["post_fract"])
        if kind == "electrical":
            kw["synapse"] = "syn"
        else:
            kw["pre_component"], kw["post_component"] = "prec", "postc"
        if variant.endswith("W"):
            kw["weight"] = v["weight"]
        else:
            v["weight"] = 1.0
        o = getattr(n, variant)(**kw)
        v.update(id=rid, pre_cell=1, post_cell=2)
    elif kind == "inputlist":
        kw = dict(id=rid, target="../POP/1/comp", destination="synapses", segment_id=v["seg"], fraction_along=v["fract"])
        if variant == "InputW":
            kw["weight"] = v["weight"]
        else:
            v["weight"] = 1.0
        o = getattr(n, variant)(**kw)
        v.update(id=rid, cell=1)
    else:
        o = n.Instance(id=rid)
        o.location = n.Location(x=v["x"], y=v["y"], z=v["z"])
        v.update(id=rid)
    # the values as the harness-side projection sees them must be the intended ones
    got = semrow(kind, o)
    for f in v:
        if f in got and float(got[f]) != float(v[f]):
            raise Abort("selection probe: field %s is %r, intended %r" % (f, got[f], v[f]))
    return o, v


def sel_export(kind, spec):
    """spec: [(variant, off-set)] in document order -> probe entry"""
    cont, _ = make_container(kind, "S")
    rows = []
    for i, (variant, off) in enumerate(spec):
        o, v = sel_row(kind, variant, off, 10 + i)
        getattr(cont, LISTS[variant]).append(o)
        rows.append([variant, v])
    # element lists are written one after the other: document order of the rows
    rows.sort(key=lambda r: VARIANTS[kind].index(r[0]))
    f = MFile()
    top = MNode("network")
    cont.exportHdf5(f, top)
    arrs = [c for c in top.children[0].children if isinstance(c, MArray)]
    if len(arrs) != 1:
        raise Abort("selection probe %s: %d arrays" % (kind, len(arrs)))
    a = arrs[0]
    names = {}
    for k, val in a.attrs:
        names[int(k[len("column_"):])] = str(val)
    offs = sorted(set(x for _, o in spec for x in o))
    return {"kind": kind, "off": offs[0] if len(offs) == 1 else ("" if not offs else "*"),
            "rows": rows, "names": [names.get(j) for j in range(a.obj.shape[1])]}


def probe_selection():
    """every decision 'are these columns written' probed with exactly one field off its default at a time (alone, in the
    second of two rows, in either element list), with none and with all off"""
    out = []
    for kind in ("projection", "electrical", "continuous", "inputlist", "population"):
        vs = VARIANTS[kind]
        for variant in vs:
            fields = [f for f in ROWFIELDS[kind] if f in SEL_DEFAULT]
            own = [f for f in fields if not (f == "weight" and not (variant.endswith("W") or variant == "ConnectionWD"))
                   and not (f == "delay" and variant != "ConnectionWD")]
            out.append(sel_export(kind, [(variant, set())]))
            out.append(sel_export(kind, [(variant, set(own))]))
            for f in own:
                out.append(sel_export(kind, [(variant, {f})]))
                out.append(sel_export(kind, [(variant, set()), (variant, {f})]))   # only a later row decides
        if len(vs) > 1:
            for f in [f for f in ROWFIELDS[kind] if f in SEL_DEFAULT and f not in ("weight", "delay")]:
                out.append(sel_export(kind, [(vs[0], set()), (vs[-1], {f})]))      # only the other element list decides
                out.append(sel_export(kind, [(vs[0], {f}), (vs[-1], set())]))
            out.append(sel_export(kind, [(vs[0], set()), (vs[-1], set())]))
    return out


def probe_zero(writer):
    """a field whose value is 0 (a falsy value in python) while its default is not 0 must be written as 0: for every kind,
    variant and such field -> [kind, variant, field, cell is 0.0]"""
    out = []
    for kind in ("projection", "electrical", "continuous", "inputlist"):
        for variant in VARIANTS[kind]:
            fields = [f for f in ROWFIELDS[kind] if f in SEL_DEFAULT and SEL_DEFAULT[f] != 0
                      and not (f == "weight" and not (variant.endswith("W") or variant == "ConnectionWD"))]
            for f in fields:
                cont, _ = make_container(kind, "Z")
                o, v = sel_row(kind, variant, set(x for x in SEL_OFF if x != f), 7, values={f: 0.0})
                getattr(cont, LISTS[variant]).append(o)
                mf = MFile()
                top = MNode("network")
                cont.exportHdf5(mf, top)
                a = [c for c in top.children[0].children if isinstance(c, MArray)][0]
                names = dict((int(k[len("column_"):]), str(val)) for k, val in a.attrs)
                # the column that carries f according to the writer table of this (kind, variant)
                col = None
                for w in writer:
                    if w["kind"] == kind:
                        for vv in w["variants"]:
                            if vv["variant"] == variant:
                                for j, c in enumerate(vv["cols"]):
                                    if c == ["SField", f]:
                                        col = w["names"][j]
                js = [j for j in names if names[j] == col]
                out.append([kind, variant, f, bool(col is not None and len(js) == 1 and float(a.obj[0, js[0]]) == 0.0)])
    return out


# ------------------------------------------------------------------------------------------ file skeleton
def _one_of_each():
    n = neuroml
    s = Sent(40)
    net = n.Network(id="NETID", notes="nn")
    pop, _ = make_container("population", "K")
    pop.instances.append(make_row("population", "Instance", s))
    net.populations.append(pop)
    for kind, lst, v in (("projection", "projections", "Connection"), ("electrical", "electrical_projections", "ElectricalConnection"),
                         ("continuous", "continuous_projections", "ContinuousConnection"), ("inputlist", "input_lists", "Input")):
        c, _ = make_container(kind, "K" + kind[:2])
        getattr(c, LISTS[v]).append(make_row(kind, v, s))
        getattr(net, lst).append(c)
    return net


def probe_skeleton():
    import tables
    from neuroml.hdf5.NeuroMLHdf5Parser import NeuroMLHdf5Parser
    from neuroml.writers import NeuroMLHdf5Writer
    n = neuroml
    sk = {}
    # --- writer: a document with TWO networks on the recording mock (which, unlike PyTables, accepts equal names)
    doc = n.NeuroMLDocument(id="D")
    doc.iaf_cells.append(n.IafCell(id="cellX", leak_reversal="-50mV", thresh="-55mV", reset="-70mV", C="0.2nF", leak_conductance="0.01uS"))
    doc.networks.append(_one_of_each())
    second = n.Network(id="SECOND")
    second.populations.append(n.Population(id="q", component="cellX", size=1))
    doc.networks.append(second)
    mf = MFile()
    orig = tables.open_file
    tables.open_file = lambda *a, **k: mf
    try:
        with contextlib.redirect_stdout(io.StringIO()):
            NeuroMLHdf5Writer.write(doc, "/nonexistent/never-created.h5")
    finally:
        tables.open_file = orig
    if len(mf.root.children) != 1:
        raise Abort("writer created %d root groups" % len(mf.root.children))
    root = mf.root.children[0]
    nets = [c for c in root.children if not isinstance(c, MArray)]
    sk["root"] = root._v_name
    sk["networks_written"] = len(nets)
    sk["network"] = nets[0]._v_name if nets else ""
    xml = dict(root.attrs).get("neuroml_top_level")
    sk["embeds_xml"] = bool(isinstance(xml, str) and "cellX" in xml and "<network" not in xml and "NETID" not in xml)
    sk["restores_networks"] = [x.id for x in doc.networks] == ["NETID", "SECOND"]
    # --- order and names of the construct groups
    kinds_by_id = {"IDK": "population", "IDKpr": "projection", "IDKel": "electrical", "IDKco": "continuous", "IDKin": "inputlist"}
    order, wprefix, named = [], [], True
    for c in (nets[0].children if nets else []):
        gid = dict(c.attrs).get("id")
        if gid not in kinds_by_id or not c._v_name.endswith(gid):
            raise Abort("unexpected group %s under the network group" % c._v_name)
        order.append(kinds_by_id[gid])
        wprefix.append([kinds_by_id[gid], c._v_name[: -len(gid)]])
        arrs = [a for a in c.children if isinstance(a, MArray)]
        named = named and len(arrs) == 1 and arrs[0]._v_name == gid
    sk["order"], sk["wprefix"], sk["array_named_by_id"] = order, wprefix, named

    # --- reader dispatch
    def calls_for(name, attrs, children=(), wrap=True):
        rec = Recorder()
        p = NeuroMLHdf5Parser(rec)
        p.nml_doc_extra_elements = None
        g = RGroup(name, attrs, list(children))
        top = RGroup(sk["network"], {"id": "NID"}, [g]) if wrap else g
        with contextlib.redirect_stdout(io.StringIO()):
            p.parse_group(top)
        return [c[0] for c in rec.calls]
    generic = {"id": "GID", "component": "GCOMP", "size": numpy.int64(2), "population": "GPOP", "presynapticPopulation": "GPRE",
               "postsynapticPopulation": "GPOST", "synapse": "GSYN", "type": "projection"}
    rprefix = []
    for pre in sorted(set(x[1] for x in wprefix) | {"input_list_"}):
        cs_ = calls_for(pre + "GID", generic)
        cls = [c for c, h in (("population", "handle_population"), ("projection", "finalise_projection"), ("inputlist", "handle_input_list")) if h in cs_]
        if len(cls) > 1:
            raise Abort("group %sGID is dispatched to several classes %s" % (pre, cls))
        if cls:
            rprefix.append([pre, cls[0]])
    sk["rprefix"] = rprefix
    sk["prefix_only"] = all(not [c for c in calls_for("x_" + pre + "GID", generic) if c != "handle_network"] for pre, _ in rprefix)
    il = RGroup("inputList_A", {"id": "A", "component": "GCOMP", "population": "B", "size": numpy.int64(0)})
    pb = RGroup("population_B", {"id": "B", "component": "GCOMP", "size": numpy.int64(2)})
    rec = Recorder()
    p = NeuroMLHdf5Parser(rec)
    p.nml_doc_extra_elements = None
    with contextlib.redirect_stdout(io.StringIO()):
        p.parse_group(RGroup(sk["root"], {"id": "DID", "notes": "x"}, [RGroup(sk["network"], {"id": "NID"}, [il, pb])]))
    names = [c[0] for c in rec.calls]
    sk["pops_first"] = "handle_population" in names and "handle_input_list" in names and \
        names.index("handle_population") < names.index("handle_input_list")
    sk["root_dispatch"] = names[:2] == ["handle_document_start", "handle_network"]
    # --- chemical projection without connections
    runs = []
    for tag in ("A", "B"):
        c, cf = make_container("projection", tag)
        f = MFile()
        top = MNode("network")
        c.exportHdf5(f, top)
        runs.append((top.children[0], cf))
    (gA, cA), (gB, cB) = runs
    sk["empty_proj_array"] = bool([a for a in gA.children if isinstance(a, MArray)])
    ew = []
    for (k, va), (k2, vb) in zip(gA.attrs, gB.attrs):
        fld = [x for x in cA if cA[x] == va and cB[x] == vb]
        if k != k2:
            raise Abort("empty projection attribute names depend on values")
        if len(fld) == 1:
            ew.append([k, ["GField", fld[0]]])
        elif isinstance(va, str) and va == vb:
            ew.append([k, ["GConst", va]])
        else:
            raise Abort("empty projection attribute %s" % k)
    sk["empty_proj_w"] = ew
    nb = fresh_builder()
    p = NeuroMLHdf5Parser(nb)
    p.nml_doc_extra_elements = None
    attrs = dict((k, "E" + k) for k, _ in ew)
    attrs["type"] = dict(gA.attrs).get("type", "projection")
    with contextlib.redirect_stdout(io.StringIO()):
        p.parse_group(RGroup(gA._v_name.replace("IDA", "Eid"), attrs))
    pr = [x for x in nb.network.projections]
    back = {}
    if len(pr) == 1:
        obj = {"id": pr[0].id, "pre": pr[0].presynaptic_population, "post": pr[0].postsynaptic_population, "synapse": pr[0].synapse}
        for k, src in ew:
            if src[0] == "GField":
                back[src[1]] = obj.get(src[1]) == "E" + k
    sk["empty_proj_read"] = sorted(back.items())
    return sk


# ------------------------------------------------------------------------------------------ optimized containers
def probe_optimized():
    from neuroml.hdf5 import NetworkContainer as NC
    out = []
    specs = [("population", "Instance", NC.InstanceList, ["x", "y", "z"], None),
             ("projection", "Connection", NC.ConnectionList,
              ["pre_cell_id", "post_cell_id", "pre_segment_id", "post_segment_id", "pre_fraction_along", "post_fraction_along"], None),
             ("inputlist", "Input", NC.InputsList, ["id", "target_cell_id", "segment_id", "fraction_along"], "id")]

    def run(kind, cls, names_at, ncols, idname, zero=None):
        arr = numpy.array([[100.0 * (i + 1) + j + 0.25 for j in range(ncols)] for i in range(3)], numpy.float32)
        if idname is not None and idname in names_at:
            arr[:, names_at[idname]] = [0, 1, 2]          # the containers assert id == row index
        if zero is not None and zero in names_at:
            arr[:, names_at[zero]] = 0.0
        lst = cls(array=arr, indices=dict(names_at))
        if kind == "projection":
            lst.presynaptic_population, lst.postsynaptic_population = "PRE", "POST"
        if kind == "inputlist":
            lst.target_population = "POP"
        rows = [semrow(kind, lst[i]) for i in range(3)]
        return rows, [[float(v) for v in r] for r in arr]

    for kind, variant, cls, names, idname in specs:
        n = len(names)
        shifted = dict((nm, j + 1) for j, nm in enumerate(names))
        rows, arr = run(kind, cls, shifted, n + 2, idname)
        entries, dropped = [], []
        for f in ROWFIELDS[kind]:
            vals = [r[f] for r in rows]
            if f == idname or (kind == "inputlist" and f == "id"):
                dsc = ("col", shifted[idname], True) if all(int(v) == i for i, v in enumerate(vals)) else ("other",)
            else:
                dsc = describe_arg([int(v) if float(v) == int(v) and f in ("id", "pre_cell", "post_cell", "pre_seg", "post_seg", "cell", "seg") else v
                                    for v in vals], arr)
            if dsc[0] != "col":
                d2 = ["ODRowIndex"] if dsc[0] == "rowindex" else ["ODConst", dsc[1]] if dsc[0] == "const" else None
                if d2 is None:
                    dropped.append(f)
                else:
                    entries.append({"field": f, "name": "", "at0": False, "int": False, "dflt": d2, "zero": True})
                continue
            nm = names[dsc[1] - 1]
            isint = bool(dsc[2])
            # column at 0
            order0 = [nm] + [x for x in names if x != nm]
            try:
                rows0, arr0 = run(kind, cls, dict((x, j) for j, x in enumerate(order0)), n, idname)
                v0 = [r[f] for r in rows0]
                at0 = all((int(v) == int(arr0[i][0])) if isint else (float(v) == arr0[i][0]) for i, v in enumerate(v0)) \
                    if nm != idname else all(int(v) == i for i, v in enumerate(v0))
            except Exception:  # noqa: BLE001
                at0 = False
            # name absent
            try:
                rest = dict((x, j + 1) for j, x in enumerate([x for x in names if x != nm]))
                rowsN, arrN = run(kind, cls, rest, n + 2, idname)
                vN = [r[f] for r in rowsN]
                dN = describe_arg([int(v) if isint else v for v in vN], arrN)
                dflt = ["ODRowIndex"] if dN[0] == "rowindex" else ["ODConst", dN[1]] if dN[0] == "const" else \
                    ["ODColumn", dN[1]] if dN[0] == "col" else ["ODFail"]
            except Exception:  # noqa: BLE001
                dflt = ["ODFail"]
            # a 0 cell
            try:
                if nm == idname:
                    zero = True
                else:
                    rowsZ, _ = run(kind, cls, shifted, n + 2, idname, zero=nm)
                    zero = all(float(r[f]) == 0.0 for r in rowsZ)
            except Exception:  # noqa: BLE001
                zero = False
            entries.append({"field": f, "name": nm, "at0": bool(at0), "int": isint, "dflt": dflt, "zero": bool(zero)})
        out.append({"kind": kind, "variant": variant, "entries": entries, "dropped": dropped})
    return out


def probe_population_selection():
    """the decision 'a population gets a location table' must depend on the presence of <instance> children only: probed over
    instances yes/no x type in {unset, population, populationList} x size in {unset, = number of instances, another number}
    -> [has_instances, type, size class, table written with x/y/z, size attribute = what the loader will report]"""
    n = neuroml
    out = []
    for has in (True, False):
        for typ in (None, "population", "populationList"):
            for sc in ("unset", "equal", "other"):
                size = {"unset": None, "equal": 2 if has else 7, "other": 5}[sc]
                p = n.Population(id="P", component="C", type=typ, size=size)
                if has:
                    for i in range(2):
                        o = n.Instance(id=i)
                        o.location = n.Location(x=1.5 + i, y=0.0, z=2.5)
                        p.instances.append(o)
                f = MFile()
                top = MNode("network")
                try:
                    p.exportHdf5(f, top)
                except Exception:  # noqa: BLE001
                    out.append([has, str(typ), sc, False, False])
                    continue
                g = top.children[0]
                arrs = [c for c in g.children if isinstance(c, MArray)]
                table = bool(len(arrs) == 1 and arrs[0].obj.shape == (2, 3)
                             and sorted(str(v) for _, v in arrs[0].attrs) == ["x", "y", "z"]) if has else False
                written = bool(arrs)
                sz = dict(g.attrs).get("size")
                size_ok = (sz == 2) if has else (sz == size)
                out.append([has, str(typ), sc, written and (table or not has), bool(size_ok)])
    return out


# ------------------------------------------------------------------------------------------ negative + frame clauses
def connection_lists(cls):
    """names of the member lists of a projection class that hold connection objects (own and inherited)"""
    out = []
    for c in cls.__mro__:
        for m in getattr(c, "member_data_items_", None) or []:
            if m.get_container() and "Connection" in str(m.get_data_type()) and m.get_name() not in out:
                out.append(m.get_name())
    return out


def probe_mixed():
    """the refusal of connections with different synapses / components, enumerated over the connection member lists of the class
    (from its member specifications) x position of the deviating connection (first / middle / last of its list) x alone /
    next to the other lists -> {"lists": {kind: [list names]}, "cases": [[kind, list, field, position, across, refused]]}"""
    n = neuroml
    res = {"lists": {}, "cases": []}
    for kind, cls, fields in (("electrical", n.ElectricalProjection, ["synapse"]),
                              ("continuous", n.ContinuousProjection, ["pre_component", "post_component"])):
        lists = connection_lists(cls)
        res["lists"][kind] = lists
        variant_of = dict((LISTS[v], v) for v in VARIANTS[kind])
        for l in lists:
            if l not in variant_of:
                raise Abort("%s has a connection list %s the probe does not know" % (cls.__name__, l))
        for li, l in enumerate(lists):
            for fld in fields:
                for pos in (0, 1, 2):
                    for across in (False, True):
                        proj = cls(id="M", presynaptic_population="a", postsynaptic_population="b")
                        s = Sent(10)
                        for lj, l2 in enumerate(lists):
                            if lj != li and not across:
                                continue
                            for q in range(3):
                                dev = (lj == li and q == pos)
                                o = make_row(kind, variant_of[l2], s, syn="s2" if dev and fld == "synapse" else "s1",
                                             pre_comp="a2" if dev and fld == "pre_component" else "a1",
                                             post_comp="b2" if dev and fld == "post_component" else "b1")
                                getattr(proj, l2).append(o)
                        f = MFile()
                        try:
                            with contextlib.redirect_stdout(io.StringIO()):
                                proj.exportHdf5(f, MNode("network"))
                            refused = False
                        except Exception:  # noqa: BLE001
                            refused = True
                        res["cases"].append([kind, l, fld, pos, across, refused])
    return res


ACCESSORS = ["get_pre_cell_id", "get_post_cell_id", "get_pre_segment_id", "get_post_segment_id", "get_pre_fraction_along",
             "get_post_fraction_along", "get_pre_info", "get_post_info", "get_target_cell_id", "get_target_population", "get_segment_id",
             "get_fraction_along", "get_weight", "get_delay_in_ms", "__str__"]
EDITABLE = {"projection": [("pre_cell_id", "../PRE[77]"), ("post_cell_id", "../POST/78/comp"), ("pre_segment_id", 9), ("post_segment_id", 8),
                           ("pre_fraction_along", 0.125), ("post_fraction_along", 0.875), ("weight", 6.5), ("delay", "9ms")],
            "electrical": [("pre_cell", None), ("post_cell", None), ("pre_segment", 9), ("post_segment", 8), ("pre_fraction_along", 0.125),
                           ("post_fraction_along", 0.875), ("weight", 6.5)],
            "inputlist": [("target", "../POP/79/comp"), ("segment_id", 9), ("fraction_along", 0.125), ("weight", 6.5)]}
EDITABLE["continuous"] = EDITABLE["electrical"]


def _state(o):
    return dict((k, repr(v)) for k, v in vars(o).items() if not k.startswith("gds_") and k not in ("parent_object_",))


def probe_frame():
    """frame clause of the accessors and of exportHdf5: (a) calling an accessor / exporting writes nothing on the objects
    (instance dictionaries identical before and after), (b) after an attribute is edited the accessors and the exported table
    follow the edit (no value remembered from an earlier call) -> [[class, what, ok]]"""
    out = []
    for kind in ("projection", "electrical", "continuous", "inputlist"):
        for variant in VARIANTS[kind]:
            o = make_row(kind, variant, Sent(20))
            for m in ACCESSORS:
                if not hasattr(o, m) or (m == "get_weight" and not hasattr(o, "weight")):
                    continue
                before = _state(o)
                try:
                    getattr(o, m)()
                    out.append([variant, "pure:" + m, _state(o) == before])
                except Exception:  # noqa: BLE001
                    out.append([variant, "pure:" + m, _state(o) == before])
            # exported row follows an edit made after a first export / accessor round
            cont, _ = make_container(kind, "F")
            getattr(cont, LISTS[variant]).append(o)
            first = semrow(kind, o)
            f = MFile()
            cont.exportHdf5(f, MNode("network"))
            str(o)
            for attr, val in EDITABLE[kind]:
                if not hasattr(o, attr) or (attr in ("weight", "delay") and getattr(o, attr, None) is None):
                    continue
                if val is None:
                    val = "5" if variant in ("ElectricalConnection", "ContinuousConnection") else "../PRE/5/comp"
                setattr(o, attr, val)
            want = semrow(kind, o)
            f2 = MFile()
            top = MNode("network")
            cont.exportHdf5(f2, top)
            a = [c for c in top.children[0].children if isinstance(c, MArray)][0]
            cells = set(float(x) for x in a.obj[0])
            changed = [k for k in want if want[k] != first[k] and not (kind == "projection" and k == "id")]
            ok = all(float(numpy.float32(want[k])) in cells for k in changed) and bool(changed)
            out.append([variant, "export-follows-edit", bool(ok)])
    # exportHdf5 leaves the container and its rows untouched
    for kind in ("population", "projection", "electrical", "continuous", "inputlist"):
        cont, _ = make_container(kind, "G")
        s = Sent(30)
        rows = []
        for v in VARIANTS[kind]:
            o = make_row(kind, v, s)
            getattr(cont, LISTS[v]).append(o)
            rows.append(o)
        before = [_state(o) for o in rows] + [sorted(k for k in vars(cont))]
        cont.exportHdf5(MFile(), MNode("network"))
        out.append([type(cont).__name__, "pure:exportHdf5", [_state(o) for o in rows] + [sorted(k for k in vars(cont))] == before])
    return out


# ------------------------------------------------------------------------------------------ Coq rendering
def cs(s):
    assert all(ord(c) < 128 for c in s)
    return '"' + s.replace('"', '""') + '"'


def cl(xs):
    return "[" + "; ".join(xs) + "]"


def cb(b):
    return "true" if b else "false"


def render(t):
    L = ["(* generated by translators/tr_h5layout.py from the tree under test; do not edit *)",
         "From Coq Require Import String List Bool ZArith.", "From LNML Require Import Model.H5.", "Import ListNotations.",
         "Open Scope string_scope.", ""]

    def src(s):
        return "SField %s" % cs(s[1]) if s[0] == "SField" else "SConst %s" % s[1]

    def gsrc(g):
        return {"GField": lambda: "GField %s" % cs(g[1]), "GConst": lambda: "GConst %s" % cs(g[1]), "GCount": lambda: "GCount",
                "GProp": lambda: "GProp", "GXml": lambda: "GXml"}[g[0]]()

    wt = []
    for w in t["writer"]:
        vs = cl(["{| wv_name := %s; wv_cols := %s |}" % (cs(v["variant"]), cl([src(c) for c in v["cols"]])) for v in w["variants"]])
        wt.append("{| wt_kind := %s; wt_flags := %s; wt_names := %s;\n     wt_variants := %s;\n     wt_gattrs := %s |}" % (
            cs(w["kind"]), cl([cs(f) for f in w["flags"]]),
            cl(["None" if nm is None else "Some %s" % cs(nm) for nm in w["names"]]), vs,
            cl(["(%s, %s)" % (cs(k), gsrc(g)) for k, g in w["gattrs"]])))
    L.append("Definition writer_tables : list wtable :=\n  " + cl(["\n   " + x for x in wt]) + ".\n")

    def dfl(d):
        return "DConst %s" % d[1] if d[0] == "DConst" else d[0]
    rt = []
    for r in t["reader"]:
        es = cl(["\n     {| pe_arg := %s; pe_name := %s; pe_at0 := %s; pe_atpos := %s; pe_int := %s; pe_dflt := %s |}" % (
            cs(e["arg"]), cs(e["name"]), cb(e["at0"]), cb(e["atpos"]), cb(e["int"]), dfl(e["dflt"])) for e in r["args"]])
        rt.append("{| rt_kind := %s; rt_args := %s;\n     rt_unread := %s;\n     rt_gattrs := %s |}" % (
            cs(r["kind"]), es, cl([cs(x) for x in r["unread_names"]]),
            cl(["(%s, %s)" % (cs(k), cs(a)) for k, _, a in r["gattrs"]])))
    L.append("Definition reader_tables : list rtable :=\n  " + cl(["\n   " + x for x in rt]) + ".\n")
    bt = []
    for b in t["builder"]:
        bt.append("{| be_kind := %s; be_inst := %s; be_mixed := %s; be_unitw := %s; be_cols := %s; be_zerod := %s; be_variant := %s;\n"
                  "     be_fields := %s; be_lost := %s |}" % (
                      cs(b["kind"]), cb(b["pops"] != "sized"), cb(b["pops"] == "mixed"), cb(b["unitw"]), cb(b["cols"]), cb(b["zerod"]),
                      cs(b["variant"]), cl(["(%s, %s)" % (cs(f), cs(a)) for f, a in b["fields"]]), cl([cs(x) for x in b["lost"]])))
    L.append("Definition builder_table : list bentry :=\n  " + cl(["\n   " + x for x in bt]) + ".\n")
    L.append("Definition sized_population_gattrs : list (string * gsrc) := %s.\n" %
             cl(["(%s, %s)" % (cs(k), gsrc(g)) for k, g in t["sized_population"]]))
    L.append("Definition document_gattrs_w : list (string * gsrc) := %s." % cl(["(%s, %s)" % (cs(k), gsrc(g)) for k, g in t["docnet"]["document"]["gattrs"]]))
    L.append("Definition network_gattrs_w : list (string * gsrc) := %s." % cl(["(%s, %s)" % (cs(k), gsrc(g)) for k, g in t["docnet"]["network"]["gattrs"]]))
    m = t["reader_misc"]
    L.append("Definition document_gattrs_r : list (string * string) := %s." % cl(["(%s, %s)" % (cs(k), cs(a)) for k, _, a in m["document"]]))
    L.append("Definition network_gattrs_r : list (string * string) := %s." % cl(["(%s, %s)" % (cs(k), cs(a)) for k, _, a in m["network"]]))
    L.append("Definition sized_population_gattrs_r : list (string * string) := %s." % cl(["(%s, %s)" % (cs(k), cs(a)) for k, _, a in m["sized_population"]]))
    L.append("Definition property_prefix_ok : bool := %s." % cb(m["property_prefix_ok"]))
    L.append("Definition none_notes_read_as : list (option string) := %s." %
             cl(["None" if x is None else "Some %s" % cs(str(x)) for x in m["none_notes_read_as"]]))
    L.append("Definition absent_temperature_read_as : option string := %s." %
             ("None" if m["absent_temperature_read_as"] is None else "Some %s" % cs(str(m["absent_temperature_read_as"]))))
    L.append("Definition builder_strings : list (string * list (string * bool)) := %s." %
             cl(["(%s, %s)" % (cs(k), cl(["(%s, %s)" % (cs(f), cb(v)) for f, v in sorted(d.items())])) for k, d in sorted(t["builder_strings"].items())]))
    L.append("Definition refusals : list (string * bool) := %s." % cl(["(%s, %s)" % (cs(k), cb(v)) for k, v in t["refusals"]]))
    L.append("Definition delay_units : list (string * bool) := %s." % cl(["(%s, %s)" % (cs(k), cb(v)) for k, v in t["delay_units"]]))
    def zq(x):
        q = float(x) * 1024
        if abs(q - round(q)) > 1e-9:
            raise Abort("selection probe value %r is not a multiple of 1/1024" % x)
        return "(%d)%%Z" % round(q)
    sp = []
    for p in t["select"]:
        rows = cl(["(%s, %s)" % (cs(v), cl(["(%s, %s)" % (cs(k), zq(val)) for k, val in sorted(vals.items())])) for v, vals in p["rows"]])
        sp.append("{| sp_kind := %s; sp_off := %s; sp_rows := %s;\n     sp_names := %s |}" % (
            cs(p["kind"]), cs(p["off"]), rows, cl(["None" if nm is None else "Some %s" % cs(nm) for nm in p["names"]])))
    L.append("Definition select_probes : list selprobe :=\n  " + cl(["\n   " + x for x in sp]) + ".\n")
    L.append("Definition zero_cells : list (string * string * string * bool) := %s.\n" %
             cl(["(%s, %s, %s, %s)" % (cs(k), cs(v), cs(f), cb(ok)) for k, v, f, ok in t["zero"]]))
    L.append("Definition builder_precision : list (string * string * string * bool) := %s.\n" %
             cl(["(%s, %s, %s, %s)" % (cs(k), cs(a), cs(v), cb(ok)) for k, a, v, ok in t["precision"]]))
    L.append("Definition merge_probe : list (string * bool) := %s.\n" % cl(["(%s, %s)" % (cs(k), cb(v)) for k, v in t["merge"]]))
    L.append("Definition string_probe : list (string * bool) := %s.\n" % cl(["(%s, %s)" % (cs(k), cb(v)) for k, v in t["strings"]]))
    k = t["skeleton"]
    L.append("Definition skel : skeleton := {| sk_root := %s; sk_network := %s;\n  sk_wprefix := %s;\n  sk_order := %s; sk_networks_written := %d;\n"
             "  sk_embeds_xml := %s; sk_restores_networks := %s; sk_array_named_by_id := %s;\n  sk_rprefix := %s;\n"
             "  sk_prefix_only := %s; sk_pops_first := %s; sk_root_dispatch := %s;\n  sk_empty_proj_w := %s;\n"
             "  sk_empty_proj_array := %s; sk_empty_proj_read := %s |}.\n" % (
                 cs(k["root"]), cs(k["network"]), cl(["(%s, %s)" % (cs(a), cs(b)) for a, b in k["wprefix"]]),
                 cl([cs(x) for x in k["order"]]), k["networks_written"], cb(k["embeds_xml"]), cb(k["restores_networks"]),
                 cb(k["array_named_by_id"]), cl(["(%s, %s)" % (cs(a), cs(b)) for a, b in k["rprefix"]]),
                 cb(k["prefix_only"]), cb(k["pops_first"]), cb(k["root_dispatch"]),
                 cl(["(%s, %s)" % (cs(a), gsrc(b)) for a, b in k["empty_proj_w"]]), cb(k["empty_proj_array"]),
                 cl(["(%s, %s)" % (cs(a), cb(b)) for a, b in k["empty_proj_read"]])))

    def od(d):
        return "ODConst %s" % d[1] if d[0] == "ODConst" else "ODColumn %d" % d[1] if d[0] == "ODColumn" else d[0]
    ots = []
    for o in t["optimized"]:
        es = cl(["\n     {| oe_field := %s; oe_name := %s; oe_at0 := %s; oe_int := %s; oe_dflt := %s; oe_zero_kept := %s |}" % (
            cs(e["field"]), cs(e["name"]), cb(e["at0"]), cb(e["int"]), od(e["dflt"]), cb(e["zero"])) for e in o["entries"]])
        ots.append("{| ot_kind := %s; ot_variant := %s; ot_entries := %s;\n     ot_dropped := %s |}" % (
            cs(o["kind"]), cs(o["variant"]), es, cl([cs(x) for x in o["dropped"]])))
    L.append("Definition optimized_tables : list otable :=\n  " + cl(["\n   " + x for x in ots]) + ".\n")
    L.append("Definition population_selection : list (bool * string * string * bool * bool) := %s.\n" %
             cl(["(%s, %s, %s, %s, %s)" % (cb(a), cs(b), cs(c), cb(d), cb(e)) for a, b, c, d, e in t["popsel"]]))
    L.append("Definition connection_lists : list (string * list string) := %s." %
             cl(["(%s, %s)" % (cs(k), cl([cs(x) for x in v])) for k, v in sorted(t["mixed"]["lists"].items())]))
    L.append("Definition mixed_cases : list (string * string * string * nat * bool * bool) := %s.\n" %
             cl(["(%s, %s, %s, %d, %s, %s)" % (cs(a), cs(b), cs(c), d, cb(e), cb(f)) for a, b, c, d, e, f in t["mixed"]["cases"]]))
    L.append("Definition frame_probe : list (string * string * bool) := %s.\n" %
             cl(["(%s, %s, %s)" % (cs(a), cs(b), cb(c)) for a, b, c in t["frame"]]))
    L.append("\nDefinition gen : h5gen := {| g_writer := writer_tables; g_reader := reader_tables; g_builder := builder_table;\n"
             "  g_sized_pop_w := sized_population_gattrs; g_sized_pop_r := sized_population_gattrs_r;\n"
             "  g_doc_w := document_gattrs_w; g_doc_r := document_gattrs_r; g_net_w := network_gattrs_w; g_net_r := network_gattrs_r;\n"
             "  g_prop_prefix := property_prefix_ok; g_none_notes := none_notes_read_as; g_absent_temp := absent_temperature_read_as;\n"
             "  g_builder_strings := builder_strings; g_refusals := refusals; g_delay_units := delay_units;\n  g_select := select_probes; g_zero := zero_cells; g_precision := builder_precision; g_merge := merge_probe; g_strings := string_probe;\n  g_skel := skel; g_opt := optimized_tables; g_popsel := population_selection;\n  g_conn_lists := connection_lists; g_mixed := mixed_cases; g_frame := frame_probe |}.")
    return "\n".join(L) + "\n"


def main():
    t = {}
    t["writer"] = probe_writer()
    t["sized_population"] = probe_sized_population()
    t["docnet"] = probe_network_and_doc()
    names = {}
    for w in t["writer"]:
        for nm in w["names"]:
            if nm is not None and nm not in names.setdefault(w["kind"], []):
                names[w["kind"]].append(nm)
    t["reader"] = [probe_reader(k, names[k]) for k in ("population", "projection", "electrical", "continuous", "inputlist")]
    t["reader_misc"] = probe_reader_misc()
    t["builder"] = probe_builder()
    t["builder_strings"] = probe_builder_strings()
    t["refusals"] = probe_refusals()
    t["delay_units"] = probe_delay_units()
    t["select"] = probe_selection()
    t["zero"] = probe_zero(t["writer"])
    t["precision"] = probe_builder_precision()
    t["merge"] = probe_merge()
    t["strings"] = probe_strings()
    t["popsel"] = probe_population_selection()
    t["mixed"] = probe_mixed()
    t["frame"] = probe_frame()
    t["skeleton"] = probe_skeleton()
    t["optimized"] = probe_optimized()
    print(json.dumps({"json": t, "coq": render(t)}))


if __name__ == "__main__":
    try:
        main()
    except Abort as e:
        sys.stderr.write("tr_h5layout: fail closed: %s\n" % e)
        sys.exit(3)
