"""tr_helpers: C20 translator.  Reads (never imports the package)
     neuroml/nml/helper_methods.py   (executed by path; MethodSpecs interpolated exactly as generateDS does)
     neuroml/nml/nml.py              (ast)
     neuroml/nml/NeuroML_<current>.xsd, neuroml/__version__.py, neuroml/writers.py, regenerate-nml.sh
and emits a JSON table (stdout, last line) that checks/c20.py turns into Gen_C20.v.

Canonical form of a method = [signature] + [ast.unparse(stmt) for stmt in body without the docstring].
Fail closed: anything unexpected raises -> the check records a broken translate obligation.
"""
import ast
import json
import os
import re
import sys

REPO = os.environ.get("VERIF_REPO", "/repo")
NML = os.path.join(REPO, "neuroml", "nml")

# methods generateDS itself emits into every class (everything else in a class body must come from a MethodSpec)
TEMPLATE = {
    "__init__", "factory", "has__content", "export", "_exportAttributes", "_exportChildren",
    "validate_", "build", "_buildAttributes", "_buildChildren", "get_ns_prefix_", "set_ns_prefix_",
}


TEMPLATE_ASSIGN = {"__hash__", "subclass", "superclass", "member_data_items_", "__slots__", "factory"}


def canon_func(fn):
    body = list(fn.body)
    if body and isinstance(body[0], ast.Expr) and isinstance(getattr(body[0], "value", None), ast.Constant) \
            and isinstance(body[0].value.value, str):
        body = body[1:]
    sig = "def %s(%s)" % (fn.name, ast.unparse(fn.args))
    if fn.decorator_list:
        sig = " ".join("@" + ast.unparse(d) for d in fn.decorator_list) + " " + sig
    if fn.returns is not None:
        sig += " -> " + ast.unparse(fn.returns)
    out = [sig]
    for st in body:
        out.append(ast.unparse(st))
    return [s.encode("ascii", "backslashreplace").decode() for s in out]


def class_items(body, skip_template):
    """ordered [(name, canon)] of the function definitions (and other non-template statements) of a class body"""
    items = []
    for st in body:
        if isinstance(st, (ast.FunctionDef, ast.AsyncFunctionDef)):
            if skip_template and (st.name in TEMPLATE or is_st_validator(st)):
                continue
            items.append([st.name, canon_func(st)])
        elif isinstance(st, ast.Expr) and isinstance(st.value, ast.Constant):
            continue
        elif skip_template and isinstance(st, ast.Assign) and len(st.targets) == 1 and isinstance(st.targets[0], ast.Name) \
                and (st.targets[0].id in TEMPLATE_ASSIGN or re.fullmatch(r"validate_\w+_patterns_", st.targets[0].id)):
            continue  # class-level assignments generateDS itself emits
        elif isinstance(st, ast.Pass):
            continue
        else:
            items.append(["<stmt>", [ast.unparse(st).encode("ascii", "backslashreplace").decode()]])
    return items


def is_st_validator(fn):
    # generateDS simple-type validators: def validate_<Name>(self, value)
    if not fn.name.startswith("validate_") or fn.name == "validate_":
        return False
    a = fn.args
    return [x.arg for x in a.args] == ["self", "value"] and not a.kwonlyargs and a.vararg is None


def main():
    out = {}
    # ---- helper_methods.py, executed by path ------------------------------------------------
    hp = os.path.join(NML, "helper_methods.py")
    ns = {"__name__": "helper_methods_under_verification", "__file__": hp}
    src = open(hp).read()
    exec(compile(src, hp, "exec"), ns)
    specs = ns["METHOD_SPECS"]
    nml_tree = ast.parse(open(os.path.join(NML, "nml.py")).read())
    classes = [n for n in nml_tree.body if isinstance(n, ast.ClassDef)]
    binding_classes = []
    for c in classes:
        names = [b.targets[0].id for b in c.body if isinstance(b, ast.Assign) and len(b.targets) == 1
                 and isinstance(b.targets[0], ast.Name)]
        if "member_data_items_" in names:
            binding_classes.append(c)
    src_tab, nml_tab = [], []
    for c in binding_classes:
        items = []
        for sp in specs:
            if sp.match_name(c.name):
                text = sp.get_interpolated_source({"class_name": c.name})
                tree = ast.parse("class _C:\n    pass\n" + text)
                items.extend(class_items(tree.body[0].body, skip_template=False))
        if items:
            src_tab.append([c.name, items])
        nitems = class_items(c.body, skip_template=True)
        if nitems:
            nml_tab.append([c.name, nitems])
    # specs naming a class that does not exist
    all_names = {c.name for c in binding_classes}
    dangling = []
    for sp in specs:
        cn = list(sp.class_names) if isinstance(sp.class_names, (list, tuple, set, frozenset)) else [sp.class_names]
        for n in cn:
            if not isinstance(n, str):
                dangling.append([sp.name, "<class_names entry is not a string: %r>" % (n,)])
            elif n not in all_names:
                dangling.append([sp.name, n])
            elif not sp.match_name(n):
                # the source names the class, but its own match_name (the call generateDS makes) does not place the method there
                dangling.append([sp.name, n + " (named by the spec, not matched by match_name)"])
    out["src"] = src_tab
    out["nml"] = nml_tab
    out["dangling_specs"] = dangling
    out["binding_classes"] = sorted(all_names)
    # the public export list: `from .nml.nml import *` in neuroml/__init__.py only sees what __all__ names
    exported = None
    for n in nml_tree.body:
        if isinstance(n, ast.Assign) and len(n.targets) == 1 and isinstance(n.targets[0], ast.Name) and n.targets[0].id == "__all__":
            exported = [e.value for e in n.value.elts if isinstance(e, ast.Constant)] if isinstance(n.value, (ast.List, ast.Tuple)) else None
    init_src = open(os.path.join(REPO, "neuroml", "__init__.py")).read()
    star = bool(re.search(r"^from \.nml\.nml import \*", init_src, re.M))
    if exported is None:
        # no __all__: a star import exports every public name
        exported = sorted(all_names)
    out["exported_classes"] = sorted(x for x in exported if x in all_names) if star else []
    # ---- versions / schema names ------------------------------------------------------------
    vt = ast.parse(open(os.path.join(REPO, "neuroml", "__version__.py")).read())
    cur = None
    for n in ast.walk(vt):
        if isinstance(n, (ast.Assign, ast.AnnAssign)):
            tgt = n.targets[0] if isinstance(n, ast.Assign) else n.target
            if isinstance(tgt, ast.Name) and tgt.id == "current_neuroml_version" and isinstance(n.value, ast.Constant):
                cur = n.value.value
    if cur is None:
        raise SystemExit("translate:__version__.py: current_neuroml_version not a literal")
    out["current"] = cur
    head = open(os.path.join(NML, "nml.py")).read(4000)
    m = re.search(r"# Command line arguments:\n#\s+(\S+)\n", head)
    out["header_schema"] = m.group(1) if m else ""
    w = open(os.path.join(REPO, "neuroml", "writers.py")).read()
    wt = ast.parse(w)
    wschema = None
    for n in ast.walk(wt):
        if isinstance(n, ast.Constant) and isinstance(n.value, str) and "schemaLocation" in n.value:
            mm = re.search(r"NeuroML2/(NeuroML_%s\.xsd)", n.value)
            if mm:
                wschema = mm.group(1)
    # the %s is filled with neuroml.current_neuroml_version: check the BinOp
    fills_current = bool(re.search(r"%\s*\(?\s*neuroml\.current_neuroml_version", w))
    out["writer_schema"] = (wschema or "").replace("%s", cur) if fills_current else (wschema or "")
    rs = open(os.path.join(NML, "regenerate-nml.sh")).read()
    m1 = re.search(r"SCHEMA_FILE=(\S+)", rs)
    m2 = re.search(r"NEUROML_VERSION=\$\(grep -E 'current_neuroml_version\.\*' \.\./__version__\.py", rs)
    out["regen_schema"] = m1.group(1).replace("${NEUROML_VERSION}", cur) if (m1 and m2) else (m1.group(1) if m1 else "")
    uses_helpers = "--user-methods=helper_methods.py" in rs
    out["regen_uses_helper_methods"] = uses_helpers
    # ---- complex types of the bundled schema -------------------------------------------------
    xsd = os.path.join(NML, "NeuroML_%s.xsd" % cur)
    out["schema_exists"] = os.path.exists(xsd)
    cts = []
    if out["schema_exists"]:
        from lxml import etree
        t = etree.parse(xsd)
        XS = "{http://www.w3.org/2001/XMLSchema}"
        for e in t.getroot():
            if e.tag == XS + "complexType":
                cts.append(e.get("name"))
    out["complex_types"] = sorted(cts)
    # ---- the name table generateDS applies at regeneration (generateds_config.py executed by path in a scratch dir,
    #      with the tree's own config.py and schema files) against the shipped name_table.csv and the member names in nml.py
    import csv
    import keyword
    import shutil
    import subprocess
    import tempfile
    regen_table, regen_err = None, ""
    scratch = tempfile.mkdtemp(prefix="verif_c20_")
    try:
        for fn in os.listdir(NML):
            if fn.endswith(".xsd") or fn in ("generateds_config.py", "config.py"):
                shutil.copy(os.path.join(NML, fn), scratch)
        code = ("import sys, json; sys.path.insert(0, '/venv/bin'); sys.path.insert(0, %r); import generateds_config as g; "
                "print('NAMETABLE' + json.dumps(g.NameTable))" % scratch)
        pr = subprocess.run([sys.executable, "-c", code], cwd=scratch, capture_output=True, text=True, timeout=300)
        for line in pr.stdout.splitlines():
            if line.startswith("NAMETABLE"):
                regen_table = json.loads(line[len("NAMETABLE"):])
        if regen_table is None:
            regen_err = (pr.stderr or pr.stdout)[-500:]
    except Exception as e:  # fail closed
        regen_err = repr(e)
    finally:
        shutil.rmtree(scratch, ignore_errors=True)
    shipped_table = {}
    nt = os.path.join(NML, "name_table.csv")
    if os.path.exists(nt):
        for r in csv.reader(open(nt)):
            if len(r) == 2:
                shipped_table[r[0]] = r[1]
    out["name_table_regen"] = sorted(regen_table.items()) if regen_table is not None else [["<generateds_config failed>", regen_err]]
    out["name_table_shipped"] = sorted(shipped_table.items())
    # members of the shipped bindings must carry the names the table prescribes (python name = table[xml name],
    # keyword-suffixed with '_' or, for an attribute clashing with a child element, with '_attr')
    viol = []
    tab = regen_table or {}
    for c in binding_classes:
        for b in c.body:
            if isinstance(b, ast.Assign) and getattr(b.targets[0], "id", "") == "member_data_items_" and isinstance(b.value, ast.List):
                for e in b.value.elts:
                    try:
                        a = [ast.literal_eval(x) for x in e.args]
                    except Exception:
                        continue
                    py = a[0]
                    xml = a[4].get("name") if len(a) > 4 and isinstance(a[4], dict) else None
                    if xml is None:
                        continue
                    want = tab.get(xml)
                    if want is None:
                        continue
                    if want in keyword.kwlist:
                        want += "_"
                    if py not in (want, want + "_attr"):
                        viol.append([c.name, xml, py, want])
    out["member_name_violations"] = viol
    # generateDS renames via cleanupName: only ':' '-' '.' -> '_' (none occur); keep identity but report
    print(json.dumps(out))


if __name__ == "__main__":
    main()
