"""tr_switch: the shape of the global build-time-validation switch, read from the source with `ast` (never imported):
  - neuroml/build_time_validation.py: how ENABLED is bound ("ENABLED = True/False") and everything that is not provably unrelated
    (imports, classes, decorated functions, functions that mention ENABLED / declare globals / touch module or thread-state
    machinery, other statements) as "other: <source>" / "function f touches ..."; unrelated plain functions, literal constants,
    the docstring and comments are tolerated;
  - the helpers enable_/disable_/get_build_time_validation of neuroml/__init__.py: their bodies without the docstring and
    the logger calls with constant arguments, as "build_time_validation.ENABLED = <bool>" / "return build_time_validation.ENABLED"
    / "other: <source>" (decorators, parameters, a second definition or a later rebinding are reported too);
  - every statement of neuroml/__init__.py that binds the name build_time_validation;
  - every other mention of ENABLED / build_time_validation in the package (tests and examples left out) as "<file>: <use>".
Model/Super.v says what these must be (switch_plain_globalb): a plain module-level bool in a module containing nothing else is
one cell shared by all threads.  Fails closed: unknown shapes are carried into the comparison verbatim.
Output (stdout or argv[1]): JSON."""
import ast
import json
import os
import sys

REPO = os.environ.get("VERIF_REPO", "/repo")
HELPERS = ("disable_build_time_validation", "enable_build_time_validation", "get_build_time_validation")
LOG_LEVELS = ("debug", "info", "warning", "warn", "error", "critical")


def src(n):
    return " ".join(ast.unparse(n).split())[:160].encode("ascii", "backslashreplace").decode()


def is_doc(s):
    return isinstance(s, ast.Expr) and isinstance(s.value, ast.Constant) and isinstance(s.value.value, str)


MACHINERY = {"threading", "_thread", "local", "contextvars", "ContextVar", "property", "types", "ModuleType", "sys", "modules",
             "__class__", "globals", "locals", "vars", "setattr", "delattr", "__dict__", "__getattr__", "__setattr__", "__dir__",
             "importlib", "builtins", "__builtins__", "exec", "eval", "compile", "__import__"}


def touches_switch(n):
    """does the subtree mention ENABLED (name, attribute, string), declare globals, or use module/thread-state machinery"""
    why = set()
    for x in ast.walk(n):
        if isinstance(x, (ast.Global, ast.Nonlocal)):
            why.add("global " + ", ".join(x.names))
        elif isinstance(x, ast.Name) and (x.id == "ENABLED" or x.id in MACHINERY):
            why.add(x.id)
        elif isinstance(x, ast.Attribute) and (x.attr == "ENABLED" or x.attr in MACHINERY):
            why.add("." + x.attr)
        elif isinstance(x, ast.Constant) and isinstance(x.value, str) and x.value == "ENABLED":
            why.add("'ENABLED'")
        elif isinstance(x, (ast.Import, ast.ImportFrom)):
            why.add("import")
    return sorted(why)


def is_literal(e):
    try:
        ast.literal_eval(e)
        return True
    except Exception:  # noqa
        return False


def module_shape(tree):
    """what matters in neuroml/build_time_validation.py: how ENABLED is bound at module level, and anything that could make the
    name something else than a plain module attribute.  Tolerated (not reported): the docstring, comments, `pass`, module-level
    functions without decorators that neither mention ENABLED nor declare globals nor touch module/thread-state machinery
    (MACHINERY), and assignments of literals to other plain names.  Everything else is reported verbatim."""
    out = []
    for i, s in enumerate(tree.body):
        if is_doc(s) or isinstance(s, ast.Pass):
            continue
        if (isinstance(s, ast.Assign) and len(s.targets) == 1 and isinstance(s.targets[0], ast.Name) and s.targets[0].id == "ENABLED"
                and isinstance(s.value, ast.Constant) and type(s.value.value) is bool):
            out.append("ENABLED = %s" % s.value.value)
        elif isinstance(s, ast.FunctionDef) and not s.decorator_list and s.name not in MACHINERY and s.name != "ENABLED":
            why = touches_switch(s)
            if why:
                out.append("function %s touches %s" % (s.name, ", ".join(why)))
        elif (isinstance(s, ast.Assign) and all(isinstance(t, ast.Name) and t.id != "ENABLED" and t.id not in MACHINERY for t in s.targets)
              and is_literal(s.value)):
            continue
        else:
            out.append("other: " + src(s))
    return out


def is_log(s):
    return (isinstance(s, ast.Expr) and isinstance(s.value, ast.Call) and isinstance(s.value.func, ast.Attribute)
            and isinstance(s.value.func.value, ast.Name) and s.value.func.value.id == "logger" and s.value.func.attr in LOG_LEVELS
            and all(isinstance(a, ast.Constant) for a in s.value.args) and not s.value.keywords)


def is_switch_attr(n):
    return (isinstance(n, ast.Attribute) and n.attr == "ENABLED" and isinstance(n.value, ast.Name) and n.value.id == "build_time_validation")


def helper_shape(f):
    out = []
    if f.decorator_list:
        out.append("decorated: " + ", ".join(src(d) for d in f.decorator_list))
    a = f.args
    if a.posonlyargs or a.args or a.vararg or a.kwonlyargs or a.kwarg:
        out.append("parameters: " + src(a))
    if isinstance(f, ast.AsyncFunctionDef):
        out.append("async")
    for i, s in enumerate(f.body):
        if (i == 0 and is_doc(s)) or is_log(s):
            continue
        if (isinstance(s, ast.Assign) and len(s.targets) == 1 and is_switch_attr(s.targets[0]) and isinstance(s.value, ast.Constant)
                and type(s.value.value) is bool):
            out.append("build_time_validation.ENABLED = %s" % s.value.value)
        elif isinstance(s, ast.Return) and s.value is not None and is_switch_attr(s.value):
            out.append("return build_time_validation.ENABLED")
        else:
            out.append("other: " + src(s))
    return out


def bound_names(s):
    """names a statement binds in its own scope"""
    if isinstance(s, (ast.Import, ast.ImportFrom)):
        return [(a.asname or a.name).split(".")[0] for a in s.names]
    if isinstance(s, (ast.FunctionDef, ast.AsyncFunctionDef, ast.ClassDef)):
        return [s.name]
    if isinstance(s, ast.Assign):
        return [n.id for t in s.targets for n in ast.walk(t) if isinstance(n, ast.Name) and isinstance(n.ctx, ast.Store)]
    if isinstance(s, (ast.AugAssign, ast.AnnAssign)):
        return [n.id for n in ast.walk(s.target) if isinstance(n, ast.Name) and isinstance(n.ctx, ast.Store)]
    if isinstance(s, ast.NamedExpr):
        return [s.target.id]
    if isinstance(s, (ast.For, ast.AsyncFor)):
        return [n.id for n in ast.walk(s.target) if isinstance(n, ast.Name)]
    if isinstance(s, (ast.With, ast.AsyncWith)):
        return [n.id for i in s.items if i.optional_vars is not None for n in ast.walk(i.optional_vars) if isinstance(n, ast.Name)]
    if isinstance(s, (ast.Global, ast.Nonlocal)):
        return list(s.names)
    if isinstance(s, ast.Delete):
        return [n.id for t in s.targets for n in ast.walk(t) if isinstance(n, ast.Name) and isinstance(n.ctx, ast.Del)]
    return []


def mentions(tree, skip=()):
    """uses of the switch in a file: imports of the module, reads / writes of <x>.ENABLED, the bare names, and strings (setattr /
    getattr / __dict__ access by name); nodes inside `skip` (the helpers, judged separately) left out"""
    skipped = set()
    for f in skip:
        for n in ast.walk(f):
            skipped.add(id(n))
    out = set()
    for n in ast.walk(tree):
        if id(n) in skipped:
            continue
        if isinstance(n, ast.Import):
            for a in n.names:
                if "build_time_validation" in a.name:
                    out.add("import " + a.name + (" as " + a.asname if a.asname else ""))
        elif isinstance(n, ast.ImportFrom):
            if "build_time_validation" in (n.module or "") or any("build_time_validation" in a.name or a.name == "ENABLED" for a in n.names):
                out.add(src(n))
        elif isinstance(n, ast.Attribute) and n.attr == "ENABLED":
            out.add(("read " if isinstance(n.ctx, ast.Load) else "write " if isinstance(n.ctx, ast.Store) else "del ") + src(n))
        elif isinstance(n, ast.Name) and n.id == "ENABLED":
            out.add("name ENABLED")
        elif isinstance(n, ast.Constant) and isinstance(n.value, str) and n.value in ("ENABLED", "build_time_validation",
                                                                                         "neuroml.build_time_validation"):
            out.add("string %r" % n.value)
        elif isinstance(n, ast.Attribute) and n.attr == "build_time_validation" and isinstance(n.ctx, (ast.Store, ast.Del)):
            out.add("rebinds " + src(n))
    return out


def translate(repo):
    errors = []
    res = {"module": [], "helpers": [], "binding": [], "uses": [], "errors": errors}
    pkg = os.path.join(repo, "neuroml")
    try:
        res["module"] = module_shape(ast.parse(open(os.path.join(pkg, "build_time_validation.py")).read()))
    except Exception as e:  # noqa
        errors.append("build_time_validation.py: %s" % e)
    helper_nodes = []
    init = None
    try:
        init = ast.parse(open(os.path.join(pkg, "__init__.py")).read())
        for h in HELPERS:
            defs = [s for s in init.body if isinstance(s, (ast.FunctionDef, ast.AsyncFunctionDef)) and s.name == h]
            others = [s for s in ast.walk(init) if s not in defs and not isinstance(s, ast.Module) and h in bound_names(s)]
            shape = helper_shape(defs[0]) if defs else ["missing"]
            if len(defs) > 1:
                shape.append("defined %d times" % len(defs))
            shape += ["rebound: " + src(s) for s in others]
            res["helpers"].append([h, shape])
            helper_nodes += defs
        for s in ast.walk(init):
            if not isinstance(s, ast.Module) and "build_time_validation" in bound_names(s):
                res["binding"].append(src(s))
        for s in init.body:
            if isinstance(s, (ast.FunctionDef, ast.AsyncFunctionDef)) and s.name in ("__getattr__", "__dir__"):
                res["binding"].append("module-level " + s.name)
    except Exception as e:  # noqa
        errors.append("__init__.py: %s" % e)
    uses = []
    for root, dirs, files in os.walk(pkg):
        dirs[:] = sorted(d for d in dirs if d not in ("test", "examples", "__pycache__"))
        for fn in sorted(files):
            if not fn.endswith(".py"):
                continue
            path = os.path.join(root, fn)
            rel = os.path.relpath(path, repo)
            if rel == os.path.join("neuroml", "build_time_validation.py"):
                continue
            try:
                text = open(path, encoding="utf-8", errors="replace").read()
                if "ENABLED" not in text and "build_time_validation" not in text:
                    continue
                tree = init if (rel == os.path.join("neuroml", "__init__.py") and init is not None) else ast.parse(text)
            except Exception as e:  # noqa
                errors.append("%s: %s" % (rel, e))
                continue
            skip = helper_nodes if rel == os.path.join("neuroml", "__init__.py") else ()
            for u in mentions(tree, skip):
                if rel == os.path.join("neuroml", "__init__.py") and u == "from . import build_time_validation":
                    continue        # reported under "binding"
                uses.append("%s: %s" % (rel.replace(os.sep, "/"), u))
    res["uses"] = sorted(uses)
    return res


if __name__ == "__main__":
    res = translate(REPO)
    out = json.dumps(res)
    if len(sys.argv) > 1:
        open(sys.argv[1], "w").write(out)
    print(out)
