"""tr_exprs: C12 translator (fail closed).

Reads (never imports the package)
    neuroml/nml/nml.py               (ast)  -- the code that runs
    neuroml/nml/helper_methods.py    (executed by path; MethodSpec sources interpolated as generateDS does)
and symbolically executes the bodies of
    Segment.length / volume / surface_area, Point3DWithDiam.distance_to          -> gprog
    Cell.get_actual_proximal                                                      -> pprog
    Cell.get_segment_length / get_segment_surface_area / get_segment_volume       -> cprog
into terms of the languages of coq/Model/Geom.v.  Both sources are translated; they must give the same terms.
Anything outside the recognised subset raises Fail -> the check records a broken translate obligation.

stdout, last line: JSON {"ok":bool, "error":str?, "coq":str, "table":{name: term}, "sources_agree":bool, "diffs":[..]}
"""
import ast
import json
import os
import sys

REPO = os.environ.get("VERIF_REPO", "/repo")
NML = os.path.join(REPO, "neuroml", "nml")


class Fail(Exception):
    pass


def fail(where, why):
    raise Fail("%s: %s" % (where, why))


# ------------------------------------------------------------------ locating the methods
TRANSLATED = {"Segment": ["length", "volume", "surface_area"], "Point3DWithDiam": ["distance_to"],
              "Cell": ["get_actual_proximal", "get_segment_length", "get_segment_surface_area", "get_segment_volume"]}
ALL_TRANSLATED = {m for ms in TRANSLATED.values() for m in ms}


def class_funcs(body):
    """name -> FunctionDef (the last definition wins, as in Python).  A class-level statement other than a def that binds
    the name of a translated method (e.g.  get_actual_proximal = lru_cache(...)(get_actual_proximal)) is refused."""
    out = {}
    for st in body:
        if isinstance(st, ast.FunctionDef):
            out[st.name] = st
        elif isinstance(st, (ast.Assign, ast.AugAssign, ast.AnnAssign)):
            tg = st.targets if isinstance(st, ast.Assign) else [st.target]
            for t in tg:
                for x in ast.walk(t):
                    if isinstance(x, ast.Name) and x.id in ALL_TRANSLATED:
                        fail("class body", "%s is rebound by an assignment (%s)" % (x.id, ast.unparse(st)[:80]))
    return out


def check_pure_def(cname, fn, want_property):
    """the translated methods must be plain functions of the object's current data: no decorator except @property on the
    Segment properties (a caching / memoising / wrapping decorator makes the result depend on the call history)"""
    decs = [ast.unparse(d) for d in fn.decorator_list]
    want = ["property"] if want_property else []
    if decs != want:
        fail("%s.%s" % (cname, fn.name), "decorators %s, expected %s (the method would no longer be a pure function of the "
             "current data)" % (decs, want))
    for x in ast.walk(fn):
        if isinstance(x, (ast.Global, ast.Nonlocal)):
            fail("%s.%s" % (cname, fn.name), "global/nonlocal statement")
        if isinstance(x, (ast.Lambda, ast.FunctionDef)) and x is not fn:
            fail("%s.%s" % (cname, fn.name), "nested function")


def check_module_patches(tree):
    """module-level  Cell.get_actual_proximal = ...  /  setattr(Cell, ...)  would replace a translated method"""
    for st in tree.body:
        if isinstance(st, (ast.ClassDef, ast.FunctionDef)):
            continue
        for x in ast.walk(st):
            if isinstance(x, ast.Attribute) and isinstance(x.ctx, ast.Store) and isinstance(x.value, ast.Name) \
                    and x.value.id in TRANSLATED and x.attr in TRANSLATED[x.value.id]:
                fail("module", "%s.%s is assigned at module level" % (x.value.id, x.attr))
            if isinstance(x, ast.Call) and isinstance(x.func, ast.Name) and x.func.id in ("setattr", "delattr") and x.args \
                    and isinstance(x.args[0], ast.Name) and x.args[0].id in TRANSLATED:
                fail("module", "%s(%s, ...) at module level" % (x.func.id, x.args[0].id))


def module_math_names(tree):
    """which module-level names are bound to math.pi / math.sqrt / the math module"""
    names = {}
    for st in tree.body:
        if isinstance(st, ast.ImportFrom) and st.module == "math" and st.level == 0:
            for a in st.names:
                if a.name in ("pi", "sqrt"):
                    names[a.asname or a.name] = "math." + a.name
        elif isinstance(st, ast.Import):
            for a in st.names:
                if a.name == "math":
                    names[a.asname or "math"] = "math"
    # a later module-level rebinding of these names would change their meaning: fail closed
    for st in tree.body:
        tg = []
        if isinstance(st, ast.Assign):
            tg = st.targets
        elif isinstance(st, (ast.AugAssign, ast.AnnAssign)):
            tg = [st.target]
        elif isinstance(st, (ast.FunctionDef, ast.ClassDef)):
            if st.name in names:
                fail("module", "name %s rebound by a def/class" % st.name)
        for t in tg:
            if isinstance(t, ast.Name) and t.id in names:
                fail("module", "name %s rebound at module level" % t.id)
    return names


def nml_classes():
    tree = ast.parse(open(os.path.join(NML, "nml.py")).read())
    cl = {}
    for n in tree.body:
        if isinstance(n, ast.ClassDef):
            if n.name in TRANSLATED:
                if n.decorator_list:
                    fail(n.name, "class decorators %s" % [ast.unparse(d) for d in n.decorator_list])
                if sum(1 for m in tree.body if isinstance(m, ast.ClassDef) and m.name == n.name) != 1:
                    fail(n.name, "class defined more than once")
            cl[n.name] = class_funcs(n.body) if n.name in TRANSLATED else {}
    check_module_patches(tree)
    return cl, module_math_names(tree)


def helper_classes(wanted):
    hp = os.path.join(NML, "helper_methods.py")
    ns = {"__name__": "helper_methods_under_verification", "__file__": hp}
    exec(compile(open(hp).read(), hp, "exec"), ns)
    out = {}
    for cname in wanted:
        funcs = {}
        for sp in ns["METHOD_SPECS"]:
            if sp.match_name(cname):
                text = sp.get_interpolated_source({"class_name": cname})
                tree = ast.parse("class _C:\n    pass\n" + text)
                funcs.update(class_funcs(tree.body[0].body))
        out[cname] = funcs
    return out


def is_property(fn):
    return any(isinstance(d, ast.Name) and d.id == "property" for d in fn.decorator_list)


def strip_doc(body):
    body = list(body)
    if body and isinstance(body[0], ast.Expr) and isinstance(getattr(body[0], "value", None), ast.Constant) \
            and isinstance(body[0].value.value, str):
        body = body[1:]
    return body


# ------------------------------------------------------------------ numeric expressions (shared)
PT_ATTR = {"x": 0, "y": 1, "z": 2, "diameter": 3}


def num_const(v, where):
    if isinstance(v, bool):
        fail(where, "boolean literal in arithmetic")
    if isinstance(v, int):
        return ("GInt", v)
    if isinstance(v, float):
        if v != v or v in (float("inf"), float("-inf")):
            fail(where, "non-finite literal")
        if v.is_integer() and abs(v) < 2 ** 53:
            return ("GInt", int(v))
        n, d = v.as_integer_ratio()
        return ("GFrac", n, d)
    fail(where, "literal %r is not a number" % (v,))


BINOP = {ast.Add: "GAdd", ast.Sub: "GSub", ast.Mult: "GMul", ast.Div: "GDiv"}


class NumEval:
    """evaluates Python expression nodes to symbolic values; subclasses add the object model"""

    def __init__(self, where, mathnames):
        self.where = where
        self.math = mathnames

    def num(self, node, env):
        v = self.ev(node, env)
        if v[0] != "num":
            fail(self.where, "expected a number, got %s in %s" % (v[0], ast.unparse(node)))
        return v[1]

    def ev(self, node, env):
        if isinstance(node, ast.Constant):
            if node.value is None:
                return ("none",)
            return ("num", num_const(node.value, self.where))
        if isinstance(node, ast.Name):
            if node.id in env:
                return env[node.id]
            if self.math.get(node.id) == "math.pi":
                return ("num", ("GPi",))
            fail(self.where, "unknown name %s" % node.id)
        if isinstance(node, ast.Attribute):
            if isinstance(node.value, ast.Name) and node.value.id not in env and self.math.get(node.value.id) == "math":
                if node.attr == "pi":
                    return ("num", ("GPi",))
                fail(self.where, "math.%s used as a value" % node.attr)
            return self.attr(self.ev(node.value, env), node.attr, node)
        if isinstance(node, ast.BinOp):
            if isinstance(node.op, ast.Pow):
                a = self.num(node.left, env)
                r = node.right
                if not isinstance(r, ast.Constant) or isinstance(r.value, bool) or not isinstance(r.value, (int, float)):
                    fail(self.where, "exponent is not a literal: %s" % ast.unparse(node))
                if isinstance(r.value, float) and r.value == 0.5:
                    return ("num", ("GPowHalf", a))
                if float(r.value).is_integer() and 1 <= r.value <= 8:
                    return ("num", ("GPow", a, int(r.value)))
                fail(self.where, "unsupported exponent %r" % (r.value,))
            k = BINOP.get(type(node.op))
            if k is None:
                fail(self.where, "operator %s" % type(node.op).__name__)
            return ("num", (k, self.num(node.left, env), self.num(node.right, env)))
        if isinstance(node, ast.UnaryOp):
            if isinstance(node.op, ast.USub):
                return ("num", ("GNeg", self.num(node.operand, env)))
            if isinstance(node.op, ast.UAdd):
                return ("num", self.num(node.operand, env))
            fail(self.where, "unary %s" % type(node.op).__name__)
        if isinstance(node, ast.Call):
            return self.call(node, env)
        fail(self.where, "expression %s" % type(node).__name__)

    def is_sqrt(self, f, env):
        if isinstance(f, ast.Name) and f.id not in env and self.math.get(f.id) == "math.sqrt":
            return True
        if isinstance(f, ast.Attribute) and isinstance(f.value, ast.Name) and f.value.id not in env \
                and self.math.get(f.value.id) == "math" and f.attr == "sqrt":
            return True
        return False

    def call(self, node, env):
        if self.is_sqrt(node.func, env):
            if len(node.args) != 1 or node.keywords:
                fail(self.where, "sqrt arity")
            return ("num", ("GSqrt", self.num(node.args[0], env)))
        fail(self.where, "call %s" % ast.unparse(node.func))

    def attr(self, base, name, node):
        if base[0] == "pt" and name in PT_ATTR:
            return ("num", ("GVar", base[1] + PT_ATTR[name]))
        fail(self.where, "attribute .%s of %s" % (name, base[0]))

    # ---- conditions
    def cond(self, node, env):
        if isinstance(node, ast.BoolOp):
            k = "CAnd" if isinstance(node.op, ast.And) else "COr"
            cs = [self.cond(v, env) for v in node.values]
            out = cs[0]
            for c in cs[1:]:
                out = (k, out, c)
            return out
        if isinstance(node, ast.UnaryOp) and isinstance(node.op, ast.Not):
            return ("CNot", self.cond(node.operand, env))
        if isinstance(node, ast.Compare):
            if len(node.ops) != 1:
                fail(self.where, "chained comparison")
            op = node.ops[0]
            a = self.ev(node.left, env)
            b = self.ev(node.comparators[0], env)
            if isinstance(op, (ast.Eq, ast.Is)):
                neg = False
            elif isinstance(op, (ast.NotEq, ast.IsNot)):
                neg = True
            else:
                fail(self.where, "comparison %s" % type(op).__name__)
            if b[0] == "none" or a[0] == "none":
                o = a if b[0] == "none" else b
                if o[0] == "pt" and len(o) > 2 and o[2] == "maybe-none":
                    return ("CNot", ("CNoProx",)) if neg else ("CNoProx",)
                fail(self.where, "comparison of %s with None" % o[0])
            if isinstance(op, (ast.Is, ast.IsNot)):
                fail(self.where, "'is' between numbers")
            if a[0] == "num" and b[0] == "num":
                return ("CNe" if neg else "CEq", a[1], b[1])
            fail(self.where, "comparison between %s and %s" % (a[0], b[0]))
        fail(self.where, "condition %s" % ast.unparse(node))


def prune(p, facts):
    """drop tests whose outcome is fixed by an enclosing identical test"""
    if p[0] != "PIf":
        return p
    c = p[1]
    for fc, tv in facts:
        if fc == c:
            return prune(p[2] if tv else p[3], facts)
    return ("PIf", c, prune(p[2], facts + [(c, True)]), prune(p[3], facts + [(c, False)]))


def prog_bind(p, k):
    if p[0] == "PRet":
        return k(p[1])
    if p[0] == "PRaise":
        return p
    return ("PIf", p[1], prog_bind(p[2], k), prog_bind(p[3], k))


# ------------------------------------------------------------------ segment-level methods -> gprog
class SegLevel(NumEval):
    def __init__(self, cname, funcs, mathnames, kind):
        NumEval.__init__(self, cname, mathnames)
        self.cname = cname
        self.funcs = funcs
        self.kind = kind  # "segment": self has .proximal/.distal ; "point": self is the point itself
        self.depth = 0

    def attr(self, base, name, node):
        if base[0] == "self":
            if self.kind == "segment":
                if name == "proximal":
                    return ("pt", 0, "maybe-none")
                if name == "distal":
                    return ("pt", 4)
                fn = self.funcs.get(name)
                if fn is not None and is_property(fn):
                    return ("prog", self.method(name))
                fail(self.where, "self.%s" % name)
            if name in PT_ATTR:
                return ("num", ("GVar", PT_ATTR[name]))
            fail(self.where, "self.%s" % name)
        return NumEval.attr(self, base, name, node)

    def method(self, name):
        fn = self.funcs.get(name)
        if fn is None:
            fail(self.cname, "method %s not found" % name)
        check_pure_def(self.cname, fn, want_property=(self.kind == "segment"))
        self.depth += 1
        if self.depth > 4:
            fail(self.cname, "property recursion")
        old = self.where
        self.where = "%s.%s" % (self.cname, name)
        a = fn.args
        params = [x.arg for x in a.args]
        if a.vararg or a.kwarg or a.kwonlyargs or a.defaults or a.posonlyargs:
            fail(self.where, "unsupported signature")
        env = {params[0]: ("self",)}
        if self.kind == "point":
            if len(params) != 2:
                fail(self.where, "expected (self, other)")
            env[params[1]] = ("pt", 4)
        elif len(params) != 1:
            fail(self.where, "expected (self)")
        p = self.block(strip_doc(fn.body), env)
        self.where = old
        self.depth -= 1
        return prune(p, [])

    def block(self, stmts, env):
        if not stmts:
            fail(self.where, "control reaches the end of the method without return")
        s, rest = stmts[0], stmts[1:]
        if isinstance(s, ast.Expr) and isinstance(s.value, ast.Constant) and isinstance(s.value.value, str):
            return self.block(rest, env)
        if isinstance(s, ast.Pass):
            return self.block(rest, env)
        if isinstance(s, ast.Raise):
            return ("PRaise",)
        if isinstance(s, ast.Return):
            if s.value is None:
                fail(self.where, "bare return")
            v = self.ev(s.value, env)
            if v[0] == "prog":
                return v[1]
            if v[0] != "num":
                fail(self.where, "returns %s" % v[0])
            return ("PRet", v[1])
        if isinstance(s, ast.Assign):
            if len(s.targets) != 1 or not isinstance(s.targets[0], ast.Name):
                fail(self.where, "assignment target %s" % ast.unparse(s.targets[0]))
            name = s.targets[0].id
            v = self.ev(s.value, env)
            if v[0] == "prog":
                return prog_bind(v[1], lambda e: self.block(rest, dict(env, **{name: ("num", e)})))
            if v[0] not in ("num", "pt"):
                fail(self.where, "assigns %s" % v[0])
            return self.block(rest, dict(env, **{name: v}))
        if isinstance(s, ast.If):
            c = self.cond(s.test, env)
            return ("PIf", c, self.block(list(s.body) + rest, env), self.block(list(s.orelse) + rest, env))
        fail(self.where, "statement %s" % type(s).__name__)


# ------------------------------------------------------------------ Cell.get_actual_proximal -> pprog, getters -> cprog
SEG_METHODS = {"length": "MLength", "surface_area": "MArea", "volume": "MVolume"}


class CellLevel(NumEval):
    def __init__(self, funcs, mathnames, mode):
        NumEval.__init__(self, "Cell", mathnames)
        self.funcs = funcs
        self.mode = mode  # "actual" | "getter"

    def attr(self, base, name, node):
        k = base[0]
        if k == "seg":
            if name == "proximal":
                return ("ownprox",)
            if name == "distal":
                return ("sel", "SelDistal")
            if name == "parent":
                return ("parentref",)
            if name in SEG_METHODS and self.mode == "getter":
                return ("cprog", ("CPSeg", SEG_METHODS[name], "SelOwnProx", "SelDistal"))
        if k == "parentref":
            if name == "segments":
                return ("parentid",)
            if name == "fraction_along":
                return ("fractraw",)
        if k == "parseg" and name == "distal":
            return ("pt", 5, "pd")
        if k == "rec" and name in PT_ATTR:
            return ("num", ("GVar", 1 + PT_ATTR[name]))
        if k == "newseg" and name in SEG_METHODS:
            return ("cprog", ("CPSeg", SEG_METHODS[name], base[1], base[2]))
        return NumEval.attr(self, base, name, node)

    def sel(self, v):
        if v[0] == "sel":
            return v[1]
        if v[0] == "ownprox":
            return "SelOwnProx"
        if v[0] == "actual":
            return "SelActual"
        fail(self.where, "%s is not a point of the segment" % v[0])

    def call(self, node, env):
        f = node.func
        if isinstance(f, ast.Name) and f.id == "float" and f.id not in env and len(node.args) == 1 and not node.keywords:
            v = self.ev(node.args[0], env)
            if v[0] == "fractraw":
                return ("num", ("GVar", 0))
            fail(self.where, "float(%s)" % v[0])
        if isinstance(f, ast.Name) and f.id == "Point3DWithDiam" and f.id not in env:
            if node.args:
                fail(self.where, "positional arguments to Point3DWithDiam")
            d = {"x": None, "y": None, "z": None, "diameter": None}
            for kw in node.keywords:
                if kw.arg not in d:
                    fail(self.where, "Point3DWithDiam(%s=...)" % kw.arg)
                d[kw.arg] = self.num(kw.value, env)
            return ("newpt", d)
        if isinstance(f, ast.Name) and f.id == "Segment" and f.id not in env and self.mode == "getter":
            if node.args:
                fail(self.where, "positional arguments to Segment")
            d = {}
            for kw in node.keywords:
                if kw.arg not in ("proximal", "distal"):
                    fail(self.where, "Segment(%s=...)" % kw.arg)
                d[kw.arg] = self.sel(self.ev(kw.value, env))
            if set(d) != {"proximal", "distal"}:
                fail(self.where, "temporary Segment needs proximal and distal")
            return ("newseg", d["proximal"], d["distal"])
        if isinstance(f, ast.Attribute):
            base = self.ev(f.value, env)
            if base[0] == "cell" and len(node.args) == 1 and not node.keywords:
                a = self.ev(node.args[0], env)
                if f.attr == "get_segment":
                    if a[0] == "segid":
                        return ("seg",)
                    if a[0] == "parentid" and self.mode == "actual":
                        return ("parseg",)
                if f.attr == "get_actual_proximal":
                    if a[0] == "parentid" and self.mode == "actual":
                        return ("rec",)
                    if a[0] == "segid" and self.mode == "getter":
                        return ("actual",)
                fail(self.where, "self.%s(%s)" % (f.attr, a[0]))
            if f.attr == "distance_to" and self.mode == "getter" and len(node.args) == 1 and not node.keywords:
                return ("cprog", ("CPDist", self.sel(base), self.sel(self.ev(node.args[0], env))))
        return NumEval.call(self, node, env)

    def translate(self, name):
        fn = self.funcs.get(name)
        if fn is None:
            fail("Cell", "method %s not found" % name)
        check_pure_def("Cell", fn, want_property=False)
        self.where = "Cell." + name
        a = fn.args
        params = [x.arg for x in a.args]
        if len(params) != 2 or a.vararg or a.kwarg or a.kwonlyargs or a.defaults or a.posonlyargs:
            fail(self.where, "expected (self, segment_id)")
        env = {params[0]: ("cell",), params[1]: ("segid",)}
        return self.block(strip_doc(fn.body), env, False, False)

    def uses_rec(self, g):
        if isinstance(g, tuple):
            if g[0] == "GVar":
                return 1 <= g[1] <= 4
            return any(self.uses_rec(x) for x in g[1:])
        return False

    def block(self, stmts, env, rec_called, parent_needed):
        if not stmts:
            fail(self.where, "control reaches the end of the method without return")
        s, rest = stmts[0], stmts[1:]
        if isinstance(s, ast.Expr) and isinstance(s.value, ast.Constant) and isinstance(s.value.value, str):
            return self.block(rest, env, rec_called, parent_needed)
        if isinstance(s, ast.Raise):
            return ("PPRaise",) if self.mode == "actual" else ("CPRaise",)
        if isinstance(s, ast.Assign):
            if len(s.targets) != 1:
                fail(self.where, "multiple assignment")
            t = s.targets[0]
            v = self.ev(s.value, env)
            if isinstance(t, ast.Name):
                if v[0] == "rec":
                    rec_called = True
                return self.block(rest, dict(env, **{t.id: v}), rec_called, parent_needed)
            if isinstance(t, ast.Attribute) and isinstance(t.value, ast.Name) and env.get(t.value.id, ("?",))[0] == "newpt" \
                    and t.attr in PT_ATTR:
                if v[0] != "num":
                    fail(self.where, "point coordinate is %s" % v[0])
                d = dict(env[t.value.id][1])
                d[t.attr] = v[1]
                return self.block(rest, dict(env, **{t.value.id: ("newpt", d)}), rec_called, parent_needed)
            fail(self.where, "assignment target %s" % ast.unparse(t))
        if isinstance(s, ast.If):
            tv = self.ev(s.test, env) if isinstance(s.test, (ast.Attribute, ast.Name)) else None
            if tv is not None and tv[0] == "ownprox":
                k = "PPIfProx" if self.mode == "actual" else "CPIfProx"
                return (k, self.block(list(s.body) + rest, dict(env, __hasprox=("yes",)), rec_called, parent_needed),
                        self.block(list(s.orelse) + rest, dict(env, __hasprox=("no",)), rec_called, parent_needed))
            if self.mode != "actual":
                fail(self.where, "test %s" % ast.unparse(s.test))
            c = self.cond(s.test, env)
            return ("PPIf", c, self.block(list(s.body) + rest, env, rec_called, parent_needed),
                    self.block(list(s.orelse) + rest, env, rec_called, parent_needed))
        if isinstance(s, ast.Return):
            if s.value is None:
                fail(self.where, "bare return")
            v = self.ev(s.value, env)
            if self.mode == "getter":
                if v[0] != "cprog":
                    fail(self.where, "returns %s" % v[0])
                return v[1]
            if v[0] == "ownprox":
                out = ("PPRetOwnProx",)
            elif v[0] == "pt" and len(v) > 2 and v[2] == "pd":
                out = ("PPRetParentDistal",)
            elif v[0] == "rec":
                return ("PPRetRec",)
            elif v[0] == "newpt":
                d = v[1]
                for k in ("x", "y", "z", "diameter"):
                    if d[k] is None:
                        fail(self.where, "returned point has no %s" % k)
                if rec_called and not any(self.uses_rec(d[k]) for k in d):
                    fail(self.where, "recursive result computed but unused")
                return ("PPRetNew", d["x"], d["y"], d["z"], d["diameter"])
            else:
                fail(self.where, "returns %s" % v[0])
            if rec_called:
                fail(self.where, "recursive result computed but not used on this path")
            return out
        fail(self.where, "statement %s" % type(s).__name__)


# ------------------------------------------------------------------ printing
def coq(t):
    if isinstance(t, tuple):
        h = t[0]
        if h == "GVar":
            return "(GVar %d%%nat)" % t[1]
        if h == "GInt":
            return "(GInt (%d)%%Z)" % t[1]
        if h == "GFrac":
            return "(GFrac (%d)%%Z %d%%positive)" % (t[1], t[2])
        if h == "GPow":
            return "(GPow %s %d%%nat)" % (coq(t[1]), t[2])
        if len(t) == 1:
            return h
        return "(" + h + " " + " ".join(coq(x) for x in t[1:]) + ")"
    if isinstance(t, str):
        return t
    raise Fail("cannot print %r" % (t,))


NAMES = ["g_length", "g_volume", "g_area", "g_distance", "g_actual", "g_cell_length", "g_cell_area", "g_cell_volume"]


def translate_all(seg_funcs, pt_funcs, cell_funcs, mathnames):
    sl = SegLevel("Segment", seg_funcs, mathnames, "segment")
    pl = SegLevel("Point3DWithDiam", pt_funcs, mathnames, "point")
    for n in ("length", "volume", "surface_area"):
        if n not in seg_funcs or not is_property(seg_funcs[n]):
            fail("Segment", "%s is not a property" % n)
    t = {}
    t["g_length"] = sl.method("length")
    t["g_volume"] = sl.method("volume")
    t["g_area"] = sl.method("surface_area")
    t["g_distance"] = pl.method("distance_to")
    t["g_actual"] = CellLevel(cell_funcs, mathnames, "actual").translate("get_actual_proximal")
    t["g_cell_length"] = CellLevel(cell_funcs, mathnames, "getter").translate("get_segment_length")
    t["g_cell_area"] = CellLevel(cell_funcs, mathnames, "getter").translate("get_segment_surface_area")
    t["g_cell_volume"] = CellLevel(cell_funcs, mathnames, "getter").translate("get_segment_volume")
    return t


def main():
    out = {"ok": False}
    try:
        ncl, mathnames = nml_classes()
        for c in ("Segment", "Point3DWithDiam", "Cell"):
            if c not in ncl:
                fail("nml.py", "class %s not found" % c)
        tn = translate_all(ncl["Segment"], ncl["Point3DWithDiam"], ncl["Cell"], mathnames)
        out["table"] = tn
        lines = ["(* generated by translators/tr_exprs.py from %s -- do not edit *)" % os.path.join(NML, "nml.py"),
                 "From Coq Require Import ZArith List.", "From LNML Require Import Model.Geom.", "Import ListNotations.", ""]
        for n in NAMES:
            ty = "gprog" if n in ("g_length", "g_volume", "g_area", "g_distance") else ("pprog" if n == "g_actual" else "cprog")
            lines.append("Definition src_%s : %s :=\n  %s.\n" % (n[2:], ty, coq(tn[n])))
        lines.append("Definition table : geom_table :=\n  MkGeom %s.\n" % " ".join("src_" + n[2:] for n in NAMES))
        out["coq"] = "\n".join(lines)
        out["ok"] = True
        # the same methods from helper_methods.py (the source the bindings are regenerated from)
        try:
            hcl = helper_classes(["Segment", "Point3DWithDiam", "Cell"])
            th = translate_all(hcl["Segment"], hcl["Point3DWithDiam"], hcl["Cell"], mathnames)
            diffs = [n for n in NAMES if th[n] != tn[n]]
            out["sources_agree"] = not diffs
            out["diffs"] = [{"term": n, "nml": coq(tn[n]), "helper_methods": coq(th[n])} for n in diffs]
        except Fail as e:
            out["sources_agree"] = False
            out["diffs"] = [{"term": "helper_methods.py", "error": str(e)}]
    except Fail as e:
        out["error"] = str(e)
    except RecursionError:
        out["error"] = "translator recursion limit"
    print(json.dumps(out))


if __name__ == "__main__":
    main()
