"""C18 static facts, read from the working tree with python ast (fail closed):
  * the `mode` of every  *.open_file(...)  call in ArrayMorphWriter (writers.py) and ArrayMorphLoader (loaders.py)
  * every attribute the classes SegmentList and ArrayMorphology (arraymorph.py) assign on `self` (any method),
    including augmented / annotated assignments, setattr(self, "..."), and self.__dict__ writes (reported as "__dict__")
Prints one JSON document on the last stdout line.  Anything it cannot classify is reported under "unknown" and makes
the obligation false."""
import ast
import json
import os
import sys

REPO = os.environ.get("VERIF_REPO", "/repo")


def class_node(path, name):
    tree = ast.parse(open(path).read())
    for n in ast.walk(tree):
        if isinstance(n, ast.ClassDef) and n.name == name:
            return n
    raise SystemExit("class %s not found in %s" % (name, path))


def open_modes(cls):
    modes, unknown = [], []
    for n in ast.walk(cls):
        if isinstance(n, ast.Call):
            f = n.func
            fname = f.attr if isinstance(f, ast.Attribute) else f.id if isinstance(f, ast.Name) else None
            if fname in ("open_file", "openFile", "open", "File"):
                mode = None
                for kw in n.keywords:
                    if kw.arg == "mode":
                        mode = kw.value
                if mode is None and len(n.args) >= 2:
                    mode = n.args[1]
                if mode is None:
                    modes.append("r")        # PyTables' and open()'s default
                elif isinstance(mode, ast.Constant) and isinstance(mode.value, str):
                    modes.append(mode.value)
                else:
                    unknown.append("open mode is not a string literal at line %d" % n.lineno)
    return modes, unknown


def open_guarded(cls):
    """every open_file call of the class is either a `with` item or the value of an assignment  h = open_file(...)  whose
    next statement (docstrings / pass aside) is  try: ... finally: h.close()  - nothing that can raise in between"""
    problems = []
    calls = [n for n in ast.walk(cls) if isinstance(n, ast.Call) and
             ((isinstance(n.func, ast.Attribute) and n.func.attr == "open_file") or
              (isinstance(n.func, ast.Name) and n.func.id == "open_file"))]
    ok_calls = set()
    for n in ast.walk(cls):
        if isinstance(n, (ast.With, ast.AsyncWith)):
            for it in n.items:
                if it.context_expr in calls:
                    ok_calls.add(id(it.context_expr))
        for field in ("body", "orelse", "finalbody"):
            body = getattr(n, field, None)
            if not isinstance(body, list):
                continue
            for i, st in enumerate(body):
                if isinstance(st, ast.Assign) and st.value in calls and len(st.targets) == 1 and isinstance(st.targets[0], ast.Name):
                    h = st.targets[0].id
                    j = i + 1
                    while j < len(body) and (isinstance(body[j], ast.Pass) or
                                             (isinstance(body[j], ast.Expr) and isinstance(body[j].value, ast.Constant))):
                        j += 1
                    nxt = body[j] if j < len(body) else None
                    closes = isinstance(nxt, ast.Try) and any(
                        isinstance(c, ast.Call) and isinstance(c.func, ast.Attribute) and c.func.attr == "close"
                        and isinstance(c.func.value, ast.Name) and c.func.value.id == h
                        for f in nxt.finalbody for c in ast.walk(f))
                    if closes:
                        ok_calls.add(id(st.value))
                    else:
                        problems.append("line %d: %s = open_file(...) is not immediately followed by try/finally: %s.close()"
                                        % (st.lineno, h, h))
    for c in calls:
        if id(c) not in ok_calls and not any(("line %d:" % c.lineno) in p for p in problems):
            problems.append("line %d: open_file(...) result is neither a with-item nor assigned to a guarded name" % c.lineno)
    return (not problems and bool(calls)), problems


def self_writes(cls):
    names, unknown = set(), []

    def target(t, lineno):
        if isinstance(t, (ast.Tuple, ast.List)):
            for e in t.elts:
                target(e, lineno)
        elif isinstance(t, ast.Starred):
            target(t.value, lineno)
        elif isinstance(t, ast.Attribute) and isinstance(t.value, ast.Name) and t.value.id == "self":
            names.add(t.attr)
        elif isinstance(t, ast.Subscript):
            v = t.value
            if isinstance(v, ast.Attribute) and isinstance(v.value, ast.Name) and v.value.id == "self" and v.attr == "__dict__":
                names.add("__dict__")

    for n in ast.walk(cls):
        if isinstance(n, ast.Assign):
            for t in n.targets:
                target(t, n.lineno)
        elif isinstance(n, (ast.AugAssign, ast.AnnAssign)):
            target(n.target, n.lineno)
        elif isinstance(n, (ast.For, ast.AsyncFor)):
            target(n.target, n.lineno)
        elif isinstance(n, ast.NamedExpr):
            target(n.target, n.lineno)
        elif isinstance(n, (ast.With, ast.AsyncWith)):
            for it in n.items:
                if it.optional_vars is not None:
                    target(it.optional_vars, n.lineno)
        elif isinstance(n, ast.Call):
            f = n.func
            if isinstance(f, ast.Name) and f.id == "setattr" and n.args and isinstance(n.args[0], ast.Name) and n.args[0].id == "self":
                if len(n.args) >= 2 and isinstance(n.args[1], ast.Constant) and isinstance(n.args[1].value, str):
                    names.add(n.args[1].value)
                else:
                    unknown.append("setattr(self, <computed>) at line %d" % n.lineno)
            if isinstance(f, ast.Attribute) and f.attr in ("update", "setdefault", "__setattr__") and isinstance(f.value, ast.Attribute) \
                    and isinstance(f.value.value, ast.Name) and f.value.value.id == "self" and f.value.attr == "__dict__":
                names.add("__dict__")
            if isinstance(f, ast.Attribute) and f.attr == "__setattr__" and isinstance(f.value, ast.Name) and f.value.id == "self":
                unknown.append("self.__setattr__ at line %d" % n.lineno)
    return sorted(names), unknown


def main():
    w = class_node(os.path.join(REPO, "neuroml", "writers.py"), "ArrayMorphWriter")
    l = class_node(os.path.join(REPO, "neuroml", "loaders.py"), "ArrayMorphLoader")
    sl = class_node(os.path.join(REPO, "neuroml", "arraymorph.py"), "SegmentList")
    amc = class_node(os.path.join(REPO, "neuroml", "arraymorph.py"), "ArrayMorphology")
    wm, u1 = open_modes(w)
    lm, u2 = open_modes(l)
    sw, u3 = self_writes(sl)
    aw, u4 = self_writes(amc)
    guarded, gp = open_guarded(w)
    print(json.dumps({"writer_open_guarded": guarded, "writer_open_problems": gp, "writer_modes": wm, "loader_modes": lm, "segmentlist_writes": sw, "arraymorph_writes": aw,
                      "unknown": u1 + u2 + u3 + u4}))


if __name__ == "__main__":
    main()
