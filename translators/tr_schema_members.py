"""tr_schema_members: what the bundled XSD declares for every attribute and child element of every complex type
(type, required, list nature), inherited declarations included.  lxml is used only as an XML parser; the walk
below fails closed on any schema construct it does not know (reported in "errors").

Effective occurrence of an element = product of the occurrence ranges of the particles it sits in
(sequence / all / choice / group reference); membership in an xs:choice makes the minimum 0 (one alternative
is taken, none is individually required).  An attribute is required iff use="required".

stdout (or argv[1]): {"schema": file name, "classes": [{"name", "base", "decls": [...own...], "all": [...inherited first...]}],
                      "simple_base": {simple type: restricted type}, "errors": [...]}
decl = {"xml": name ("__ANY__" for xs:any), "is_attr", "type", "required" (effective), "required_literal" (the
        declaration's own minOccurs >= 1 / use), "list" (effective), "in_choice", "fixed"}
"""
import glob
import json
import os
import re
import sys

from lxml import etree

REPO = os.environ.get("VERIF_REPO", "/repo")
XS = "{http://www.w3.org/2001/XMLSchema}"


def schema_path():
    """the schema generateDS was run on: named in the header of nml.py"""
    head = open(os.path.join(REPO, "neuroml", "nml", "nml.py")).read(6000)
    m = re.search(r"(NeuroML_v[0-9.]+\.xsd)", head)
    if not m:
        raise SystemExit("schema name not found in nml.py header")
    return os.path.join(REPO, "neuroml", "nml", m.group(1))


def occ(el, errors, where):
    lo = el.get("minOccurs", "1")
    hi = el.get("maxOccurs", "1")
    if not lo.isdigit() or not (hi.isdigit() or hi == "unbounded"):
        errors.append("%s: occurrence %r..%r" % (where, lo, hi))
        return 1, 1
    return int(lo), (None if hi == "unbounded" else int(hi))


def mul(a, b):
    lo = a[0] * b[0]
    hi = None if (a[1] is None or b[1] is None) else a[1] * b[1]
    if (a[1] == 0) or (b[1] == 0):
        hi = 0
    return lo, hi


def walk(el, rng, in_choice, groups, out, errors, where):
    """collect element declarations below a particle"""
    tag = el.tag.replace(XS, "") if isinstance(el.tag, str) else None
    if tag is None or tag == "annotation":
        return
    if tag in ("sequence", "all", "choice"):
        r = mul(rng, occ(el, errors, where))
        ch = in_choice or tag == "choice"
        if tag == "choice":
            r = (0, r[1])
        for k in el:
            walk(k, r, ch, groups, out, errors, where)
        return
    if tag == "group":
        ref = el.get("ref")
        if ref is None or ref not in groups:
            errors.append("%s: group %r" % (where, ref))
            return
        r = mul(rng, occ(el, errors, where))
        g = groups[ref]
        kids = [k for k in g if isinstance(k.tag, str) and k.tag != XS + "annotation"]
        if len(kids) != 1:
            errors.append("%s: group %s content" % (where, ref))
            return
        walk(kids[0], r, in_choice, groups, out, errors, where + ">group " + ref)
        return
    if tag == "element":
        extra = set(el.attrib) - {"name", "type", "minOccurs", "maxOccurs"}
        if extra or el.get("name") is None or el.get("type") is None or len([k for k in el if k.tag != XS + "annotation"]):
            errors.append("%s: element shape %s %s" % (where, el.get("name"), sorted(extra)))
            return
        own = occ(el, errors, where)
        r = mul(rng, own)
        out.append({"xml": el.get("name"), "is_attr": False, "type": el.get("type"), "required": r[0] >= 1,
                    "required_literal": own[0] >= 1,
                    "list": r[1] is None or r[1] > 1, "in_choice": in_choice, "fixed": None})
        return
    if tag == "any":
        own = occ(el, errors, where)
        r = mul(rng, own)
        out.append({"xml": "__ANY__", "is_attr": False, "type": "__ANY__", "required": r[0] >= 1,
                    "required_literal": own[0] >= 1,
                    "list": r[1] is None or r[1] > 1, "in_choice": in_choice, "fixed": None})
        return
    errors.append("%s: unknown particle <%s>" % (where, tag))


def attributes(holder, out, errors, where):
    for a in holder:
        if a.tag != XS + "attribute":
            continue
        extra = set(a.attrib) - {"name", "type", "use", "default", "fixed"}
        if extra or a.get("name") is None:
            errors.append("%s: attribute shape %s" % (where, sorted(a.attrib)))
            continue
        use = a.get("use", "optional")
        if use not in ("required", "optional"):
            errors.append("%s: attribute use %r" % (where, use))
        typ = a.get("type")
        if typ is None:
            # anonymous/absent type: xs:anySimpleType; generateDS records xs:string
            typ = "xs:string"
        out.append({"xml": a.get("name"), "is_attr": True, "type": typ, "required": use == "required", "required_literal": use == "required",
                    "list": False, "in_choice": False, "fixed": a.get("fixed")})


def translate(path):
    errors = []
    root = etree.parse(path).getroot()
    groups, ctypes, simple = {}, {}, {}
    for el in root:
        if not isinstance(el.tag, str):
            continue
        tag = el.tag.replace(XS, "")
        if tag == "group":
            groups[el.get("name")] = el
        elif tag == "complexType":
            if el.get("name") in ctypes:
                errors.append("complex type %s declared twice" % el.get("name"))
            ctypes[el.get("name")] = el
        elif tag == "simpleType":
            rs = [k for k in el if k.tag == XS + "restriction"]
            if len(rs) != 1 or rs[0].get("base") is None:
                errors.append("simple type %s: not a restriction" % el.get("name"))
            else:
                simple[el.get("name")] = rs[0].get("base")
        elif tag in ("element", "annotation"):
            pass
        else:
            errors.append("top-level <%s>" % tag)
    classes = []
    order = []
    for name, el in ctypes.items():
        where = name
        base = None
        holder = el
        kids = [k for k in el if isinstance(k.tag, str) and k.tag != XS + "annotation"]
        if len(kids) == 1 and kids[0].tag == XS + "complexContent":
            ext = [k for k in kids[0] if isinstance(k.tag, str)]
            if len(ext) != 1 or ext[0].tag != XS + "extension":
                errors.append("%s: complexContent without a single extension" % where)
                continue
            holder = ext[0]
            base = holder.get("base")
        decls = []
        for k in holder:
            if not isinstance(k.tag, str):
                continue
            t = k.tag.replace(XS, "")
            if t in ("sequence", "all", "choice", "group"):
                walk(k, (1, 1), False, groups, decls, errors, where)
            elif t in ("attribute", "annotation"):
                pass
            else:
                errors.append("%s: unknown content <%s>" % (where, t))
        own_attrs = []
        attributes(holder, own_attrs, errors, where)
        classes.append({"name": name, "base": base, "decls": own_attrs + decls})
        order.append(name)
    byname = {c["name"]: c for c in classes}

    def inherited(n, seen=()):
        c = byname.get(n)
        if c is None:
            errors.append("base type %s not found" % n)
            return []
        if n in seen:
            errors.append("cyclic extension at %s" % n)
            return []
        up = inherited(c["base"], seen + (n,)) if c["base"] else []
        return up + c["decls"]

    for c in classes:
        c["all"] = inherited(c["name"])
    return {"schema": os.path.basename(path), "classes": classes, "simple_base": simple, "errors": errors}


if __name__ == "__main__":
    res = translate(schema_path())
    out = json.dumps(res)
    if len(sys.argv) > 1:
        open(sys.argv[1], "w").write(out)
        print(json.dumps({"classes": len(res["classes"]), "errors": res["errors"][:50]}))
    else:
        print(out)
