"""tr_schema: fail-closed translator of the bundled NeuroML XSD into a JSON table (written to argv[1] or stdout).

Reads  $VERIF_REPO/neuroml/nml/NeuroML_<current>.xsd  where <current> is `current_neuroml_version` of
neuroml/__version__.py (read with ast, the package is never imported).  Pure function of the working tree.

Output:
  version, file, target_ns, root: [element name, type]
  ctypes:  [{name, base, attrs: [{name, type, required, default, fixed}], content}]      (own attributes / own content)
  content: null | particle,   particle =
           ["elem", tag, type, lo, hi] | ["seq", [p..]] | ["choice", lo, hi, [p..]] | ["all", [p..]] | ["any", lo, hi]
           (hi = null: unbounded; group references are expanded in place)
  stypes:  [{name, prim, enums: [str], patterns: [regex], pattern_src: [str], facets: [[kind, decimal string]]}]
           prim in {string, anyURI, float, double, nonNegativeInteger, positiveInteger}; builtin types used directly by
           attributes appear as simple types named "xs:<prim>" without facets
  regex:   ["eps"] | ["sym", [[lo, hi]..]] | ["cat", r, s] | ["alt", r, s] | ["star", r]     (code point ranges)
  errors:  every construct outside the recognised shapes, as  <where>: <reason>   (nothing is guessed)

The regex parser (parse_regex) is shared with lib/schemagen.py, which uses it for the Python patterns of the
generated validators (dialect="py": \\s is Python's Unicode whitespace restricted to ASCII).
"""
import ast
import json
import os
import re
import sys

REPO = os.environ.get("VERIF_REPO", "/repo")
XS = "{http://www.w3.org/2001/XMLSchema}"
PRIMS = ("string", "anyURI", "float", "double", "nonNegativeInteger", "positiveInteger")


class Bad(Exception):
    pass


# ----------------------------------------------------------------------------- regular expressions
# dialect "xsd": XML Schema Part 2 appendix F, the subset the schema uses; dialect "py": the same surface syntax as
# Python's re reads it.  Anything else (anchors, {n,m}, '.', backreferences, category escapes, subtraction, lazy
# quantifiers, non-capturing groups ...) aborts.
WS = {"xsd": [[9, 10], [13, 13], [32, 32]],
      "py": [[9, 13], [28, 32]]}          # str.isspace() over ASCII: \t\n\v\f\r, FS GS RS US, space
DIGIT = [[48, 57]]
SINGLE_ESC = set("\\|.-^?*+{}()[]/")     # '/' is not an XSD escape but Python accepts \/ ; only identity escapes of punctuation


class RegexParser:
    def __init__(self, src, dialect):
        self.s = src
        self.i = 0
        self.d = dialect

    def peek(self):
        return self.s[self.i] if self.i < len(self.s) else None

    def take(self):
        c = self.peek()
        if c is None:
            raise Bad("regex: unexpected end in %r" % self.s)
        self.i += 1
        return c

    def parse(self):
        r = self.regexp()
        if self.i != len(self.s):
            raise Bad("regex: trailing %r in %r" % (self.s[self.i:], self.s))
        return r

    def regexp(self):
        branches = [self.branch()]
        while self.peek() == "|":
            self.take()
            branches.append(self.branch())
        r = branches[-1]
        for b in reversed(branches[:-1]):
            r = ["alt", b, r]
        return r

    def branch(self):
        pieces = []
        while self.peek() is not None and self.peek() not in "|)":
            pieces.append(self.piece())
        if not pieces:
            return ["eps"]
        r = pieces[-1]
        for p in reversed(pieces[:-1]):
            r = ["cat", p, r]
        return r

    def piece(self):
        a = self.atom()
        q = self.peek()
        if q in ("?", "*", "+"):
            self.take()
            if self.peek() in ("?", "+", "*"):
                raise Bad("regex: lazy/possessive/double quantifier in %r" % self.s)
            if q == "?":
                return ["alt", a, ["eps"]]
            if q == "*":
                return ["star", a]
            return ["cat", a, ["star", a]]
        if q == "{":
            raise Bad("regex: counted quantifier in %r" % self.s)
        return a

    def escape(self, in_class):
        c = self.take()
        if c == "s":
            return WS[self.d]
        if c == "d":
            if self.d == "py":
                raise Bad("regex: \\d in a Python pattern (Unicode digits)")
            raise Bad("regex: \\d (Unicode digits) not supported")
        if c == "n":
            return [[10, 10]]
        if c == "r":
            return [[13, 13]]
        if c == "t":
            return [[9, 9]]
        if c in SINGLE_ESC:
            return [[ord(c), ord(c)]]
        raise Bad("regex: escape \\%s in %r" % (c, self.s))

    def atom(self):
        c = self.take()
        if c == "(":
            if self.peek() == "?":
                raise Bad("regex: (?...) group in %r" % self.s)
            r = self.regexp()
            if self.take() != ")":
                raise Bad("regex: missing ) in %r" % self.s)
            return r
        if c == "[":
            return ["sym", self.char_class()]
        if c == "\\":
            return ["sym", self.escape(False)]
        if c in ".^$*+?{}|)]":
            raise Bad("regex: metacharacter %r at %d in %r" % (c, self.i - 1, self.s))
        if ord(c) > 126 or ord(c) < 32:
            raise Bad("regex: non-printable literal in %r" % self.s)
        return ["sym", [[ord(c), ord(c)]]]

    def char_class(self):
        if self.peek() == "^":
            raise Bad("regex: negated class in %r" % self.s)
        ranges = []
        first = True
        while True:
            c = self.take()
            if c == "]" and not first:
                break
            first = False
            if c == "[":
                raise Bad("regex: nested class / subtraction in %r" % self.s)
            if c == "\\":
                lo = self.escape(True)
                if len(lo) != 1 or lo[0][0] != lo[0][1]:
                    ranges += lo          # multi-character escape (\s): no range may start at it
                    if self.peek() == "-" and self.s[self.i + 1:self.i + 2] != "]":
                        raise Bad("regex: range from a class escape in %r" % self.s)
                    continue
                lo = lo[0][0]
            else:
                if c == "-" and ranges and self.peek() != "]":
                    raise Bad("regex: stray - in class in %r" % self.s)
                lo = ord(c)
            if self.peek() == "-" and self.s[self.i + 1:self.i + 2] != "]":
                self.take()
                h = self.take()
                if h == "\\":
                    hi = self.escape(True)
                    if len(hi) != 1 or hi[0][0] != hi[0][1]:
                        raise Bad("regex: range to a class escape in %r" % self.s)
                    hi = hi[0][0]
                elif h == "[":
                    raise Bad("regex: class subtraction in %r" % self.s)
                else:
                    hi = ord(h)
                if hi < lo:
                    raise Bad("regex: reversed range in %r" % self.s)
                ranges.append([lo, hi])
            else:
                ranges.append([lo, lo])
        for lo, hi in ranges:
            if hi > 126:
                raise Bad("regex: non-ASCII in class in %r" % self.s)
        return ranges


def parse_regex(src, dialect="xsd"):
    return RegexParser(src, dialect).parse()


def parse_py_pattern(src):
    """a pattern of a generated validator: '^(' <xsd pattern> ')$' , matched with re.search + length test"""
    if not (src.startswith("^(") and src.endswith(")$")):
        raise Bad("python pattern not of the form ^(...)$: %r" % src)
    return parse_regex(src[2:-2], "py")


# ----------------------------------------------------------------------------- schema
def local(e):
    from lxml import etree
    return etree.QName(e).localname


def occurs(e, where):
    lo = e.get("minOccurs", "1")
    hi = e.get("maxOccurs", "1")
    if not lo.isdigit() or not (hi.isdigit() or hi == "unbounded"):
        raise Bad("%s: occurs %r %r" % (where, lo, hi))
    return int(lo), (None if hi == "unbounded" else int(hi))


def only_attrs(e, allowed, where):
    for a in e.attrib:
        if a not in allowed:
            raise Bad("%s: attribute %s on xs:%s" % (where, a, local(e)))


def kids(e):
    return [k for k in e if isinstance(k.tag, str) and local(k) != "annotation"]


def type_ref(t, where, stnames, ctnames, used_prims, want):
    if t is None:
        raise Bad("%s: no type" % where)
    if t.startswith("xs:"):
        p = t[3:]
        if p not in PRIMS or want != "simple":
            raise Bad("%s: builtin type %s" % (where, t))
        used_prims.add(p)
        return t
    if ":" in t:
        raise Bad("%s: prefixed type %s" % (where, t))
    if want == "simple" and t in stnames:
        return t
    if want == "any" and (t in stnames or t in ctnames):
        return t
    raise Bad("%s: unknown %s type %s" % (where, want, t))


def tr_particle(e, where, groups, ctx, depth=0):
    if depth > 6:
        raise Bad("%s: particle nesting" % where)
    n = local(e)
    if n == "element":
        only_attrs(e, ("name", "type", "minOccurs", "maxOccurs"), where)
        if kids(e) or e.get("name") is None:
            raise Bad("%s: element with inline type or ref" % where)
        lo, hi = occurs(e, where)
        ty = type_ref(e.get("type"), where + "/" + e.get("name"), ctx["st"], ctx["ct"], ctx["prims"], "any")
        return ["elem", e.get("name"), ty, lo, hi]
    if n == "sequence":
        only_attrs(e, (), where)
        return ["seq", [tr_particle(k, where, groups, ctx, depth + 1) for k in kids(e)]]
    if n == "all":
        only_attrs(e, (), where)
        out = []
        for k in kids(e):
            if local(k) != "element":
                raise Bad("%s: xs:all holding xs:%s" % (where, local(k)))
            p = tr_particle(k, where, groups, ctx, depth + 1)
            if p[3] > 1 or p[4] != 1:
                raise Bad("%s: xs:all member occurs" % where)
            out.append(p)
        return ["all", out]
    if n == "choice":
        only_attrs(e, ("minOccurs", "maxOccurs"), where)
        lo, hi = occurs(e, where)
        return ["choice", lo, hi, [tr_particle(k, where, groups, ctx, depth + 1) for k in kids(e)]]
    if n == "group":
        only_attrs(e, ("ref",), where)
        g = groups.get(e.get("ref"))
        if g is None:
            raise Bad("%s: group ref %s" % (where, e.get("ref")))
        return tr_particle(g, where + "/group:" + e.get("ref"), groups, ctx, depth + 1)
    if n == "any":
        only_attrs(e, ("processContents", "minOccurs", "maxOccurs"), where)
        if e.get("processContents") != "skip":
            raise Bad("%s: xs:any processContents=%s" % (where, e.get("processContents")))
        lo, hi = occurs(e, where)
        return ["any", lo, hi]
    raise Bad("%s: xs:%s in a content model" % (where, n))


def tr_attr(a, where, ctx):
    only_attrs(a, ("name", "type", "use", "default", "fixed"), where)
    if kids(a):
        raise Bad("%s: attribute with inline type" % where)
    use = a.get("use", "optional")
    if use not in ("optional", "required"):
        raise Bad("%s: use=%s" % (where, use))
    t = a.get("type")
    if t is None:
        if a.get("fixed") is None:
            raise Bad("%s: attribute without type" % where)
        t = "xs:string"      # xs:anySimpleType with a fixed value: only that string is allowed; string keeps it verbatim
        ctx["prims"].add("string")
    else:
        t = type_ref(t, where, ctx["st"], ctx["ct"], ctx["prims"], "simple")
    if a.get("default") is not None and use == "required":
        raise Bad("%s: default on a required attribute" % where)
    return {"name": a.get("name"), "type": t, "required": use == "required", "default": a.get("default"),
            "fixed": a.get("fixed")}


def tr_body(e, where, groups, ctx):
    """attributes and the (at most one) model group among the children of a complexType / extension"""
    attrs, content = [], None
    for k in kids(e):
        n = local(k)
        if n == "attribute":
            attrs.append(tr_attr(k, where + "/@" + str(k.get("name")), ctx))
        elif n in ("sequence", "all", "choice", "group"):
            if content is not None:
                raise Bad("%s: two model groups" % where)
            if attrs:
                raise Bad("%s: model group after attributes" % where)
            content = tr_particle(k, where, groups, ctx)
        else:
            raise Bad("%s: xs:%s" % (where, n))
    names = [a["name"] for a in attrs]
    if len(set(names)) != len(names):
        raise Bad("%s: duplicate attribute" % where)
    return attrs, content


DEC = re.compile(r"[+-]?(\d+(\.\d*)?|\.\d+)$")


def tr_simple(st, ctx):
    name = st.get("name")
    where = "simpleType " + str(name)
    only_attrs(st, ("name",), where)
    ks = kids(st)
    if len(ks) != 1 or local(ks[0]) != "restriction":
        raise Bad("%s: not a single restriction" % where)
    res = ks[0]
    only_attrs(res, ("base",), where)
    base = res.get("base", "")
    if not base.startswith("xs:") or base[3:] not in PRIMS:
        raise Bad("%s: base %s (only restrictions of builtin types are supported)" % (where, base))
    rec = {"name": name, "prim": base[3:], "enums": [], "patterns": [], "pattern_src": [], "facets": []}
    for f in kids(res):
        n = local(f)
        only_attrs(f, ("value",), where)
        v = f.get("value")
        if v is None:
            raise Bad("%s: facet without value" % where)
        if n == "enumeration":
            rec["enums"].append(v)
        elif n == "pattern":
            if rec["prim"] not in ("string", "anyURI"):
                raise Bad("%s: pattern on a numeric type" % where)
            rec["pattern_src"].append(v)
            rec["patterns"].append(parse_regex(v, "xsd"))
        elif n in ("minInclusive", "minExclusive", "maxInclusive", "maxExclusive"):
            if rec["prim"] not in ("float", "double") or not DEC.match(v):
                raise Bad("%s: facet %s=%s" % (where, n, v))
            rec["facets"].append([n, v])
        else:
            raise Bad("%s: facet %s" % (where, n))
    if rec["enums"] and rec["prim"] in ("float", "double"):
        for v in rec["enums"]:
            if not DEC.match(v):
                raise Bad("%s: numeric enumeration %s" % (where, v))
    if rec["enums"] and rec["prim"] in ("nonNegativeInteger", "positiveInteger"):
        raise Bad("%s: enumeration on an integer type" % where)
    return rec


def current_version(repo):
    tree = ast.parse(open(os.path.join(repo, "neuroml", "__version__.py")).read())
    for n in tree.body:
        tgt = None
        if isinstance(n, ast.AnnAssign) and isinstance(n.target, ast.Name):
            tgt, val = n.target.id, n.value
        elif isinstance(n, ast.Assign) and isinstance(n.targets[0], ast.Name):
            tgt, val = n.targets[0].id, n.value
        if tgt == "current_neuroml_version":
            return ast.literal_eval(val)
    raise Bad("current_neuroml_version not found")


def translate(repo):
    from lxml import etree
    errors = []
    out = {"errors": errors, "ctypes": [], "stypes": [], "root": None}
    try:
        ver = current_version(repo)
    except Exception as e:  # noqa
        errors.append("__version__.py: %s" % e)
        return out
    out["version"] = ver
    path = os.path.join(repo, "neuroml", "nml", "NeuroML_%s.xsd" % ver)
    out["file"] = os.path.relpath(path, repo)
    if not os.path.exists(path):
        errors.append("schema file %s missing" % out["file"])
        return out
    root = etree.parse(path).getroot()
    if root.tag != XS + "schema":
        errors.append("root is not xs:schema")
        return out
    out["target_ns"] = root.get("targetNamespace")
    if root.get("elementFormDefault") != "qualified" or root.get("attributeFormDefault", "unqualified") != "unqualified":
        errors.append("schema: form defaults")
    groups, stypes, ctypes, elements = {}, [], [], []
    for k in root:
        if not isinstance(k.tag, str):
            continue
        n = local(k)
        if n == "annotation":
            continue
        if n == "group":
            ks = kids(k)
            if len(ks) != 1 or k.get("name") is None:
                errors.append("group %s: shape" % k.get("name"))
                continue
            groups[k.get("name")] = ks[0]
        elif n == "simpleType":
            stypes.append(k)
        elif n == "complexType":
            ctypes.append(k)
        elif n == "element":
            elements.append(k)
        else:
            errors.append("schema: top-level xs:%s" % n)
    ctx = {"st": set(s.get("name") for s in stypes), "ct": set(c.get("name") for c in ctypes), "prims": set()}
    if len(ctx["st"]) != len(stypes) or len(ctx["ct"]) != len(ctypes) or (ctx["st"] & ctx["ct"]):
        errors.append("schema: duplicate type names")
    for st in stypes:
        try:
            out["stypes"].append(tr_simple(st, ctx))
        except Bad as e:
            errors.append(str(e))
    for ct in ctypes:
        name = ct.get("name")
        where = "complexType " + str(name)
        try:
            only_attrs(ct, ("name",), where)
            ks = kids(ct)
            base = None
            if len(ks) == 1 and local(ks[0]) == "complexContent":
                only_attrs(ks[0], (), where)
                ex = kids(ks[0])
                if len(ex) != 1 or local(ex[0]) != "extension":
                    raise Bad("%s: complexContent without a single extension" % where)
                only_attrs(ex[0], ("base",), where)
                base = ex[0].get("base")
                if base not in ctx["ct"]:
                    raise Bad("%s: base %s" % (where, base))
                attrs, content = tr_body(ex[0], where, groups, ctx)
            else:
                attrs, content = tr_body(ct, where, groups, ctx)
            out["ctypes"].append({"name": name, "base": base, "attrs": attrs, "content": content})
        except Bad as e:
            errors.append(str(e))
    # acyclic base chains
    bases = {c["name"]: c["base"] for c in out["ctypes"]}
    for c in bases:
        seen, x = set(), c
        while x is not None:
            if x in seen:
                errors.append("complexType %s: cyclic base chain" % c)
                break
            seen.add(x)
            x = bases.get(x)
    if len(elements) != 1:
        errors.append("schema: %d global elements (expected the single document element)" % len(elements))
    for e in elements:
        try:
            only_attrs(e, ("name", "type"), "element " + str(e.get("name")))
            if e.get("type") not in ctx["ct"]:
                raise Bad("element %s: type %s" % (e.get("name"), e.get("type")))
            out["root"] = [e.get("name"), e.get("type")]
        except Bad as ex:
            errors.append(str(ex))
    for p in sorted(ctx["prims"]):
        out["stypes"].append({"name": "xs:" + p, "prim": p, "enums": [], "patterns": [], "pattern_src": [], "facets": []})
    return out


if __name__ == "__main__":
    res = translate(REPO)
    txt = json.dumps(res)
    if len(sys.argv) > 1:
        open(sys.argv[1], "w").write(txt)
        print(json.dumps({"ctypes": len(res["ctypes"]), "stypes": len(res["stypes"]), "errors": res["errors"][:50]}))
    else:
        print(txt)
