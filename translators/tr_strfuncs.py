"""tr_strfuncs: C19 translator (fail closed).

Reads (never imports the package)
    neuroml/nml/nml.py                  (ast)   -- the code that runs; class hierarchy, accessor bodies, MemberSpecs
    neuroml/nml/helper_methods.py       (executed by path; MethodSpec sources interpolated as generateDS does)
    neuroml/hdf5/NeuroMLXMLParser.py    (ast)   -- _parse_delay
and emits
  * the accessor table: for every (class, method) the property speaks about, the method body (resolved through
    the class hierarchy, `return self.helper(x)` calls inlined) as an sprog term of coq/Model/Accessors.v,
  * the summary table: the counters of NeuroMLDocument.summary (what is added per item of which collection), its
    "<n> <word> in <m> <word>" report lines, and from the MemberSpecs the list members that hold projections /
    connections / inputs.
Both sources are translated; they must give the same terms.  Unknown shapes raise Fail.

stdout, last line: JSON {"ok", "error"?, "coq", "accessors": [[class, method, term-json, coq-term]], "summary": {...},
                         "sources_agree", "diffs"}
"""
import ast
import json
import os
from fractions import Fraction

REPO = os.environ.get("VERIF_REPO", "/repo")
NML = os.path.join(REPO, "neuroml", "nml")

# (class, method) pairs to translate -- mirrors Model/Accessors.v `expected`
OLD = ["get_pre_cell_id", "get_post_cell_id", "get_pre_segment_id", "get_post_segment_id",
       "get_pre_fraction_along", "get_post_fraction_along"]
WANTED = []
for c in ("Connection", "ConnectionWD"):
    WANTED += [(c, m) for m in OLD]
WANTED.append(("ConnectionWD", "get_delay_in_ms"))
for c in ("ElectricalConnection", "ContinuousConnection", "ElectricalConnectionInstance", "ContinuousConnectionInstance",
          "ElectricalConnectionInstanceW", "ContinuousConnectionInstanceW"):
    WANTED += [(c, m) for m in OLD]
WANTED += [("ElectricalConnectionInstanceW", "get_weight"), ("ContinuousConnectionInstanceW", "get_weight")]
for c in ("Input", "InputW"):
    WANTED += [(c, "get_target_cell_id"), (c, "get_segment_id"), (c, "get_fraction_along")]
WANTED += [("InputW", "get_weight"), ("ExplicitInput", "get_target_cell_id"), ("ExplicitInput", "get_target_population"),
           ("SynapticConnection", "_get_cell_id"), ("SynapticConnection", "_get_population"), ("Population", "get_size")]


class Fail(Exception):
    pass


def fail(where, why):
    raise Fail("%s: %s" % (where, why))


def class_funcs(body):
    out = {}
    for st in body:
        if isinstance(st, ast.FunctionDef):
            out[st.name] = st
    return out


def strip_doc(body):
    body = list(body)
    if body and isinstance(body[0], ast.Expr) and isinstance(getattr(body[0], "value", None), ast.Constant) \
            and isinstance(body[0].value.value, str):
        body = body[1:]
    return body


# ------------------------------------------------------------------ expression / statement translation
class Acc:
    """translates one method of class `cname`; `resolve(cname, method)` finds a FunctionDef through the hierarchy"""

    def __init__(self, cname, resolve):
        self.cname = cname
        self.resolve = resolve
        self.depth = 0

    def method(self, name, argterm=None):
        fn = self.resolve(self.cname, name)
        if fn is None:
            fail(self.cname, "method %s not found" % name)
        self.depth += 1
        if self.depth > 5:
            fail(self.cname, "call depth")
        if fn.decorator_list:
            fail("%s.%s" % (self.cname, name), "decorators %s (the accessor would no longer be a function of the object's "
                 "current attributes)" % [ast.unparse(d) for d in fn.decorator_list])
        for x in ast.walk(fn):
            if isinstance(x, (ast.Global, ast.Nonlocal)) or (isinstance(x, (ast.Lambda, ast.FunctionDef)) and x is not fn):
                fail("%s.%s" % (self.cname, name), "global/nonlocal statement or nested function")
        a = fn.args
        params = [x.arg for x in a.args]
        if a.vararg or a.kwarg or a.kwonlyargs or a.defaults or a.posonlyargs or len(params) not in (1, 2):
            fail("%s.%s" % (self.cname, name), "unsupported signature")
        env = {params[0]: ("self",)}
        if len(params) == 2:
            env[params[1]] = ("term", argterm if argterm is not None else ("EAttr", "<arg>"))
        elif argterm is not None:
            fail("%s.%s" % (self.cname, name), "called with an argument but takes none")
        where = "%s.%s" % (self.cname, name)
        p = self.block(strip_doc(fn.body), env, where)
        self.depth -= 1
        return p

    def block(self, stmts, env, where):
        if not stmts:
            return ("SRetNone",)
        s, rest = stmts[0], stmts[1:]
        if isinstance(s, ast.Expr) and isinstance(s.value, ast.Constant) and isinstance(s.value.value, str):
            return self.block(rest, env, where)
        if isinstance(s, ast.Return):
            if s.value is None:
                return ("SRetNone",)
            v = s.value
            # return self.helper(x): the callee's program with x for its parameter
            if isinstance(v, ast.Call) and isinstance(v.func, ast.Attribute) and isinstance(v.func.value, ast.Name) \
                    and env.get(v.func.value.id) == ("self",) and not v.keywords and len(v.args) <= 1:
                arg = self.expr(v.args[0], env, where) if v.args else None
                return self.method(v.func.attr, arg)
            return ("SRet", self.expr(v, env, where))
        if isinstance(s, ast.If):
            c = self.cond(s.test, env, where)
            return ("SIf", c, self.block(list(s.body) + rest, env, where), self.block(list(s.orelse) + rest, env, where))
        # print(...); exit(1)
        if isinstance(s, ast.Expr) and isinstance(s.value, ast.Call) and isinstance(s.value.func, ast.Name):
            f = s.value.func.id
            if f == "print":
                return self.block(rest, env, where)
            if f in ("exit", "quit") and f not in env:
                return ("SExit",)
        fail(where, "statement %s" % type(s).__name__)

    def expr(self, n, env, where):
        if isinstance(n, ast.Constant):
            v = n.value
            if v is None:
                return ("ENone",)
            if isinstance(v, bool):
                fail(where, "bool literal")
            if isinstance(v, str):
                return ("EStr", v)
            if isinstance(v, int):
                return ("EInt", v)
            if isinstance(v, float):
                fr = Fraction(v)
                return ("EFloat", fr.numerator, fr.denominator)
            fail(where, "literal %r" % (v,))
        if isinstance(n, ast.Name):
            v = env.get(n.id)
            if v is not None and v[0] == "term":
                return v[1]
            fail(where, "name %s" % n.id)
        if isinstance(n, ast.Attribute):
            if isinstance(n.value, ast.Name) and env.get(n.value.id) == ("self",):
                return ("EAttr", n.attr)
            fail(where, "attribute %s" % ast.unparse(n))
        if isinstance(n, ast.IfExp):
            return ("EIf", self.cond(n.test, env, where), self.expr(n.body, env, where), self.expr(n.orelse, env, where))
        if isinstance(n, ast.BinOp) and isinstance(n.op, ast.Mult):
            return ("EMul", self.expr(n.left, env, where), self.expr(n.right, env, where))
        if isinstance(n, ast.Subscript):
            # e.split(sep)[k]   /   e[:-k]
            sl = n.slice
            if isinstance(sl, ast.Slice):
                if sl.lower is None and sl.step is None and isinstance(sl.upper, ast.UnaryOp) and isinstance(sl.upper.op, ast.USub) \
                        and isinstance(sl.upper.operand, ast.Constant) and isinstance(sl.upper.operand.value, int) \
                        and sl.upper.operand.value > 0:
                    return ("EDropLast", self.expr(n.value, env, where), sl.upper.operand.value)
                fail(where, "slice %s" % ast.unparse(n))
            base = n.value
            if isinstance(base, ast.Call) and isinstance(base.func, ast.Attribute) and base.func.attr == "split" \
                    and len(base.args) == 1 and not base.keywords and isinstance(base.args[0], ast.Constant) \
                    and isinstance(base.args[0].value, str) and len(base.args[0].value) == 1:
                recv = self.expr(base.func.value, env, where)
                sep = base.args[0].value
                if isinstance(sl, ast.Constant) and isinstance(sl.value, int) and sl.value >= 0:
                    return ("ESplitNth", recv, sep, sl.value)
                if isinstance(sl, ast.UnaryOp) and isinstance(sl.op, ast.USub) and isinstance(sl.operand, ast.Constant) \
                        and sl.operand.value == 1:
                    return ("ESplitLast", recv, sep)
            fail(where, "subscript %s" % ast.unparse(n))
        if isinstance(n, ast.Call):
            f = n.func
            if isinstance(f, ast.Name) and f.id not in env and len(n.args) == 1 and not n.keywords:
                if f.id == "int":
                    return ("EIntOf", self.expr(n.args[0], env, where))
                if f.id == "float":
                    return ("EFloatOf", self.expr(n.args[0], env, where))
                if f.id == "len":
                    a = n.args[0]
                    if isinstance(a, ast.Attribute) and isinstance(a.value, ast.Name) and env.get(a.value.id) == ("self",):
                        return ("ELenAttr", a.attr)
            if isinstance(f, ast.Attribute) and f.attr == "strip" and not n.args and not n.keywords:
                return ("EStrip", self.expr(f.value, env, where))
            fail(where, "call %s" % ast.unparse(n))
        if isinstance(n, ast.Expr):
            return self.expr(n.value, env, where)
        fail(where, "expression %s (%s)" % (type(n).__name__, ast.unparse(n)))

    def cond(self, n, env, where):
        if isinstance(n, ast.Compare) and len(n.ops) == 1:
            op, l, r = n.ops[0], n.left, n.comparators[0]
            if isinstance(op, ast.In) and isinstance(l, ast.Constant) and isinstance(l.value, str):
                return ("CIn", l.value, self.expr(r, env, where))
            if isinstance(op, (ast.NotEq, ast.IsNot)) and isinstance(r, ast.Constant) and r.value is None:
                return ("CNotNone", self.expr(l, env, where))
            if isinstance(op, ast.Gt):
                return ("CGt", self.expr(l, env, where), self.expr(r, env, where))
            fail(where, "comparison %s" % ast.unparse(n))
        if isinstance(n, ast.Call) and isinstance(n.func, ast.Attribute) and n.func.attr in ("endswith", "startswith") \
                and len(n.args) == 1 and not n.keywords and isinstance(n.args[0], ast.Constant) and isinstance(n.args[0].value, str):
            k = "CEndswith" if n.func.attr == "endswith" else "CStartswith"
            return (k, self.expr(n.func.value, env, where), n.args[0].value)
        if isinstance(n, (ast.Attribute, ast.Name)):
            return ("CTruthy", self.expr(n, env, where))
        fail(where, "condition %s" % ast.unparse(n))


# ------------------------------------------------------------------ printing
def cstr(s):
    if not all(32 <= ord(c) < 127 for c in s):
        raise Fail("non-printable string literal %r" % s)
    return '"' + s.replace('"', '""') + '"'


def coq(t):
    h = t[0]
    if h in ("EAttr", "EStr", "ELenAttr"):
        return "(%s %s)" % (h, cstr(t[1]))
    if h == "EInt":
        return "(EInt (%d)%%Z)" % t[1]
    if h == "EFloat":
        return "(EFloat (Qmake (%d)%%Z %d%%positive))" % (t[1], t[2])
    if h == "ESplitNth":
        return "(ESplitNth %s %s%%char %d%%nat)" % (coq(t[1]), cstr(t[2]), t[3])
    if h == "ESplitLast":
        return "(ESplitLast %s %s%%char)" % (coq(t[1]), cstr(t[2]))
    if h == "EDropLast":
        return "(EDropLast %s %d%%nat)" % (coq(t[1]), t[2])
    if h == "CIn":
        return "(CIn %s %s)" % (cstr(t[1]), coq(t[2]))
    if h in ("CEndswith", "CStartswith"):
        return "(%s %s %s)" % (h, coq(t[1]), cstr(t[2]))
    if len(t) == 1:
        return h
    return "(" + h + " " + " ".join(coq(x) for x in t[1:]) + ")"


# ------------------------------------------------------------------ sources
ACC_NAMES = {m for _, m in WANTED} | {"_get_cell_id", "_get_population", "summary", "get_size"}


def load_nml():
    tree = ast.parse(open(os.path.join(NML, "nml.py")).read())
    classes = {}
    for n in tree.body:
        if isinstance(n, ast.ClassDef):
            bases = [b.id for b in n.bases if isinstance(b, ast.Name)]
            if n.name in classes:
                fail(n.name, "class defined more than once")
            classes[n.name] = {"bases": bases, "funcs": class_funcs(n.body), "node": n}
            # a class-level assignment rebinding an accessor (x = lru_cache()(x)) or a class decorator changes what runs
            for st in n.body:
                if isinstance(st, (ast.Assign, ast.AugAssign, ast.AnnAssign)):
                    tg = st.targets if isinstance(st, ast.Assign) else [st.target]
                    for t in tg:
                        if isinstance(t, ast.Name) and t.id in ACC_NAMES:
                            fail(n.name, "%s is rebound by a class-level assignment" % t.id)
        else:
            for x in ast.walk(n) if not isinstance(n, ast.FunctionDef) else []:
                if isinstance(x, ast.Attribute) and isinstance(x.ctx, ast.Store) and x.attr in ACC_NAMES \
                        and isinstance(x.value, ast.Name) and x.value.id[:1].isupper():
                    fail("module", "%s.%s is assigned at module level" % (x.value.id, x.attr))
    for c, _ in WANTED:
        for k in mro(classes, c):
            if classes[k]["node"].decorator_list:
                fail(k, "class decorators")
    return classes


def mro(classes, c):
    out = []
    while c in classes:
        out.append(c)
        b = classes[c]["bases"]
        if len(b) > 1:
            fail(c, "multiple inheritance")
        c = b[0] if b else None
    return out


def resolver(classes, funcs_of):
    def resolve(cname, m):
        for k in mro(classes, cname):
            f = funcs_of(k)
            if m in f:
                return f[m]
        return None
    return resolve


def helper_funcs(names):
    hp = os.path.join(NML, "helper_methods.py")
    ns = {"__name__": "helper_methods_under_verification", "__file__": hp}
    exec(compile(open(hp).read(), hp, "exec"), ns)
    out = {}
    for cname in names:
        funcs = {}
        for sp in ns["METHOD_SPECS"]:
            if sp.match_name(cname):
                text = sp.get_interpolated_source({"class_name": cname})
                tree = ast.parse("class _C:\n    pass\n" + text)
                funcs.update(class_funcs(tree.body[0].body))
        out[cname] = funcs
    return out


def member_specs(classes, cname):
    """[(member name, data type, container)] from member_data_items_ of class cname"""
    node = classes[cname]["node"]
    for st in node.body:
        if isinstance(st, ast.Assign) and len(st.targets) == 1 and isinstance(st.targets[0], ast.Name) \
                and st.targets[0].id == "member_data_items_":
            v = st.value
            elts = v.elts if isinstance(v, (ast.List, ast.Tuple)) else (v.values if isinstance(v, ast.Dict) else None)
            if elts is None:
                fail(cname, "member_data_items_ shape")
            out = []
            for e in elts:
                if not (isinstance(e, ast.Call) and getattr(e.func, "id", "") == "MemberSpec_" and len(e.args) >= 3):
                    fail(cname, "MemberSpec_ shape")
                a = e.args
                if not all(isinstance(x, ast.Constant) for x in a[:3]):
                    fail(cname, "MemberSpec_ arguments not literal")
                dt = a[1].value
                if isinstance(dt, list):
                    dt = dt[0]
                out.append((a[0].value, dt, a[2].value))
            return out
    fail(cname, "no member_data_items_")


def derives(classes, c, base):
    return base in mro(classes, c)


# ------------------------------------------------------------------ the summary's counting skeleton
def flatten_add(n):
    if isinstance(n, ast.BinOp) and isinstance(n.op, ast.Add):
        return flatten_add(n.left) + flatten_add(n.right)
    return [n]


def summary_table(fn, where="NeuroMLDocument.summary"):
    net_loop = None
    for st in ast.walk(fn):
        if isinstance(st, ast.For) and isinstance(st.iter, ast.Attribute) and st.iter.attr == "networks" \
                and isinstance(st.iter.value, ast.Name) and st.iter.value.id == "self" and isinstance(st.target, ast.Name):
            if net_loop is not None:
                fail(where, "two loops over self.networks")
            net_loop = st
    if net_loop is None:
        fail(where, "no loop over self.networks")
    net = net_loop.target.id
    counters = {}
    order = []
    reports = []

    def coll_of(it):
        # network.<coll>  or  sorted(network.<coll>, key=...)
        if isinstance(it, ast.Call) and isinstance(it.func, ast.Name) and it.func.id == "sorted" and it.args:
            it = it.args[0]
        if isinstance(it, ast.Attribute) and isinstance(it.value, ast.Name) and it.value.id == net:
            return it.attr
        return None

    def len_of(n, var):
        if isinstance(n, ast.Call) and isinstance(n.func, ast.Name) and n.func.id == "len" and len(n.args) == 1:
            a = n.args[0]
            if isinstance(a, ast.Attribute) and isinstance(a.value, ast.Name) and a.value.id == var:
                return a.attr
        return None

    def touches_counter(st):
        for x in ast.walk(st):
            if isinstance(x, (ast.Assign, ast.AugAssign, ast.AnnAssign)):
                tg = x.targets if isinstance(x, ast.Assign) else [x.target]
                for t in tg:
                    if isinstance(t, ast.Name) and t.id in counters:
                        return True
        return False

    def item_body(stmts, coll, var, guard):
        for st in stmts:
            if isinstance(st, ast.AugAssign) and isinstance(st.target, ast.Name) and st.target.id in counters:
                if not isinstance(st.op, ast.Add):
                    fail(where, "counter %s updated with %s" % (st.target.id, type(st.op).__name__))
                v = st.value
                if isinstance(v, ast.Constant) and v.value == 1 and guard is None:
                    counters[st.target.id].append((coll, ("COne",)))
                elif len_of(v, var) is not None and (guard is None or guard == len_of(v, var)):
                    counters[st.target.id].append((coll, ("CLen" if guard is None else "CLenIfPos", len_of(v, var))))
                elif isinstance(v, ast.Call) and isinstance(v.func, ast.Attribute) and v.func.attr == "get_size" \
                        and isinstance(v.func.value, ast.Name) and v.func.value.id == var and not v.args and guard is None:
                    counters[st.target.id].append((coll, ("CGetSize",)))
                else:
                    fail(where, "counter update %s" % ast.unparse(st))
            elif isinstance(st, ast.If) and not st.orelse and guard is None and touches_counter(st):
                t = st.test
                g = None
                if isinstance(t, ast.Compare) and len(t.ops) == 1 and isinstance(t.ops[0], ast.Gt) \
                        and isinstance(t.comparators[0], ast.Constant) and t.comparators[0].value == 0:
                    g = len_of(t.left, var)
                if g is None:
                    fail(where, "guard %s around a counter update" % ast.unparse(t))
                item_body(st.body, coll, var, g)
            elif touches_counter(st):
                fail(where, "counter updated inside %s" % type(st).__name__)

    for st in net_loop.body:
        if isinstance(st, ast.Assign) and len(st.targets) == 1 and isinstance(st.targets[0], ast.Name) \
                and isinstance(st.value, ast.Constant) and st.value.value == 0 and not isinstance(st.value.value, bool):
            name = st.targets[0].id
            if name in counters:
                fail(where, "counter %s initialised twice" % name)
            counters[name] = []
            order.append(name)
        elif isinstance(st, ast.For) and coll_of(st.iter) is not None and isinstance(st.target, ast.Name):
            item_body(st.body, coll_of(st.iter), st.target.id, None)
        elif isinstance(st, ast.AugAssign) and isinstance(st.target, ast.Name) and st.target.id == "info":
            parts = flatten_add(st.value)
            seq = []
            for p in parts:
                if isinstance(p, ast.Constant) and isinstance(p.value, str):
                    seq.append(("s", p.value))
                elif isinstance(p, ast.Call) and isinstance(p.func, ast.Name) and p.func.id == "str" and len(p.args) == 1 \
                        and isinstance(p.args[0], ast.Name) and p.args[0].id in counters:
                    seq.append(("c", p.args[0].id))
                else:
                    seq.append(("o", None))
            for i in range(len(seq) - 4):
                if [x[0] for x in seq[i:i + 5]] == ["s", "c", "s", "c", "s"] and seq[i][1].strip() == "*":
                    mid = seq[i + 2][1]
                    if not mid.endswith(" in "):
                        fail(where, "report line wording %r" % mid)
                    reports.append((seq[i + 1][1], mid[:-4].strip(), seq[i + 3][1], seq[i + 4][1].split("\n")[0].strip()))
            if touches_counter(st):
                fail(where, "counter assigned in an info line")
        elif touches_counter(st):
            fail(where, "counter updated by %s" % ast.unparse(st)[:80])
    # a counter must not be touched outside the network loop
    for st in fn.body:
        if st is not net_loop:
            for x in ast.walk(st):
                if isinstance(x, ast.Name) and x.id in counters and isinstance(x.ctx, ast.Store):
                    fail(where, "counter %s assigned outside the network loop" % x.id)
    return {"counters": [[n, [[c, list(k)] for c, k in counters[n]]] for n in order], "reports": [list(r) for r in reports]}


def coq_contrib(k):
    if k[0] in ("COne", "CGetSize"):
        return k[0]
    return "(%s %s)" % (k[0], cstr(k[1]))


def translate(classes, funcs_of, parse_delay_fn):
    resolve = resolver(classes, funcs_of)
    acc = []
    for c, m in WANTED:
        if c not in classes:
            fail("nml.py", "class %s not found" % c)
        acc.append([c, m, Acc(c, resolve).method(m)])
    # NeuroMLXMLParser._parse_delay
    pd = Acc("NeuroMLXMLParser", lambda cn, mn: parse_delay_fn if mn == "_parse_delay" else None).method("_parse_delay")
    acc.append(["NeuroMLXMLParser", "_parse_delay", pd])
    sfn = resolve("NeuroMLDocument", "summary")
    if sfn is None:
        fail("NeuroMLDocument", "summary not found")
    if sfn.decorator_list:
        fail("NeuroMLDocument.summary", "decorators %s" % [ast.unparse(d) for d in sfn.decorator_list])
    summ = summary_table(sfn)
    return acc, summ


def schema_members(classes):
    """from the MemberSpecs: which Network members hold projections, which of their members hold connections,
    which InputList members hold inputs"""
    proj, conn, inp = [], [], []
    for name, dt, cont in member_specs(classes, "Network"):
        if cont == 1 and dt in classes and derives(classes, dt, "BaseProjection"):
            proj.append(name)
            for n2, dt2, cont2 in member_specs(classes, dt):
                if cont2 == 1 and dt2 in classes and derives(classes, dt2, "BaseConnection"):
                    conn.append([name, n2])
    for n2, dt2, cont2 in member_specs(classes, "InputList"):
        if cont2 == 1 and dt2 in classes and derives(classes, dt2, "Input"):
            inp.append(["input_lists", n2])
    return {"proj_colls": proj, "conn_members": conn, "input_members": inp}


def main():
    out = {"ok": False}
    try:
        classes = load_nml()
        xp = ast.parse(open(os.path.join(REPO, "neuroml", "hdf5", "NeuroMLXMLParser.py")).read())
        pdf = None
        for n in ast.walk(xp):
            if isinstance(n, ast.ClassDef) and n.name == "NeuroMLXMLParser":
                pdf = class_funcs(n.body).get("_parse_delay")
        if pdf is None:
            fail("NeuroMLXMLParser.py", "_parse_delay not found")
        acc, summ = translate(classes, lambda k: classes[k]["funcs"], pdf)
        summ.update(schema_members(classes))
        out["accessors"] = [[c, m, p, coq(p)] for c, m, p in acc]
        out["summary"] = summ
        lines = ["(* generated by translators/tr_strfuncs.py from %s -- do not edit *)" % os.path.join(NML, "nml.py"),
                 "From Coq Require Import String Ascii List ZArith QArith.", "From LNML Require Import Lib.StrFun Model.Accessors.",
                 "Import ListNotations.", "Local Open Scope string_scope.", "",
                 "Definition accessors : acc_table := ["]
        lines.append(";\n".join("  (%s, %s,\n    %s)" % (cstr(c), cstr(m), coq(p)) for c, m, p in acc))
        lines.append("].\n")
        lines.append("Definition summary : summary_table := {|")
        lines.append("  st_counters := [" + "; ".join(
            "(%s, [%s])" % (cstr(n), "; ".join("(%s, %s)" % (cstr(c), coq_contrib(k)) for c, k in cs)) for n, cs in summ["counters"]) + "];")
        lines.append("  st_reports := [" + "; ".join("(%s, %s, %s, %s)" % tuple(cstr(x) for x in r) for r in summ["reports"]) + "];")
        lines.append("  st_proj_colls := [" + "; ".join(cstr(x) for x in summ["proj_colls"]) + "];")
        lines.append("  st_conn_members := [" + "; ".join("(%s, %s)" % (cstr(a), cstr(b)) for a, b in summ["conn_members"]) + "];")
        lines.append("  st_input_members := [" + "; ".join("(%s, %s)" % (cstr(a), cstr(b)) for a, b in summ["input_members"]) + "]")
        lines.append("|}.\n")
        out["coq"] = "\n".join(lines)
        out["ok"] = True
        try:
            names = sorted({c for c, _ in WANTED} | {"NeuroMLDocument"} | {k for c, _ in WANTED for k in mro(classes, c)})
            hf = helper_funcs(names)
            acc2, summ2 = translate(classes, lambda k: hf.get(k, {}), pdf)
            diffs = []
            for (c, m, p), (_, _, q) in zip(acc, acc2):
                if p != q:
                    diffs.append({"class": c, "method": m, "nml": coq(p), "helper_methods": coq(q)})
            if summ2["counters"] != summ["counters"] or summ2["reports"] != summ["reports"]:
                diffs.append({"class": "NeuroMLDocument", "method": "summary", "nml": summ["counters"], "helper_methods": summ2["counters"]})
            out["sources_agree"] = not diffs
            out["diffs"] = diffs
        except Fail as e:
            out["sources_agree"] = False
            out["diffs"] = [{"class": "helper_methods.py", "error": str(e)}]
    except Fail as e:
        out["error"] = str(e)
    print(json.dumps(out))


if __name__ == "__main__":
    main()
