"""tr_regen: C20, whole-file regeneration.

Re-runs the generator exactly as neuroml/nml/regenerate-nml.sh prescribes (the generateDS command line and the
`sed -i 's/../../' nml.py` fix-ups are READ from that script; the schema file name is computed from
neuroml/__version__.py as the script does) in a scratch copy of the tree's own sources
(helper_methods.py, gds_imports-template.py, generateds_config.py, config.py, *.xsd, name tables), and splits both
the regenerated and the shipped nml.py into units:

    (<owner>, <member>, digest)     owner = class name | "<module>"      member = method / assigned name / statement kind

digest = first 16 hex digits of sha256(ast.dump(unit)) after removing docstrings and argument/return annotations
(the `annotate_nml` step of the script only writes annotations, ruff only formats).  Units are listed in file order.

A generator newer than the one named in the shipped header may differ in its templates.  Exactly one such difference
is known and normalised, and only when the two versions differ: generateDS >= 2.44.3 appends
`<Class>.superclass.validate_(self, gds_collector, recursive)` to validate_ of classes with a superclass.  The
statement is removed from the regenerated side only if it has exactly that shape; the count is reported.

Never imports the package under test.  Fails closed (non-zero exit, message on stderr) on anything unexpected.
"""
import ast
import hashlib
import json
import os
import re
import shlex
import shutil
import subprocess
import sys
import tempfile

REPO = os.environ.get("VERIF_REPO", "/repo")
NML = os.path.join(REPO, "neuroml", "nml")
GDS = "/venv/bin/generateDS.py"


def die(msg):
    sys.stderr.write("tr_regen: " + msg + "\n")
    sys.exit(2)


def script_commands():
    rs = open(os.path.join(NML, "regenerate-nml.sh")).read()
    gen = [l.strip() for l in rs.splitlines() if re.search(r"\bgenerateDS\b.*-o\s+nml\.py", l)]
    if len(gen) != 1:
        die("expected exactly one generateDS command line in regenerate-nml.sh, found %d" % len(gen))
    toks = shlex.split(gen[0])
    while toks and "=" in toks[0] and not toks[0].startswith("-"):   # leading VAR=value
        toks.pop(0)
    if not toks or toks[0] != "generateDS":
        die("cannot read the generateDS command: %r" % gen[0])
    seds = []
    for l in rs.splitlines():
        m = re.match(r"""\s*sed -i '(s/[^']*)' nml\.py\s*$""", l)
        if m:
            parts = m.group(1).split("/")
            if len(parts) != 4 or parts[0] != "s" or parts[3] not in ("", "g"):
                die("cannot read sed expression %r" % m.group(1))
            seds.append((parts[1], parts[2], parts[3] == "g"))
    ver = open(os.path.join(REPO, "neuroml", "__version__.py")).read()
    m = re.search(r"""^current_neuroml_version(?:\s*:\s*\w+)?\s*=\s*["']([^"']+)["']\s*$""", ver, re.M)
    if not m:
        die("current_neuroml_version not found")
    schema = "NeuroML_%s.xsd" % m.group(1)
    args = [schema if t in ("$SCHEMA_FILE", "${SCHEMA_FILE}") else t for t in toks[1:]]
    if any("$" in a for a in args):
        die("unexpanded shell variable in %r" % args)
    return args, seds, schema


def regenerate():
    args, seds, schema = script_commands()
    scratch = tempfile.mkdtemp(prefix="verif_c20_regen_")
    try:
        for fn in os.listdir(NML):
            p = os.path.join(NML, fn)
            if os.path.isfile(p) and fn != "nml.py" and (fn.endswith((".xsd", ".py", ".csv"))):
                shutil.copy(p, scratch)
        env = dict(os.environ)
        env["PYTHONPATH"] = "%s:/venv/bin" % scratch
        env["PYTHONHASHSEED"] = "0"
        pr = subprocess.run([sys.executable, GDS] + args, cwd=scratch, env=env, capture_output=True, text=True, timeout=600)
        out = os.path.join(scratch, "nml.py")
        if pr.returncode != 0 or not os.path.exists(out):
            die("generateDS failed (exit %s): %s" % (pr.returncode, (pr.stderr or pr.stdout)[-800:]))
        src = open(out).read()
        for a, b, g in seds:
            src = re.sub(a, b, src) if g else "\n".join(re.sub(a, b, l, count=1) for l in src.split("\n"))
        return src, args, seds, schema
    finally:
        shutil.rmtree(scratch, ignore_errors=True)


def strip(tree):
    for n in ast.walk(tree):
        if isinstance(n, (ast.FunctionDef, ast.AsyncFunctionDef, ast.ClassDef, ast.Module)):
            b = n.body
            if b and isinstance(b[0], ast.Expr) and isinstance(getattr(b[0], "value", None), ast.Constant) \
                    and isinstance(b[0].value.value, str):
                n.body = b[1:] or [ast.Pass()]
        if isinstance(n, ast.arg):
            n.annotation = None
        if isinstance(n, (ast.FunctionDef, ast.AsyncFunctionDef)):
            n.returns = None
    return tree


def is_super_validate(stmt, cls):
    """<cls>.superclass.validate_(self, gds_collector, recursive)"""
    try:
        c = stmt.value
        return (isinstance(stmt, ast.Expr) and isinstance(c, ast.Call) and not c.keywords
                and c.func.attr == "validate_" and c.func.value.attr == "superclass" and c.func.value.value.id == cls
                and [a.id for a in c.args] == ["self", "gds_collector", "recursive"])
    except AttributeError:
        return False


def member_name(m):
    if isinstance(m, (ast.FunctionDef, ast.AsyncFunctionDef, ast.ClassDef)):
        return m.name
    if isinstance(m, ast.Assign) and len(m.targets) == 1 and isinstance(m.targets[0], ast.Name):
        return m.targets[0].id
    if isinstance(m, (ast.Import, ast.ImportFrom)):
        return "import " + ",".join((a.asname or a.name) for a in m.names)
    return "<" + type(m).__name__ + ">"


def digest(node):
    return hashlib.sha256(ast.dump(node).encode()).hexdigest()[:16]


def units(src, normalise_super_validate):
    tree = strip(ast.parse(src))
    out, texts, removed = [], {}, 0
    seen = {}

    def add(owner, m):
        name = member_name(m)
        k = (owner, name)
        seen[k] = seen.get(k, 0) + 1
        if seen[k] > 1:
            name = "%s#%d" % (name, seen[k])
        out.append([owner, name, digest(m)])
        texts[owner + "." + name] = ast.unparse(m)

    for n in tree.body:
        if isinstance(n, ast.ClassDef):
            out.append([n.name, "<bases>", digest(ast.Tuple(elts=n.bases + [k.value for k in n.keywords], ctx=ast.Load()))])
            texts[n.name + ".<bases>"] = ", ".join(ast.unparse(b) for b in n.bases)
            for m in n.body:
                if normalise_super_validate and isinstance(m, ast.FunctionDef) and m.name == "validate_":
                    keep = [s for s in m.body if not is_super_validate(s, n.name)]
                    removed += len(m.body) - len(keep)
                    m.body = keep
                add(n.name, m)
        else:
            add("<module>", n)
    # import statements are order-insensitive (the shipped file is isort-ed): list them first, sorted
    imps = sorted(u for u in out if u[0] == "<module>" and u[1].startswith("import "))
    out = imps + [u for u in out if not (u[0] == "<module>" and u[1].startswith("import "))]
    return out, texts, removed


def imports_of(src):
    """names bound by top-level imports -> what they denote"""
    b = {}
    for n in ast.parse(src).body:
        if isinstance(n, ast.Import):
            for a in n.names:
                b[a.asname or a.name.split(".")[0]] = a.name if a.asname else a.name.split(".")[0]
        elif isinstance(n, ast.ImportFrom):
            for a in n.names:
                b[a.asname or a.name] = "%s%s.%s" % ("." * n.level, n.module or "", a.name)
    return b


def main():
    shipped_src = open(os.path.join(NML, "nml.py")).read()
    m = re.search(r"by generateDS\.py version ([0-9.]+?)\.?\s*$", shipped_src[:3000], re.M)
    header_version = m.group(1) if m else ""
    g = open(GDS).read()
    m = re.search(r'^VERSION = "([^"]+)"', g, re.M)
    if not m:
        die("generateDS VERSION not found")
    gen_version = m.group(1)
    regen_src, args, seds, schema = regenerate()
    norm = gen_version != header_version
    ru, rt, removed = units(regen_src, norm)
    su, st, _ = units(shipped_src, False)
    diffs = []
    rk = {(o, n): d for o, n, d in ru}
    sk = {(o, n): d for o, n, d in su}
    for k in sorted(set(rk) | set(sk)):
        if rk.get(k) != sk.get(k):
            key = k[0] + "." + k[1]
            diffs.append({"owner": k[0], "member": k[1], "regenerated": (rt.get(key) or "<absent>")[:1500],
                          "shipped": (st.get(key) or "<absent>")[:1500]})
    if not diffs and [u[:2] for u in ru] != [u[:2] for u in su]:
        i = next(i for i, (a, b) in enumerate(zip(ru, su)) if a[:2] != b[:2])
        diffs.append({"owner": su[i][0], "member": su[i][1], "regenerated": "order: %s.%s here" % tuple(ru[i][:2]),
                      "shipped": "order: %s.%s here" % tuple(su[i][:2])})
    # command-line options recorded in the shipped header vs the script
    hdr_opts = re.findall(r"^#   \('(--?[\w-]+)', '([^']*)'\)", shipped_src[:3000], re.M)
    scr_opts, i = [], 0
    while i < len(args):
        a = args[i]
        if a.startswith("--") and "=" in a:
            scr_opts.append(list(a.split("=", 1)))
        elif a.startswith("-") and i + 1 < len(args):
            scr_opts.append([a, args[i + 1]])
            i += 1
        i += 1
    print(json.dumps({
        "regen_units": ru, "shipped_units": su, "differences": diffs[:40], "n_differences": len(diffs),
        "generator_version": gen_version, "header_version": header_version,
        "normalised_super_validate": removed if norm else 0,
        "script_args": args, "script_seds": [[a, b] for a, b, _ in seds], "schema": schema,
        "header_options": [list(x) for x in hdr_opts], "script_options": scr_opts,
        "regen_imports": sorted(imports_of(regen_src).items()), "shipped_imports": sorted(imports_of(shipped_src).items()),
    }))


if __name__ == "__main__":
    main()
