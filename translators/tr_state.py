"""tr_state: C07 translator (shared-state footprint of the loaders and network builders).

Reads (python ast only; never imports the package) from $VERIF_REPO (default /repo)
     neuroml/loaders.py  neuroml/utils.py  neuroml/hdf5/*.py  neuroml/nml/nml.py
and prints ONE JSON document on the last stdout line:

  defaults   every parameter default that is not provably immutable, with the result of a small
             flow-insensitive effect analysis (mutated in place / escapes / passed on to a callee that
             mutates it; fixpoint over the resolved call graph of the analysed modules)
  fields     every class-level assignment of loaders.py, utils.py, hdf5/*.py with its placement
             (Shared = mutable, not rebound per instance by __init__, and mutated in place / assigned
             through the class; Own otherwise)
  globals    every module-level name of the analysed modules that is written at run time (by a function),
             with writer and reader functions
  external_state_calls   informational: calls that change process-global state outside the model
             (warnings filter, logging configuration, sys.path)
  entry_defaults  the `already_included` default mode of the three loader functions + the shapes of
             the call sites the Coq loader model relies on
  untranslatable  every shape the analysis cannot classify (the check turns each into a broken obligation)

Fail closed: an unknown use of a tracked object counts as `escapes` (treated like a mutation); an
unknown program shape in the places the Coq model mirrors goes to `untranslatable`.
"""
import ast
import glob
import json
import os
import sys

REPO = os.environ.get("VERIF_REPO", "/repo")

MUTATORS = {"append", "extend", "insert", "pop", "remove", "clear", "update", "setdefault", "add", "discard",
            "sort", "reverse", "popitem", "__setitem__", "__delitem__", "__iadd__", "appendleft", "extendleft",
            "difference_update", "intersection_update", "symmetric_difference_update"}
# methods that neither mutate the receiver nor retain it
READ_METHODS = {"keys", "values", "items", "get", "copy", "count", "index", "__contains__", "__len__", "__getitem__",
                "match", "search", "sub", "subn", "split", "findall", "fullmatch", "finditer",  # compiled regex
                "format", "join", "startswith", "endswith", "strip", "lower", "upper", "replace", "encode", "decode",
                "isdisjoint", "issubset", "issuperset", "union", "intersection", "difference"}
# callees (by bare name) that neither mutate nor retain their arguments
ALLOW_CALLEES = {"len", "str", "repr", "print", "isinstance", "sorted", "list", "dict", "tuple", "set", "frozenset",
                 "enumerate", "iter", "bool", "int", "float", "min", "max", "sum", "any", "all", "type", "id", "hash",
                 "print_method", "zip", "reversed", "range", "hasattr"}
# attribute-callees whose arguments are only formatted / written out
ALLOW_ATTR_CALLEES = {"debug", "info", "warning", "error", "critical", "exception", "write", "format", "join", "warn"}
FRESH_CTORS = {"dict", "list", "set", "OrderedDict", "defaultdict", "deque", "Counter", "frozenset", "tuple", "bytearray"}
EXTERNAL_STATE = {("warnings", "simplefilter"), ("warnings", "resetwarnings"), ("warnings", "filterwarnings"),
                  ("logging", "basicConfig"), ("os", "chdir"), ("sys", "setrecursionlimit")}
OK_DECORATORS = {"classmethod", "staticmethod", "property", "abstractmethod"}
ENTRY_FUNCS = ("read_neuroml2_file", "read_neuroml2_string", "_read_neuroml2")

untranslatable = []


def untrans(module, qual, reason):
    untranslatable.append({"file": module, "qualname": qual, "reason": reason})


# ------------------------------------------------------------------------------------------ indexing
class Fn:
    def __init__(self, module, qual, node, cls, outer):
        self.module, self.qual, self.node, self.cls, self.outer = module, qual, node, cls, outer
        a = node.args
        self.pos = [x.arg for x in getattr(a, "posonlyargs", [])] + [x.arg for x in a.args]
        self.kwonly = [x.arg for x in a.kwonlyargs]
        self.vararg = a.vararg.arg if a.vararg else None
        self.kwarg = a.kwarg.arg if a.kwarg else None
        self.defaults = {}
        for name, d in zip(self.pos[len(self.pos) - len(a.defaults):], a.defaults):
            self.defaults[name] = d
        for name, d in zip(self.kwonly, a.kw_defaults):
            if d is not None:
                self.defaults[name] = d
        self.params = self.pos + self.kwonly + [x for x in (self.vararg, self.kwarg) if x]
        decs = [dec_name(d) for d in getattr(node, "decorator_list", [])]
        self.decorators = decs
        self.kind = "classmethod" if "classmethod" in decs else "staticmethod" if "staticmethod" in decs else "plain"
        self._parents = False
        self._scope = None
        self._scope_nodes = None
        self._all = None
        self._names = None
        self._attrs = None

    def scope_nodes(self):
        if self._scope_nodes is None:
            self._scope_nodes = list(iter_scope_children(self.node))
        return self._scope_nodes

    def all_nodes(self):
        if self._all is None:
            self._all = list(ast.walk(self.node))
            self._names, self._attrs = {}, {}
            for n in self._all:
                if isinstance(n, ast.Name):
                    self._names.setdefault(n.id, []).append(n)
                elif isinstance(n, ast.Attribute):
                    self._attrs.setdefault(n.attr, []).append(n)
        return self._all

    def has_name(self, name):
        self.all_nodes()
        return name in self._names

    def has_attr(self, attr):
        self.all_nodes()
        return attr in self._attrs

    @property
    def key(self):
        return self.module + ":" + self.qual

    def set_parents(self):
        if not self._parents:
            for p in self.all_nodes():
                for c in ast.iter_child_nodes(p):
                    c._parent = p
            self.node._parent = None
            self._parents = True


class Cls:
    def __init__(self, module, name, node):
        self.module, self.name, self.node = module, name, node
        self.bases = [dec_name(b) for b in node.bases]
        self.methods = {}
        self.fields = []  # (attr, value expr)


def dec_name(d):
    if isinstance(d, ast.Call):
        d = d.func
    if isinstance(d, ast.Attribute):
        return d.attr
    if isinstance(d, ast.Name):
        return d.id
    return ast.unparse(d)


class Mod:
    def __init__(self, name, path):
        self.name, self.path = name, path
        self.tree = ast.parse(open(path, encoding="utf-8").read(), path)
        self.funcs = {}  # module-level functions name -> Fn
        self.classes = {}  # name -> Cls
        self.all_fns = []  # every def (methods, nested)
        self.mod_aliases = {}  # local name -> analysed module name
        self.name_imports = {}  # local name -> (module name, original name)
        self.level = {}  # module-level assigned name -> list of value exprs


def index_module(m, analysed):
    def visit_fn(node, qual, cls, outer):
        fn = Fn(m.name, qual, node, cls, outer)
        m.all_fns.append(fn)
        for sub in iter_scope_children(node):
            if isinstance(sub, (ast.FunctionDef, ast.AsyncFunctionDef)):
                visit_fn(sub, qual + ".<locals>." + sub.name, None, fn)
            elif isinstance(sub, ast.ClassDef):
                untrans(m.name, qual, "class defined inside a function: " + sub.name)
        return fn

    def visit_body(body, in_main=False):
        for st in body:
            if isinstance(st, (ast.FunctionDef, ast.AsyncFunctionDef)):
                m.funcs[st.name] = visit_fn(st, st.name, None, None)
            elif isinstance(st, ast.ClassDef):
                c = Cls(m.name, st.name, st)
                m.classes[st.name] = c
                for cst in st.body:
                    if isinstance(cst, (ast.FunctionDef, ast.AsyncFunctionDef)):
                        c.methods[cst.name] = visit_fn(cst, st.name + "." + cst.name, c, None)
                    elif isinstance(cst, ast.Assign):
                        for t in cst.targets:
                            for n in target_names(t):
                                c.fields.append((n, cst.value))
                    elif isinstance(cst, ast.AnnAssign) and cst.value is not None and isinstance(cst.target, ast.Name):
                        c.fields.append((cst.target.id, cst.value))
                    elif isinstance(cst, ast.ClassDef):
                        if m.name != "neuroml.nml.nml":
                            untrans(m.name, st.name, "nested class " + cst.name)
            elif isinstance(st, ast.Assign):
                for t in st.targets:
                    for n in target_names(t):
                        m.level.setdefault(n, []).append(st.value if isinstance(t, ast.Name) else None)
            elif isinstance(st, ast.AnnAssign) and isinstance(st.target, ast.Name):
                m.level.setdefault(st.target.id, []).append(st.value)
            elif isinstance(st, ast.AugAssign) and isinstance(st.target, ast.Name):
                m.level.setdefault(st.target.id, []).append(None)
            elif isinstance(st, (ast.Import, ast.ImportFrom)):
                record_import(m, st, analysed)
            elif isinstance(st, (ast.If, ast.Try, ast.With, ast.For, ast.While)):
                for fld in ("body", "orelse", "finalbody"):
                    visit_body(getattr(st, fld, []) or [])
                for h in getattr(st, "handlers", []) or []:
                    visit_body(h.body)

    visit_body(m.tree.body)
    # function-level imports also give aliases (e.g. `import neuroml.loaders as loaders` inside parse)
    for fn in m.all_fns:
        for sub in ast.walk(fn.node):
            if isinstance(sub, (ast.Import, ast.ImportFrom)):
                record_import(m, sub, analysed)


def record_import(m, st, analysed):
    if isinstance(st, ast.Import):
        for a in st.names:
            if a.name in analysed:
                if a.asname:
                    m.mod_aliases[a.asname] = a.name
                # plain `import neuroml.loaders` binds `neuroml`; attribute chains are resolved by suffix
    else:
        base = st.module or ""
        if st.level:  # relative import
            pkg = m.name.split(".")
            pkg = pkg[:len(pkg) - st.level] if not m.path.endswith("__init__.py") else pkg[:len(pkg) - st.level + 1]
            base = ".".join(pkg + ([st.module] if st.module else []))
        for a in st.names:
            full = base + "." + a.name if base else a.name
            if full in analysed:
                m.mod_aliases[a.asname or a.name] = full
            elif base in analysed:
                m.name_imports[a.asname or a.name] = (base, a.name)


def target_names(t):
    if isinstance(t, ast.Name):
        return [t.id]
    if isinstance(t, (ast.Tuple, ast.List)):
        out = []
        for e in t.elts:
            out += target_names(e)
        return out
    if isinstance(t, ast.Starred):
        return target_names(t.value)
    return []


def iter_scope_children(fn_node):
    """all nodes of a function body that belong to its own scope, plus the nested def/class nodes themselves
    (not their bodies)"""
    stack = list(fn_node.body)
    while stack:
        n = stack.pop()
        yield n
        if isinstance(n, (ast.FunctionDef, ast.AsyncFunctionDef, ast.ClassDef, ast.Lambda)):
            continue
        stack.extend(ast.iter_child_nodes(n))


# ---------------------------------------------------------------------------------- value classification
def immutable_expr(e):
    if isinstance(e, (ast.Constant, ast.Name, ast.Attribute)):
        if isinstance(e, ast.Attribute):
            return immutable_expr(e.value)
        return True
    if isinstance(e, ast.UnaryOp) and isinstance(e.op, (ast.USub, ast.UAdd)) and isinstance(e.operand, ast.Constant):
        return True
    if isinstance(e, ast.Tuple):
        return all(immutable_expr(x) for x in e.elts)
    return False


def is_iterator_expr(e):
    if isinstance(e, ast.GeneratorExp):
        return True
    if not isinstance(e, ast.Call):
        return False
    if isinstance(e.func, ast.Attribute) and isinstance(e.func.value, ast.Name) and e.func.value.id == "itertools":
        return True     # itertools.count() / cycle() / chain() ...: a running position that next()/for advances
    return isinstance(e.func, ast.Name) and e.func.id in ("zip", "map", "filter", "iter", "enumerate", "reversed", "open", "count", "cycle",
                                                          "chain", "islice", "repeat", "accumulate", "tee")


def value_kind(e):
    """immutable | logger | regex | mutable"""
    if e is None:
        return "mutable"
    if isinstance(e, ast.Call):
        f = e.func
        if isinstance(f, ast.Attribute) and f.attr == "getLogger":
            return "logger"
        if isinstance(f, ast.Attribute) and f.attr == "compile" and isinstance(f.value, ast.Name) and f.value.id in ("re", "re_"):
            return "regex"
        return "mutable"
    if isinstance(e, ast.JoinedStr):
        return "immutable"
    if isinstance(e, ast.BinOp):
        return "immutable" if value_kind(e.left) == "immutable" and value_kind(e.right) == "immutable" else "mutable"
    return "immutable" if immutable_expr(e) else "mutable"


# ------------------------------------------------------------------------------------- the world
class World:
    def __init__(self):
        self.mods = {}

    def family(self, c):
        """c, its analysed superclasses and its analysed subclasses (transitively)"""
        out = []
        seen = set()

        def up(k):
            if (k.module, k.name) in seen:
                return
            seen.add((k.module, k.name))
            out.append(k)
            for b in k.bases:
                for kb in self.class_by_name(b, k.module):
                    up(kb)

        up(c)
        for k in self.subclasses(c):
            if (k.module, k.name) not in seen:
                seen.add((k.module, k.name))
                out.append(k)
        return out

    def class_by_name(self, name, prefer_module=None):
        res = []
        for m in self.mods.values():
            if name in m.classes:
                res.append(m.classes[name])
        if prefer_module:
            pm = self.mods[prefer_module]
            if name in pm.classes:
                return [pm.classes[name]]
            if name in pm.name_imports:
                mm, orig = pm.name_imports[name]
                if orig in self.mods[mm].classes:
                    return [self.mods[mm].classes[orig]]
        return res

    def subclasses(self, c):
        out = []
        frontier = [c]
        while frontier:
            k = frontier.pop()
            for m in self.mods.values():
                if m.name == "neuroml.nml.nml":
                    continue
                for d in m.classes.values():
                    if k.name in d.bases and d not in out and d is not c:
                        out.append(d)
                        frontier.append(d)
        return out

    def mro_lookup(self, c, meth, seen=None):
        """first definition of meth in c or its analysed bases"""
        seen = seen or set()
        if (c.module, c.name) in seen:
            return None
        seen.add((c.module, c.name))
        if meth in c.methods:
            return c.methods[meth]
        for b in c.bases:
            for kb in self.class_by_name(b, c.module):
                r = self.mro_lookup(kb, meth, seen)
                if r:
                    return r
        return None

    def method_candidates(self, c, meth):
        """what `self.meth` may be for an instance whose static class is c: the MRO definition and overrides below"""
        out = []
        r = self.mro_lookup(c, meth)
        if r:
            out.append(r)
        for d in self.subclasses(c):
            if meth in d.methods and d.methods[meth] not in out:
                out.append(d.methods[meth])
        return out


W = World()


def enclosing_class(fn):
    f = fn
    while f is not None:
        if f.cls is not None:
            return f.cls
        f = f.outer
    return None


def resolve_callee(call, fn):
    """-> ('allow', None) | ('fns', [(Fn, offset)]) | ('unknown', text)"""
    f = call.func
    m = W.mods[fn.module]
    if isinstance(f, ast.Name):
        if f.id in ALLOW_CALLEES:
            return "allow", None
        # nested function of an enclosing function
        o = fn
        while o is not None:
            for g in m.all_fns:
                if g.outer is o and g.node.name == f.id:
                    return "fns", [(g, 0)]
            o = o.outer
        if f.id in m.funcs:
            return "fns", [(m.funcs[f.id], 0)]
        if f.id in m.classes:
            init = W.mro_lookup(m.classes[f.id], "__init__")
            return ("fns", [(init, 1)]) if init else ("allow", None)
        if f.id in m.name_imports:
            mm, orig = m.name_imports[f.id]
            tm = W.mods[mm]
            if orig in tm.funcs:
                return "fns", [(tm.funcs[orig], 0)]
            if orig in tm.classes:
                init = W.mro_lookup(tm.classes[orig], "__init__")
                return ("fns", [(init, 1)]) if init else ("unknown", "constructor of %s without analysed __init__" % orig)
        return "unknown", f.id
    if isinstance(f, ast.Attribute):
        recv = f.value
        c = enclosing_class(fn)
        if isinstance(recv, ast.Name) and recv.id in ("self", "cls") and c is not None:
            cands = W.method_candidates(c, f.attr)
            if cands:
                return "fns", [(g, 0 if g.kind == "staticmethod" else 1) for g in cands]
        if isinstance(recv, ast.Call) and isinstance(recv.func, ast.Name) and recv.func.id == "super" and c is not None:
            out = []
            for b in c.bases:
                for kb in W.class_by_name(b, c.module):
                    r = W.mro_lookup(kb, f.attr)
                    if r:
                        out.append((r, 1))
            if out:
                return "fns", out
        # module alias:  utils.add_all_to_document(...), loaders.read_neuroml2_file(...)
        target_mod = None
        if isinstance(recv, ast.Name) and recv.id in m.mod_aliases:
            target_mod = m.mod_aliases[recv.id]
        else:
            dotted = dotted_name(recv)
            if dotted and dotted in W.mods:
                target_mod = dotted
        if target_mod:
            tm = W.mods[target_mod]
            if f.attr in tm.funcs:
                return "fns", [(tm.funcs[f.attr], 0)]
            if f.attr in tm.classes:
                init = W.mro_lookup(tm.classes[f.attr], "__init__")
                return ("fns", [(init, 1)]) if init else ("unknown", f.attr)
        # ClassName.method(...)
        if isinstance(recv, ast.Name):
            for k in W.class_by_name(recv.id, fn.module):
                r = W.mro_lookup(k, f.attr)
                if r:
                    return "fns", [(r, 1 if r.kind == "classmethod" else 0)]
        if f.attr in ALLOW_ATTR_CALLEES:
            return "allow", None
        if dotted_name(f) in ("copy.copy", "copy.deepcopy"):
            return "allow", None
        return "unknown", ast.unparse(f)[:80]
    return "unknown", ast.unparse(f)[:80]


def dotted_name(e):
    parts = []
    while isinstance(e, ast.Attribute):
        parts.append(e.attr)
        e = e.value
    if isinstance(e, ast.Name):
        parts.append(e.id)
        return ".".join(reversed(parts))
    return None


# ------------------------------------------------------------------------- effect analysis of one object
class Effect:
    def __init__(self):
        self.mutated = []  # reasons
        self.escapes = []  # reasons
        self.passed = []  # (Fn, param)
        self.stored_attrs = []  # attr names of self the object is stored under
        self.rebinds = 0

    def merge_reason(self):
        return "; ".join((self.mutated + self.escapes)[:4])


def is_root(node, root):
    """root = ('name', id) | ('selfattr', attr) | ('clsattr', attr, {class names})"""
    if root[0] == "name":
        return isinstance(node, ast.Name) and node.id == root[1]
    if root[0] == "selfattr":
        return isinstance(node, ast.Attribute) and node.attr == root[1] and isinstance(node.value, ast.Name) \
            and node.value.id == "self"
    if root[0] == "anyattr":   # <any receiver>.<one of the names>: class metadata reached through cls / self / c in __mro__
        return isinstance(node, ast.Attribute) and node.attr in root[1]
    if root[0] == "call":      # the value returned by a call of <...>.<name>() / <name>()
        return isinstance(node, ast.Call) and dec_name(node.func) == root[1]
    if root[0] == "clsattr":
        if not (isinstance(node, ast.Attribute) and node.attr == root[1]):
            return False
        v = node.value
        if isinstance(v, ast.Name) and (v.id == "cls" or v.id in root[2]):
            return True
        if isinstance(v, ast.Attribute) and v.attr == "__class__":
            return True
        if isinstance(v, ast.Call) and isinstance(v.func, ast.Name) and v.func.id == "type":
            return True
        return False
    return False


def yields(expr, pred):
    """can the value of expr be the tracked object itself?"""
    if pred(expr):
        return True
    if isinstance(expr, ast.BoolOp):
        return any(yields(v, pred) for v in expr.values)
    if isinstance(expr, ast.IfExp):
        return yields(expr.body, pred) or yields(expr.orelse, pred)
    if isinstance(expr, ast.NamedExpr):
        return yields(expr.value, pred)
    return False


def analyse(fn, root, mutable_kind=True):
    """effect of function fn on the object denoted by root (and its local aliases)"""
    eff = Effect()
    if root[0] == "name":
        present = fn.has_name(root[1])
    elif root[0] == "anyattr":
        present = any(fn.has_attr(a) for a in root[1])
    elif root[0] == "call":
        present = fn.has_attr(root[1]) or fn.has_name(root[1])
    else:
        present = fn.has_attr(root[1])
    if not present:
        return eff
    fn.set_parents()
    aliases = set()
    if root[0] == "name":
        aliases.add(root[1])

    def pred(n):
        return (isinstance(n, ast.Name) and n.id in aliases) or (root[0] != "name" and is_root(n, root))

    changed = True
    while changed:
        changed = False
        for n in fn.all_nodes():
            val, tgts = None, []
            if isinstance(n, ast.Assign):
                val, tgts = n.value, n.targets
            elif isinstance(n, ast.AnnAssign) and n.value is not None:
                val, tgts = n.value, [n.target]
            elif isinstance(n, ast.NamedExpr):
                val, tgts = n.value, [n.target]
            if val is not None and yields(val, pred):
                for t in tgts:
                    if isinstance(t, ast.Name) and t.id not in aliases:
                        aliases.add(t.id)
                        changed = True

    def where(n):
        return "%s:%d" % (fn.qual, getattr(n, "lineno", 0))

    def classify(node):
        par = node._parent
        if par is None:
            return
        if isinstance(par, ast.BoolOp):
            return classify(par)
        if isinstance(par, ast.IfExp):
            if par.test is node:
                return
            return classify(par)
        if isinstance(par, ast.NamedExpr):
            return classify(par)
        if isinstance(par, ast.Attribute) and par.value is node:
            gp = par._parent
            if isinstance(par.ctx, (ast.Store, ast.Del)):
                eff.mutated.append("attribute assigned at " + where(par))
                return
            if isinstance(gp, ast.Call) and gp.func is par:
                if par.attr in MUTATORS:
                    eff.mutated.append(".%s() at %s" % (par.attr, where(par)))
                elif par.attr in READ_METHODS:
                    pass
                else:
                    eff.escapes.append("unknown method .%s() at %s" % (par.attr, where(par)))
                return
            eff.escapes.append("attribute .%s loaded at %s" % (par.attr, where(par)))
            return
        if isinstance(par, ast.Subscript):
            if par.value is node and isinstance(par.ctx, (ast.Store, ast.Del)):
                eff.mutated.append("item %s at %s" % ("assigned" if isinstance(par.ctx, ast.Store) else "deleted", where(par)))
                return
            if par.value is node and isinstance(par._parent, ast.AugAssign) and par._parent.target is par:
                eff.mutated.append("item augmented at " + where(par))
            return
        if isinstance(par, ast.AugAssign):
            return  # value side: read
        if isinstance(par, (ast.For, ast.AsyncFor, ast.comprehension)):
            return
        if isinstance(par, (ast.Compare, ast.BinOp, ast.UnaryOp, ast.JoinedStr, ast.FormattedValue, ast.If, ast.While,
                            ast.Assert, ast.Expr, ast.Delete, ast.Slice, ast.Index if hasattr(ast, "Index") else ast.Slice)):
            return
        if isinstance(par, (ast.Tuple, ast.List, ast.Set, ast.Dict)):
            gp = par._parent
            if isinstance(gp, ast.BinOp) and isinstance(gp.op, ast.Mod) and gp.right is par:
                return
            eff.escapes.append("put into a container display at " + where(par))
            return
        if isinstance(par, ast.Return):
            eff.escapes.append("returned at " + where(par))
            return
        if isinstance(par, (ast.Yield, ast.YieldFrom, ast.Await)):
            eff.escapes.append("yielded at " + where(par))
            return
        if isinstance(par, ast.Starred):
            return
        if isinstance(par, ast.keyword):
            call = par._parent
            if par.arg is None:
                return  # **obj : unpacked into a new dict
            return on_call(call, node, kw=par.arg)
        if isinstance(par, ast.Call):
            if par.func is node:
                eff.escapes.append("called at " + where(par))
                return
            idx = None
            for i, a in enumerate(par.args):
                if isinstance(a, ast.Starred):
                    break
                if a is node:
                    idx = i
                    break
            if idx is None:
                eff.escapes.append("passed after a *args at " + where(par))
                return
            return on_call(par, node, pos=idx)
        if isinstance(par, (ast.Assign, ast.AnnAssign)):
            tgts = par.targets if isinstance(par, ast.Assign) else [par.target]
            for t in tgts:
                if isinstance(t, ast.Name):
                    continue
                if isinstance(t, ast.Attribute) and isinstance(t.value, ast.Name) and t.value.id == "self":
                    if root[0] == "selfattr" and t.attr == root[1]:
                        continue
                    eff.stored_attrs.append(t.attr)
                    continue
                eff.escapes.append("stored into %s at %s" % (ast.unparse(t)[:40], where(par)))
            return
        if isinstance(par, ast.withitem):
            eff.escapes.append("used as context manager at " + where(par))
            return
        eff.escapes.append("unclassified use (%s) at %s" % (type(par).__name__, where(par)))

    def on_call(call, node, pos=None, kw=None):
        kind, res = resolve_callee(call, fn)
        if kind == "allow":
            return
        if kind == "unknown":
            eff.escapes.append("passed to unresolved callee %s at %s" % (res, where(call)))
            return
        for g, off in res:
            if kw is not None:
                if kw in g.pos or kw in g.kwonly:
                    eff.passed.append((g, kw))
                else:
                    eff.escapes.append("passed as keyword %s to %s which has no such parameter" % (kw, g.qual))
            else:
                j = pos + off
                if j < len(g.pos):
                    eff.passed.append((g, g.pos[j]))
                else:
                    eff.escapes.append("passed positionally beyond the parameters of %s at %s" % (g.qual, where(call)))

    for n in fn.all_nodes():
        if isinstance(n, ast.Name) and n.id in aliases:
            if isinstance(n.ctx, ast.Load):
                classify(n)
            elif isinstance(n.ctx, ast.Store) and isinstance(n._parent, ast.AugAssign) and n._parent.target is n:
                if mutable_kind:
                    eff.mutated.append("augmented assignment at " + where(n))
        elif root[0] == "call" and is_root(n, root):
            classify(n)
        elif root[0] not in ("name", "call") and is_root(n, root):
            if isinstance(n.ctx, ast.Load):
                classify(n)
            elif isinstance(n.ctx, (ast.Store, ast.Del)):
                if isinstance(n._parent, ast.AugAssign) and n._parent.target is n and mutable_kind:
                    eff.mutated.append("augmented assignment at " + where(n))
                else:
                    eff.rebinds += 1
    return eff


_param_cache = {}


def param_effect(fn, p):
    k = (fn.key, p)
    if k not in _param_cache:
        _param_cache[k] = analyse(fn, ("name", p))
    return _param_cache[k]


def attr_mutations(c, attr):
    """in-place mutations of self.<attr> / Class.<attr> by methods of the family of c -> list of reasons"""
    why = []
    fam = W.family(c)
    names = {k.name for k in fam}
    for k in fam:
        for g in fn_and_nested(k):
            e = analyse(g, ("selfattr", attr))
            why += e.mutated + e.escapes
            why += closure_reasons(e)
            e2 = analyse(g, ("clsattr", attr, names))
            why += e2.mutated + e2.escapes + closure_reasons(e2)
    # Class.attr mutated from anywhere else in the analysed (non-binding) modules
    for m in W.mods.values():
        if m.name == "neuroml.nml.nml":
            continue
        for g in m.all_fns:
            if enclosing_class(g) in fam:
                continue
            e2 = analyse(g, ("clsattr", attr, names - {"cls"}))
            why += e2.mutated + e2.escapes + closure_reasons(e2)
    return why


def fn_and_nested(k):
    m = W.mods[k.module]
    return [g for g in m.all_fns if enclosing_class(g) is k]


def closure_reasons(eff, seen=None):
    """reasons inherited from callees the object is passed to (fixpoint by depth-first search with a visited set)"""
    seen = seen if seen is not None else set()
    out = []
    for g, q in eff.passed:
        if (g.key, q) in seen:
            continue
        seen.add((g.key, q))
        e = param_effect(g, q)
        for r in e.mutated:
            out.append("via %s(%s): %s" % (g.qual, q, r))
        for r in e.escapes:
            out.append("via %s(%s): %s" % (g.qual, q, r))
        gc = enclosing_class(g)
        for a in e.stored_attrs:
            if gc is not None:
                for r in attr_mutations(gc, a):
                    out.append("via %s(%s) stored as self.%s: %s" % (g.qual, q, a, r))
        out += closure_reasons(e, seen)
    return out


# ---------------------------------------------------------------------------------- 1. defaults
def collect_defaults():
    out = []
    for m in W.mods.values():
        for fn in m.all_fns:
            for p, d in fn.defaults.items():
                if immutable_expr(d):
                    continue
                e = param_effect(fn, p)
                mutated = list(e.mutated)
                escapes = list(e.escapes)
                c = enclosing_class(fn)
                for a in e.stored_attrs:
                    if c is None:
                        escapes.append("stored as self.%s outside a class" % a)
                    else:
                        for r in attr_mutations(c, a):
                            mutated.append("stored as self.%s, then %s" % (a, r))
                for r in closure_reasons(e):
                    mutated.append(r)
                out.append({"module": m.name, "func": fn.qual, "param": p, "default_src": ast.unparse(d)[:80],
                            "mutated": bool(mutated), "escapes": bool(escapes), "stored_attrs": sorted(set(e.stored_attrs)),
                            "why": "; ".join((mutated + escapes)[:3])[:400]})
        # lambdas with defaults
        for n in ast.walk(m.tree):
            if isinstance(n, ast.Lambda):
                for d in list(n.args.defaults) + [x for x in n.args.kw_defaults if x is not None]:
                    if not immutable_expr(d):
                        untrans(m.name, "<lambda>:%d" % n.lineno, "lambda with a non-immutable default")
    return out


# ------------------------------------------------------------------------------------ 2. fields
def init_fresh_attrs(c, depth=0, seen=None):
    """attrs that the construction of an instance of class c certainly rebinds to a fresh (or caller-supplied) value"""
    init = W.mro_lookup(c, "__init__")
    if init is None:
        return set(), set()
    return body_fresh_attrs(init, enclosing_class(init), 0, set())


def body_fresh_attrs(fn, c, depth, seen):
    fresh, aliased = set(), set()
    if depth > 6 or fn.key in seen:
        return fresh, aliased
    seen = seen | {fn.key}
    for st in fn.node.body:
        pairs = []
        if isinstance(st, ast.Assign):
            for t in st.targets:
                if isinstance(t, (ast.Tuple, ast.List)) and isinstance(st.value, (ast.Tuple, ast.List)) \
                        and len(t.elts) == len(st.value.elts):
                    pairs += list(zip(t.elts, st.value.elts))
                else:
                    pairs.append((t, st.value))
        elif isinstance(st, ast.AnnAssign) and st.value is not None:
            pairs.append((st.target, st.value))
        for t, v in pairs:
            if isinstance(t, ast.Attribute) and isinstance(t.value, ast.Name) and t.value.id == "self":
                if fresh_value(v, fn):
                    fresh.add(t.attr)
                    aliased.discard(t.attr)
                else:
                    aliased.add(t.attr)
                    fresh.discard(t.attr)
        call = st.value if isinstance(st, ast.Expr) and isinstance(st.value, ast.Call) else None
        if call is not None and isinstance(call.func, ast.Attribute):
            f = call.func
            targets = []
            if isinstance(f.value, ast.Name) and f.value.id == "self" and c is not None:
                r = W.mro_lookup(c, f.attr)
                if r:
                    targets.append(r)
            elif isinstance(f.value, ast.Call) and isinstance(f.value.func, ast.Name) and f.value.func.id == "super" \
                    and c is not None:
                for b in c.bases:
                    for kb in W.class_by_name(b, c.module):
                        r = W.mro_lookup(kb, f.attr)
                        if r:
                            targets.append(r)
                            break
            elif isinstance(f.value, ast.Name) and c is not None and call.args and isinstance(call.args[0], ast.Name) \
                    and call.args[0].id == "self":
                for kb in W.class_by_name(f.value.id, c.module):
                    r = W.mro_lookup(kb, f.attr)
                    if r:
                        targets.append(r)
            for r in targets[:1]:
                fr, al = body_fresh_attrs(r, enclosing_class(r), depth + 1, seen)
                fresh |= fr
                fresh -= al
                aliased |= al
                aliased -= fr
    return fresh, aliased


def fresh_value(v, fn):
    if isinstance(v, (ast.Dict, ast.List, ast.Set, ast.ListComp, ast.DictComp, ast.SetComp, ast.Constant, ast.JoinedStr)):
        return True
    if isinstance(v, ast.Call):
        name = dec_name(v.func)
        if name in FRESH_CTORS or name in ("copy", "deepcopy"):
            return True
        return False
    if isinstance(v, ast.Name):
        return v.id in fn.params  # supplied by the caller of __init__ (its default is analysed as a default site)
    if isinstance(v, (ast.IfExp,)):
        return fresh_value(v.body, fn) and fresh_value(v.orelse, fn)
    if isinstance(v, ast.BoolOp):
        return all(fresh_value(x, fn) for x in v.values)
    if isinstance(v, (ast.BinOp, ast.UnaryOp, ast.Compare)):
        return True
    return False


def collect_fields():
    out = []
    for m in W.mods.values():
        if m.name == "neuroml.nml.nml":
            continue
        for c in m.classes.values():
            seen_attr = set()
            for attr, val in c.fields:
                if attr in seen_attr:
                    continue
                seen_attr.add(attr)
                vals = [v for a, v in c.fields if a == attr]
                kinds = {value_kind(v) for v in vals}
                kind = "mutable" if "mutable" in kinds else "logger" if "logger" in kinds else "immutable"
                # rebound per instance: for c and every analysed subclass the constructor chain assigns it fresh
                rebound = True
                for k in [c] + W.subclasses(c):
                    fr, al = init_fresh_attrs(k)
                    if attr not in fr:
                        rebound = False
                why = []
                class_assigned = False
                fam = W.family(c)
                names = {k.name for k in fam}
                for mm in W.mods.values():
                    if mm.name == "neuroml.nml.nml":
                        continue
                    for g in mm.all_fns:
                        infam = enclosing_class(g) in fam
                        e2 = analyse(g, ("clsattr", attr, names if infam else names - {"cls"}), mutable_kind=(kind == "mutable"))
                        if e2.rebinds:
                            class_assigned = True
                            why.append("assigned through the class in " + g.qual)
                        if not infam and isinstance(g.node, ast.AST):
                            pass
                if kind == "mutable":
                    why += attr_mutations(c, attr)
                mutated = bool([w for w in why if not w.startswith("assigned through the class")]) and kind == "mutable"
                shared = (kind == "mutable" and not rebound and mutated) or class_assigned
                out.append({"module": m.name, "cls": c.name, "attr": attr, "kind": kind, "rebound_in_init": rebound,
                            "mutated_in_place": mutated, "class_assigned": class_assigned,
                            "placement": "Shared" if shared else "Own", "why": "; ".join(why[:3])[:400]})
            # dynamic attribute access in the class body makes the per-attribute scan unreliable
            for g in fn_and_nested(c):
                for n in ast.walk(g.node):
                    if isinstance(n, ast.Call) and isinstance(n.func, ast.Name) and n.func.id in ("setattr", "delattr", "vars", "exec", "eval"):
                        if n.func.id == "vars":
                            g.set_parents()
                            arg = ast.unparse(n.args[0]) if n.args else ""
                            par = getattr(n, "_parent", None)
                            if arg == "self":        # the instance dict: per-instance state by construction
                                continue
                            if isinstance(par, ast.Attribute) and par.attr == "get":   # a read of a class/instance dict
                                continue
                        untrans(m.name, g.qual, "dynamic state access: %s()" % n.func.id)
                    if isinstance(n, ast.Attribute) and n.attr == "__dict__":
                        untrans(m.name, g.qual, "dynamic state access: __dict__")
    return out


# ------------------------------------------------------------------------- 2b. class metadata of the bindings
BINDINGS = "neuroml.nml.nml"
RUNTIME = "neuroml.nml.generatedssupersuper"
FRESH_VALUE_CALLS = {"copy", "deepcopy", "list", "set", "dict", "tuple", "sorted", "frozenset"}


def all_functions():
    for m in W.mods.values():
        for g in m.all_fns:
            yield m, g


def fresh_returning_call(call):
    """a call of an analysed function/method (resolved by name) all of whose return values are freshly built objects"""
    name = dec_name(call.func)
    if name in FRESH_VALUE_CALLS:
        return True
    cands = [g for m, g in all_functions() if g.node.name == name and m.name in (RUNTIME, "neuroml.utils", "neuroml.loaders")]
    if not cands:
        return False
    for g in cands:
        rets = [n for n in g.scope_nodes() if isinstance(n, ast.Return)]
        if not rets:
            return False
        for r in rets:
            v = r.value
            if not (isinstance(v, (ast.List, ast.Dict, ast.Set, ast.ListComp, ast.DictComp, ast.SetComp, ast.Tuple))
                    or (isinstance(v, ast.Call) and dec_name(v.func) in FRESH_VALUE_CALLS)):
                return False
    return True


def collect_classmeta():
    """class-level lists/dicts of the generated classes (member_data_items_, validate_*_patterns_): one row per attribute
    name (pattern), with every in-place mutation / rebinding by run-time code, reached through ANY receiver or an alias;
    and the keyed memos the bindings runtime keeps on the class object (__all_members_)."""
    rows = []
    bm = W.mods.get(BINDINGS)
    groups = {}
    if bm is not None:
        for c in bm.classes.values():
            for attr, val in c.fields:
                if value_kind(val) == "mutable" and not (isinstance(val, ast.Call) and dec_name(val.func) == "staticmethod"):
                    g = "validate_*_patterns_" if attr.startswith("validate_") and attr.endswith("_patterns_") else attr
                    groups.setdefault(g, {"names": set(), "classes": 0})
                    groups[g]["names"].add(attr)
                    groups[g]["classes"] += 1
    for g, info in sorted(groups.items()):
        why = []
        root = ("anyattr", frozenset(info["names"]))
        for m, fn in all_functions():
            e = analyse(fn, root)
            for r in e.mutated:
                why.append("%s: %s" % (m.name, r))
            for r in e.escapes:
                why.append("%s: %s" % (m.name, r))
            for r in closure_reasons(e):
                why.append("%s: %s" % (m.name, r))
            if e.rebinds:
                why.append("%s: rebound at run time in %s" % (m.name, fn.qual))
            for a in e.stored_attrs:
                why.append("%s: stored as self.%s in %s" % (m.name, a, fn.qual))
        rows.append({"module": BINDINGS, "attr": g, "kind": "metadata", "classes": info["classes"],
                     "mutated": bool(why), "aliases": False, "why": "; ".join(why[:3])[:400]})
    # --- memos: class attributes created at run time ( cls.X = {} ; cls.X[k] = v )
    memos = {}
    for m, fn in all_functions():
        if m.name == BINDINGS:
            continue
        c = enclosing_class(fn)
        if c is None:
            continue
        fields = {a for a, _ in c.fields}
        fn.set_parents()
        for n in fn.all_nodes():
            if isinstance(n, ast.Attribute) and isinstance(n.value, ast.Name) and (n.value.id == "cls" or n.value.id == c.name) \
                    and n.attr not in fields and n.attr not in c.methods and not (n.attr.startswith("__") and n.attr.endswith("__")):
                par = n._parent
                stored = isinstance(n.ctx, ast.Store) or (isinstance(par, ast.Subscript) and par.value is n
                                                           and isinstance(par.ctx, ast.Store))
                if stored:
                    memos.setdefault((m.name, c.name, n.attr), [])
    for (mn, cn, attr) in sorted(memos):
        mutated, aliases = [], []
        getters = set()
        for m, fn in all_functions():
            if not fn.has_attr(attr):
                continue
            fn.set_parents()
            for n in fn.all_nodes():
                if not (isinstance(n, ast.Attribute) and n.attr == attr):
                    continue
                par = n._parent
                if isinstance(n.ctx, ast.Store):
                    v = par.value if isinstance(par, ast.Assign) else None
                    if isinstance(v, ast.Dict) and not v.keys:
                        pass
                    elif isinstance(v, ast.Call) and fresh_returning_call(v):
                        pass     # a value computed once by a function that builds a new object
                    else:
                        aliases.append("%s:%d binds the memo to %s (not provably a fresh object)"
                                       % (fn.qual, n.lineno, ast.unparse(v)[:50] if v is not None else "?"))
                elif isinstance(par, ast.Return):
                    getters.add(fn.node.name)
                elif isinstance(par, ast.Subscript) and par.value is n:
                    gp = par._parent
                    if isinstance(par.ctx, ast.Store):
                        if isinstance(gp, ast.AugAssign):
                            continue     # cls.X[k] += v : extends the entry (fresh by the store rule), reads v
                        v = gp.value if isinstance(gp, ast.Assign) else None
                        fresh = isinstance(v, (ast.List, ast.Dict, ast.Set, ast.ListComp, ast.DictComp, ast.SetComp, ast.Tuple)) or \
                            (isinstance(v, ast.Call) and dec_name(v.func) in FRESH_VALUE_CALLS)
                        if not fresh:
                            aliases.append("%s:%d stores %s (not a fresh copy)" % (fn.qual, par.lineno, ast.unparse(v)[:50] if v is not None else "?"))
                    elif isinstance(par.ctx, ast.Del):
                        mutated.append("%s deletes a memo entry" % fn.qual)
                    else:
                        # a load of cls.X[k]: returned (the function is a getter of memo values), or used as a read
                        if isinstance(gp, ast.Return):
                            getters.add(fn.node.name)
                        elif isinstance(gp, (ast.Call,)) and dec_name(gp.func) in FRESH_VALUE_CALLS | {"len"}:
                            pass
                        elif isinstance(gp, (ast.For, ast.comprehension, ast.Compare)):
                            pass
                        else:
                            e = Effect()
                            mutated.append("%s uses a memo entry in an unclassified way (%s)" % (fn.qual, type(gp).__name__))
                else:
                    mutated.append("%s uses the memo table other than by key (%s)" % (fn.qual, type(par).__name__))
        # the values handed out by the getters must not be mutated by their callers
        for gname in sorted(getters):
            for m, fn in all_functions():
                if fn.node.name == gname and enclosing_class(fn) is not None and enclosing_class(fn).name == cn:
                    continue
                e = analyse(fn, ("call", gname))
                for r in e.mutated + closure_reasons(e):
                    mutated.append("%s: value of %s() %s" % (m.name, gname, r))
                for r in e.escapes:
                    if r.startswith("returned") or r.startswith("attribute ."):
                        continue   # handed on / attribute of the list object read: still only read here
                    mutated.append("%s: value of %s() %s" % (m.name, gname, r))
        rows.append({"module": mn, "attr": "%s.%s" % (cn, attr), "kind": "memo", "classes": 1, "getters": sorted(getters),
                     "mutated": bool(mutated), "aliases": bool(aliases), "why": "; ".join((aliases + mutated)[:3])[:400]})
    return rows


# ------------------------------------------------------------------------------------ 3. globals
def scope_info(fn):
    if fn._scope is None:
        stores, globs, nonloc = set(fn.params), set(), set()
        for n in fn.scope_nodes():
            if isinstance(n, ast.Global):
                globs.update(n.names)
            elif isinstance(n, ast.Nonlocal):
                nonloc.update(n.names)
            elif isinstance(n, ast.Name) and isinstance(n.ctx, (ast.Store, ast.Del)):
                stores.add(n.id)
            elif isinstance(n, (ast.FunctionDef, ast.AsyncFunctionDef, ast.ClassDef)):
                stores.add(n.name)
            elif isinstance(n, (ast.Import, ast.ImportFrom)):
                for a in n.names:
                    stores.add((a.asname or a.name).split(".")[0])
            elif isinstance(n, ast.ExceptHandler) and n.name:
                stores.add(n.name)
        fn._scope = (stores - globs - nonloc, globs, stores & globs)
    return fn._scope


def is_local(fn, name):
    f = fn
    while f is not None:
        loc, globs, _ = scope_info(f)
        if name in globs:
            return False
        if name in loc:
            return True
        f = f.outer
    return False


def collect_globals():
    out = []
    ext = []
    for m in W.mods.values():
        written = {}  # name -> set(writers)
        mutable_names = {n for n, vals in m.level.items() if any(value_kind(v) == "mutable" for v in vals)}
        fnames = set(m.funcs) if m.name != "neuroml.nml.nml" else set()
        iterator_names = {n for n, vals in m.level.items() if any(is_iterator_expr(v) for v in vals)}
        for fn in m.all_fns:
            loc, globs, gstores = scope_info(fn)
            for name in gstores:
                written.setdefault(name, set()).add(fn.qual)
            # a module-level iterator (zip/map/filter/iter/generator/open): any use in a function consumes it
            for n in fn.scope_nodes():
                if isinstance(n, ast.Name) and n.id in iterator_names and isinstance(n.ctx, ast.Load) and not is_local(fn, n.id):
                    written.setdefault(n.id, set()).add(fn.qual + " (consumes the iterator)")
            # in-place mutation of module-level mutables / function objects
            used = set()
            for n in fn.scope_nodes():
                if isinstance(n, ast.Name) and (n.id in mutable_names or n.id in fnames) and not is_local(fn, n.id):
                    used.add(n.id)
            for name in used:
                e = analyse(fn, ("name", name))
                reasons = e.mutated + closure_reasons(e)
                gc = enclosing_class(fn)
                for a in e.stored_attrs:   # self.x = MODULE_LEVEL_OBJECT ; self.x[k] = v elsewhere
                    if gc is not None:
                        reasons += ["stored as self.%s, then %s" % (a, r) for r in attr_mutations(gc, a)]
                if name in fnames:
                    reasons = [r for r in e.mutated if r.startswith("attribute assigned")]
                if reasons:
                    written.setdefault(name, set()).add(fn.qual)
            # decorators that keep a cache
            for d in fn.decorators:
                if "cache" in d.lower():
                    written.setdefault("<%s:%s>" % (d, fn.qual), set()).add(fn.qual)
                elif d not in OK_DECORATORS and m.name != "neuroml.nml.nml":
                    untrans(m.name, fn.qual, "unknown decorator @" + d)
        # writes through a module alias from other modules:  loaders.x = ...
        for om in W.mods.values():
            for fn in om.all_fns:
                for n in fn.scope_nodes():
                    if isinstance(n, ast.Attribute) and isinstance(n.ctx, (ast.Store, ast.Del)) and isinstance(n.value, ast.Name) \
                            and om.mod_aliases.get(n.value.id) == m.name and not is_local(fn, n.value.id):
                        written.setdefault(n.attr, set()).add(om.name + ":" + fn.qual)
        for name, writers in sorted(written.items()):
            readers = set()
            if name.startswith("<"):
                readers = set(writers)
            else:
                for fn in m.all_fns:
                    if not fn.has_name(name):
                        continue
                    for n in fn.scope_nodes():
                        if isinstance(n, ast.Name) and n.id == name and isinstance(n.ctx, ast.Load) and not is_local(fn, name):
                            # a pure in-place write (X[k] = v) loads the name but does not read the content
                            fn.set_parents()
                            par = n._parent
                            if isinstance(par, ast.Subscript) and par.value is n and isinstance(par.ctx, (ast.Store,)):
                                continue
                            readers.add(fn.qual)
                for om in W.mods.values():
                    if om is m:
                        continue
                    for local, (mm, orig) in om.name_imports.items():
                        if mm == m.name and orig == name:
                            readers.add(om.name + ":<import>")
                    for n in ast.walk(om.tree):
                        if isinstance(n, ast.Attribute) and n.attr == name and isinstance(n.ctx, ast.Load) \
                                and isinstance(n.value, ast.Name) and om.mod_aliases.get(n.value.id) == m.name:
                            readers.add(om.name + ":%d" % n.lineno)
            out.append({"module": m.name, "name": name, "writers": sorted(writers), "readers": sorted(readers)})
        # informational: process-global side effects outside the model
        for n in ast.walk(m.tree):
            if isinstance(n, ast.Call) and isinstance(n.func, ast.Attribute):
                d = dotted_name(n.func)
                if d:
                    parts = d.split(".")
                    if (parts[0], parts[-1]) in EXTERNAL_STATE or d.startswith("sys.path.") or d == "logger.setLevel":
                        ext.append({"module": m.name, "call": d, "line": n.lineno})
    return out, ext


# ------------------------------------------------------------------ 4. mutations of process-global state
PROC_CALLS = {
    "os.chdir": "cwd", "os.fchdir": "cwd",
    "os.putenv": "environ", "os.unsetenv": "environ", "os.environ.update": "environ", "os.environ.pop": "environ",
    "os.environ.setdefault": "environ", "os.environ.clear": "environ", "os.environ.popitem": "environ",
    "sys.path.append": "sys.path", "sys.path.insert": "sys.path", "sys.path.extend": "sys.path", "sys.path.remove": "sys.path",
    "sys.path.pop": "sys.path", "sys.path.clear": "sys.path", "sys.path.sort": "sys.path", "sys.path.reverse": "sys.path",
    "warnings.simplefilter": "warnings", "warnings.filterwarnings": "warnings", "warnings.resetwarnings": "warnings",
    "logging.basicConfig": "logging", "logging.disable": "logging", "logging.captureWarnings": "logging",
    "sys.setrecursionlimit": "recursionlimit", "locale.setlocale": "locale",
}
PROC_TARGETS = {"os.environ": "environ", "sys.path": "sys.path", "sys.stdout": "stdio", "sys.stderr": "stdio", "sys.stdin": "stdio",
                "warnings.filters": "warnings"}


MODULE_ROOTS = set()    # names bound to imported modules in the module being scanned (set by collect_process_state)


def proc_kind_of(node):
    """(kind, text) if the node mutates process-global state, else None"""
    if isinstance(node, ast.Call):
        d = dotted_name(node.func)
        if d:
            if d in PROC_CALLS:
                return PROC_CALLS[d], d
            if d.endswith(".setLevel") or d.endswith(".addHandler") or d.endswith(".removeHandler"):
                return "logging", d
        return None
    tgts = []
    if isinstance(node, ast.Assign):
        tgts = node.targets
    elif isinstance(node, (ast.AugAssign, ast.AnnAssign)):
        tgts = [node.target]
    elif isinstance(node, ast.Delete):
        tgts = node.targets
    for t in tgts:
        base = t.value if isinstance(t, ast.Subscript) else t
        d = dotted_name(base) if isinstance(base, (ast.Attribute, ast.Name)) else None
        if d in PROC_TARGETS:
            return PROC_TARGETS[d], ast.unparse(t)[:40] + " = ..."
        # an attribute of ANOTHER module (neuroml.build_time_validation.ENABLED = ..): a process-wide switch
        if d and "." in d and d.split(".")[0] in MODULE_ROOTS and isinstance(base, ast.Attribute):
            return "module-attribute", ast.unparse(t)[:60] + " = ..."
    return None


def collect_process_state():
    rows = []
    for m in W.mods.values():
        parents = {}
        MODULE_ROOTS.clear()
        MODULE_ROOTS.update(m.mod_aliases)
        for p in ast.walk(m.tree):
            if isinstance(p, ast.Import):
                for al in p.names:
                    MODULE_ROOTS.add(al.asname or al.name.split(".")[0])
            for c in ast.iter_child_nodes(p):
                parents[c] = p
        for n in ast.walk(m.tree):
            pk = proc_kind_of(n)
            if pk is None:
                continue
            kind, text = pk
            # enclosing statement, function, guards
            chain = []
            x = n
            while x in parents:
                x = parents[x]
                chain.append(x)
            fn = next((c for c in chain if isinstance(c, (ast.FunctionDef, ast.AsyncFunctionDef, ast.Lambda))), None)
            stmt = n if isinstance(n, ast.stmt) else next(c for c in chain if isinstance(c, ast.stmt))
            main_guard = any(isinstance(c, ast.If) and "__name__" in ast.unparse(c.test) for c in chain)
            scope = "function" if fn is not None else ("script-only" if main_guard else "import-time")
            qual = "<module>"
            if fn is not None:
                for g in m.all_fns:
                    if g.node is fn:
                        qual = g.qual
            restored, how = False, "not restored"
            if fn is not None:
                # (a) a context manager that saves and restores the state
                for c in chain:
                    if isinstance(c, (ast.With, ast.AsyncWith)):
                        ctx = " ".join(ast.unparse(i.context_expr) for i in c.items)
                        if (kind == "warnings" and "catch_warnings" in ctx) or (kind == "stdio" and "redirect_std" in ctx) \
                                or (kind == "cwd" and "chdir" in ctx):
                            restored, how = True, "inside `with %s`" % ctx[:40]
                # (b) the statement is itself the restore in a finally block
                for c in chain:
                    if isinstance(c, ast.Try):
                        if any(stmt is f or stmt in ast.walk(f) for f in c.finalbody):
                            restored, how = True, "is the restore in a finally block"
                # (c) immediately followed by / inside the body of a try whose finally restores the same kind
                if not restored:
                    par = parents.get(stmt)
                    tries = []
                    for fld in ("body", "orelse", "finalbody"):
                        body = getattr(par, fld, None)
                        if isinstance(body, list) and stmt in body:
                            i = body.index(stmt)
                            if i + 1 < len(body) and isinstance(body[i + 1], ast.Try):
                                tries.append(body[i + 1])
                    if isinstance(par, ast.Try) and stmt in par.body:
                        tries.append(par)
                    for t in tries:
                        for f in t.finalbody:
                            for k in ast.walk(f):
                                pk2 = proc_kind_of(k)
                                if pk2 and pk2[0] == kind:
                                    ok = True
                                    if kind == "cwd":   # os.chdir(saved) with saved = os.getcwd() taken in this function
                                        arg = ast.unparse(k.args[0]) if isinstance(k, ast.Call) and k.args else ""
                                        ok = any(isinstance(a, ast.Assign) and ast.unparse(a.targets[0]) == arg
                                                 and "getcwd" in ast.unparse(a.value) for a in ast.walk(fn))
                                    if ok:
                                        restored, how = True, "restored in the finally of the try at line %d" % t.lineno
            rows.append({"module": m.name, "func": qual, "line": getattr(n, "lineno", 0), "kind": kind, "call": text,
                         "scope": scope, "restored": restored, "how": how})
    rows.sort(key=lambda r: (r["module"], r["line"]))
    return rows


# ------------------------------------------------------------------------------- entry defaults
# ------------------------------------------------------------------ writes on objects received as arguments
HANDLER_CLASSES = ("NetworkBuilder", "DefaultNetworkHandler")


def collect_argument_writes():
    """attribute writes on objects a function of the hdf5 modules RECEIVED as an argument (a third kind of shared store: the
    object belongs to the caller and may be handed to any number of handlers):  p.x = / p.x += / p.x[k] = / p[k] = /
    del p.x / setattr(p, ..) / delattr(p, ..) / p.x.<mutator>(..) / p.<mutator>(..) / vars(p)[..] = / p.__dict__...,
    p = any non-self parameter or a local name bound to one (`q = p`, `for q in (p, ...)`, `q = p or ...`)"""
    rows = []

    def base_of(e):
        """(root name, first attribute below the root or None) of a store/mutation target expression"""
        attr = None
        while True:
            if isinstance(e, ast.Attribute):
                attr = e.attr
                e = e.value
            elif isinstance(e, ast.Subscript):
                attr = "[]" if not isinstance(e.value, (ast.Attribute, ast.Subscript)) else attr
                e = e.value
            elif isinstance(e, ast.Call) and isinstance(e.func, ast.Name) and e.func.id == "vars" and len(e.args) == 1:
                attr = "__dict__"
                e = e.args[0]
            elif isinstance(e, ast.Name):
                return e.id, attr
            else:
                return None, None

    for m in W.mods.values():
        if not m.name.startswith("neuroml.hdf5"):
            continue
        for fn in m.all_fns:
            params = list(fn.params)
            if fn.cls is not None and fn.kind != "staticmethod" and fn.pos:
                params = [x for x in params if x != fn.pos[0]]
            if not params:
                continue
            alias = {x: x for x in params}          # local name -> parameter it may denote
            nodes = fn.scope_nodes()
            changed = True
            while changed:
                changed = False
                for n in nodes:
                    srcs, tgts = [], []
                    if isinstance(n, ast.Assign):
                        srcs, tgts = [n.value], n.targets
                    elif isinstance(n, ast.AnnAssign) and n.value is not None:
                        srcs, tgts = [n.value], [n.target]
                    elif isinstance(n, ast.NamedExpr):
                        srcs, tgts = [n.value], [n.target]
                    elif isinstance(n, (ast.For, ast.AsyncFor)):
                        srcs, tgts = [n.iter], [n.target]
                    for src in srcs:
                        cands = [src]
                        if isinstance(src, (ast.Tuple, ast.List, ast.Set)):
                            cands = list(src.elts)
                        elif isinstance(src, ast.BoolOp):
                            cands = list(src.values)
                        elif isinstance(src, ast.IfExp):
                            cands = [src.body, src.orelse]
                        for c in cands:
                            if isinstance(c, ast.Name) and c.id in alias:
                                for t in tgts:
                                    for nm in target_names(t):
                                        if nm not in alias:
                                            alias[nm] = alias[c.id]
                                            changed = True

            def add(node, root, attr, how):
                rows.append({"module": m.name, "cls": fn.cls.name if fn.cls is not None else "", "func": fn.qual,
                             "param": alias[root], "via": root, "attr": attr or "<object>", "line": getattr(node, "lineno", 0),
                             "how": how, "handler": bool(
                                 fn.cls is not None and fn.outer is None
                                 and (fn.cls.name in HANDLER_CLASSES or any(str(x).split(".")[-1] in HANDLER_CLASSES for x in fn.cls.bases))
                                 and fn.node.name.startswith(("handle", "finalise")))})

            for n in nodes:
                tg = []
                if isinstance(n, ast.Assign):
                    tg = [(t, "assignment") for t in n.targets]
                elif isinstance(n, (ast.AugAssign, ast.AnnAssign)):
                    tg = [(n.target, "augmented assignment" if isinstance(n, ast.AugAssign) else "assignment")]
                elif isinstance(n, ast.Delete):
                    tg = [(t, "del") for t in n.targets]
                elif isinstance(n, (ast.For, ast.AsyncFor)):
                    tg = [(n.target, "loop target")]
                flat = []
                for t, how in tg:
                    if isinstance(t, (ast.Tuple, ast.List)):
                        flat += [(e, how) for e in ast.walk(t) if isinstance(e, (ast.Attribute, ast.Subscript))]
                    else:
                        flat.append((t, how))
                for t, how in flat:
                    if isinstance(t, (ast.Attribute, ast.Subscript)):
                        root, attr = base_of(t)
                        if root in alias:
                            add(n, root, attr, "%s `%s`" % (how, ast.unparse(t)[:60]))
                if isinstance(n, ast.Call):
                    f = n.func
                    if isinstance(f, ast.Name) and f.id in ("setattr", "delattr") and n.args:
                        root, attr = base_of(n.args[0])
                        if root in alias:
                            nm = n.args[1].value if len(n.args) > 1 and isinstance(n.args[1], ast.Constant) else "<dynamic>"
                            add(n, root, attr or str(nm), "`%s`" % ast.unparse(n)[:60])
                    elif isinstance(f, ast.Attribute) and f.attr in MUTATORS:
                        root, attr = base_of(f.value)
                        if root in alias and not (attr is None and isinstance(f.value, ast.Name) and f.attr in ("get", "copy")):
                            add(n, root, attr, "mutating call `%s`" % ast.unparse(n)[:60])
    rows.sort(key=lambda r: (r["module"], r["line"], r["attr"]))
    return rows


# ------------------------------------------------------- set iteration order that reaches an ordered container
def collect_set_iteration():
    """`for x in <set-valued expr>: <list>.append(..)` (also .extend/.insert/+=), `<list>.extend(<set-valued expr>)`,
    `list(<set-valued expr>)` in loaders.py / utils.py / hdf5/*.py.  The hashes of str are randomised per process
    (PYTHONHASHSEED), so the order in which a set of ids is iterated is process state that is not input.  sorted(<set>),
    membership tests and len() are not listed."""
    rows = []

    def keyslike(e):
        return isinstance(e, ast.Call) and isinstance(e.func, ast.Attribute) and e.func.attr in ("keys", "items") and not e.args

    def setvalued(e, names):
        if isinstance(e, (ast.Set, ast.SetComp)):
            return True
        if isinstance(e, ast.Call) and isinstance(e.func, ast.Name) and e.func.id in ("set", "frozenset"):
            return True
        if isinstance(e, ast.Call) and isinstance(e.func, ast.Attribute) and e.func.attr in (
                "union", "intersection", "difference", "symmetric_difference") and (setvalued(e.func.value, names) or keyslike(e.func.value)):
            return True
        if isinstance(e, ast.BinOp) and isinstance(e.op, (ast.Sub, ast.BitAnd, ast.BitOr, ast.BitXor)):
            return any(setvalued(x, names) or keyslike(x) for x in (e.left, e.right))
        if isinstance(e, ast.Name):
            return e.id in names
        return False

    for m in W.mods.values():
        if not (m.name in ("neuroml.loaders", "neuroml.utils") or m.name.startswith("neuroml.hdf5")):
            continue
        for fn in m.all_fns:
            nodes = fn.scope_nodes()
            names = set()
            changed = True
            while changed:
                changed = False
                for n in nodes:
                    if isinstance(n, ast.Assign) and setvalued(n.value, names):
                        for t in n.targets:
                            for nm in target_names(t):
                                if nm not in names:
                                    names.add(nm)
                                    changed = True

            def add(n, e, how):
                rows.append({"module": m.name, "func": fn.qual, "line": getattr(n, "lineno", 0), "expr": ast.unparse(e)[:80], "how": how})

            for n in nodes:
                if isinstance(n, (ast.For, ast.AsyncFor)) and setvalued(n.iter, names):
                    ordered = False
                    for k in n.body + n.orelse:
                        for x in ast.walk(k):
                            if isinstance(x, ast.Call) and isinstance(x.func, ast.Attribute) and x.func.attr in ("append", "extend", "insert"):
                                ordered = True
                            if isinstance(x, ast.AugAssign) and isinstance(x.op, ast.Add):
                                ordered = True
                    if ordered:
                        add(n, n.iter, "for loop whose body appends to a list")
                elif isinstance(n, ast.Call) and isinstance(n.func, ast.Attribute) and n.func.attr == "extend" and n.args \
                        and setvalued(n.args[0], names):
                    add(n, n.args[0], "list.extend(<set>)")
                elif isinstance(n, ast.Call) and isinstance(n.func, ast.Name) and n.func.id in ("list", "tuple") and n.args \
                        and setvalued(n.args[0], names):
                    add(n, n.args[0], "%s(<set>)" % n.func.id)
                elif isinstance(n, (ast.ListComp, ast.GeneratorExp)) and any(setvalued(g.iter, names) for g in n.generators):
                    par_sorted = False
                    if not par_sorted:
                        add(n, n.generators[0].iter, "comprehension over a set")
    rows.sort(key=lambda r: (r["module"], r["line"]))
    return rows


def collect_entry_defaults(defaults):
    lo = W.mods["neuroml.loaders"]
    res = {"modes": {}, "calls": {}}
    flagged = {(d["func"], d["param"]) for d in defaults if d["module"] == "neuroml.loaders" and (d["mutated"] or d["escapes"])}
    for name in ENTRY_FUNCS:
        fn = lo.funcs.get(name)
        if fn is None or "already_included" not in fn.params:
            untrans("neuroml.loaders", name, "loader entry point or its already_included parameter not found")
            res["modes"][name] = "unknown"
            continue
        d = fn.defaults.get("already_included")
        if d is None:
            res["modes"][name] = "required"
            untrans("neuroml.loaders", name, "already_included has no default")
        elif isinstance(d, ast.Constant) and d.value is None:
            ok = False
            for st in fn.node.body:
                if isinstance(st, ast.If) and ast.unparse(st.test) == "already_included is None" and len(st.body) == 1 \
                        and ast.unparse(st.body[0]) in ("already_included = []", "already_included = list()") and not st.orelse:
                    ok = True
            res["modes"][name] = "none" if ok else "unknown"
            if not ok:
                untrans("neuroml.loaders", name, "default None without `if already_included is None: already_included = []`")
        elif (name, "already_included") in flagged:
            res["modes"][name] = "shared" if isinstance(d, ast.List) and not d.elts else "unknown"
            if res["modes"][name] == "unknown":
                untrans("neuroml.loaders", name, "mutated default of an unexpected shape: " + ast.unparse(d)[:40])
        else:
            res["modes"][name] = "none" if isinstance(d, ast.List) and not d.elts else "unknown"
            if res["modes"][name] == "unknown":
                untrans("neuroml.loaders", name, "default of an unexpected shape: " + ast.unparse(d)[:40])

    # NeuroMLHdf5Loader.load(src, optimized, already_included=None): None is handed down to parse(), which makes the list
    hl = lo.classes.get("NeuroMLHdf5Loader")
    ld = hl.methods.get("load") if hl else None
    if ld is None:
        untrans("neuroml.loaders", "NeuroMLHdf5Loader.load", "not found")
        res["modes"]["NeuroMLHdf5Loader.load"] = "unknown"
    elif "already_included" not in ld.params:
        res["modes"]["NeuroMLHdf5Loader.load"] = "none"
    else:
        dflt = ld.defaults.get("already_included")
        if isinstance(dflt, ast.Constant) and dflt.value is None:
            res["modes"]["NeuroMLHdf5Loader.load"] = "none"
        elif isinstance(dflt, ast.List) and not dflt.elts:
            res["modes"]["NeuroMLHdf5Loader.load"] = "shared" if ("NeuroMLHdf5Loader.load", "already_included") in flagged else "none"
        else:
            res["modes"]["NeuroMLHdf5Loader.load"] = "unknown"
            untrans("neuroml.loaders", "NeuroMLHdf5Loader.load", "already_included default of an unexpected shape")
    # call-site shapes the model mirrors
    def ai_arg(call, callee):
        for k in call.keywords:
            if k.arg == "already_included":
                return "fresh" if isinstance(k.value, ast.List) and not k.value.elts else \
                    "param" if isinstance(k.value, ast.Name) and k.value.id == "already_included" else "other"
        idx = callee.pos.index("already_included")
        if len(call.args) > idx:
            a = call.args[idx]
            return "fresh" if isinstance(a, ast.List) and not a.elts else \
                "param" if isinstance(a, ast.Name) and a.id == "already_included" else "other"
        return "omitted"

    sites = []
    for m in W.mods.values():
        if m.name == "neuroml.nml.nml":
            continue
        for fn in m.all_fns:
            for n in fn.scope_nodes():
                if isinstance(n, ast.Call):
                    nm = dec_name(n.func)
                    if nm in ENTRY_FUNCS and nm in lo.funcs:
                        sites.append({"caller": m.name + ":" + fn.qual, "callee": nm, "already_included": ai_arg(n, lo.funcs[nm])})
    res["calls"] = sites
    got = {}
    for st in sites:
        got.setdefault((st["caller"], st["callee"]), set()).add(st["already_included"])
    expect = {("neuroml.loaders:read_neuroml2_file", "_read_neuroml2"): {"param"},
              ("neuroml.loaders:read_neuroml2_string", "_read_neuroml2"): {"param"},
              ("neuroml.loaders:_read_neuroml2", "read_neuroml2_file"): {"param"},
              ("neuroml.hdf5.NeuroMLXMLParser:NeuroMLXMLParser.parse", "read_neuroml2_file"): {"fresh"}}
    for k, v in expect.items():
        if got.get(k) != v:
            untrans(k[0].split(":")[0], k[0].split(":")[1],
                    "call of %s passes already_included as %r (the loader model expects %r)" % (k[1], sorted(got.get(k, [])), sorted(v)))
    res["shape"] = loader_shape(lo, got)
    return res


def loader_shape(lo, got):
    """the three places where versions of loaders.py differ (State.lshape)"""
    shape = {"mark_entry": False, "append_first": False, "h5_threads": False}
    fn = lo.funcs.get("_read_neuroml2")
    if fn is None:
        return shape
    fn.set_parents()

    def in_for(n):
        while n is not None:
            if isinstance(n, (ast.For, ast.While)):
                return True
            n = getattr(n, "_parent", None)
        return False

    appends = [n for n in fn.all_nodes() if isinstance(n, ast.Call) and ast.unparse(n.func) == "already_included.append"]
    outside = [n for n in appends if not in_for(n)]
    # --- entry marking
    for n in outside:
        stmt = n._parent
        iff = getattr(stmt, "_parent", None)
        arg = ast.unparse(n.args[0]) if n.args else "?"
        ok = isinstance(stmt, ast.Expr) and isinstance(iff, ast.If) and ast.unparse(iff.test) == "%s not in already_included" % arg \
            and len(iff.body) == 1 and not iff.orelse
        src_ok = False
        if ok:
            for m in fn.all_nodes():
                if isinstance(m, ast.Assign) and len(m.targets) == 1 and ast.unparse(m.targets[0]) == arg \
                        and ast.unparse(m.value) == "os.path.abspath(%s)" % fn.pos[0]:
                    src_ok = True
        if ok and src_ok and len(outside) == 1:
            shape["mark_entry"] = True
        else:
            untrans("neuroml.loaders", "_read_neuroml2", "already_included.append outside the include loop of an unknown shape: "
                    + ast.unparse(stmt)[:60])
    # --- order inside the include loop
    orders = []
    for n in fn.all_nodes():
        if isinstance(n, ast.If) and ("endswith('.nml')" in ast.unparse(n.test) or "endswith('.nml.h5')" in ast.unparse(n.test)) \
                and in_for(n):
            seq = []
            for st in n.body:
                u = ast.unparse(st)
                call = st.value if isinstance(st, (ast.Expr, ast.Assign)) and isinstance(st.value, ast.Call) else None
                fname = ast.unparse(call.func) if call is not None else ""
                if isinstance(st, ast.Expr) and fname == "already_included.append" and len(call.args) == 1:
                    seq.append("append")
                elif isinstance(st, ast.Assign) and fname in ("read_neuroml2_file", "NeuroMLHdf5Loader.load") \
                        and len(st.targets) == 1 and isinstance(st.targets[0], ast.Name):
                    seq.append("load")
                elif isinstance(st, ast.Expr) and fname.split(".")[-1] == "add_all_to_document" and len(call.args) >= 2:
                    seq.append("add_all")
                elif isinstance(st, ast.Expr) and fname == "print_method":
                    continue
                else:
                    seq.append("other:" + u[:40])
            orders.append(seq)
    if len(orders) == 2 and all(o == ["load", "append", "add_all"] for o in orders):
        shape["append_first"] = False
    elif len(orders) == 2 and all(o == ["append", "load", "add_all"] for o in orders):
        shape["append_first"] = True
    else:
        untrans("neuroml.loaders", "_read_neuroml2", "include loop branches are not {load, append, add_all} in one common order: %r" % orders)
    # --- does the HDF5 path hand already_included on to the read of the embedded XML?
    parse_arg = got.get(("neuroml.hdf5.NeuroMLHdf5Parser:NeuroMLHdf5Parser.parse", "read_neuroml2_string"))
    h5_calls = [n for n in fn.all_nodes() if isinstance(n, ast.Call) and ast.unparse(n.func) == "NeuroMLHdf5Loader.load"]
    passed = [any(k.arg == "already_included" and ast.unparse(k.value) == "already_included" for k in c.keywords) for c in h5_calls]
    chain = True
    hl = lo.classes.get("NeuroMLHdf5Loader")
    pm = W.mods.get("neuroml.hdf5.NeuroMLHdf5Parser")
    pc = pm.classes.get("NeuroMLHdf5Parser") if pm else None
    if hl is None or pc is None or "parse" not in pc.methods:
        chain = False
    else:
        parse = pc.methods["parse"]
        chain = chain and "already_included" in parse.params and isinstance(parse.defaults.get("already_included"), ast.Constant) \
            and any(isinstance(st, ast.If) and ast.unparse(st.test) == "already_included is None"
                    and [ast.unparse(x) for x in st.body] == ["already_included = []"] for st in parse.node.body)
        for mname, callee in (("load", "__nml2_doc"), ("__nml2_doc", "parse")):
            mfn = hl.methods.get(mname)
            calls = [n for n in (mfn.all_nodes() if mfn else []) if isinstance(n, ast.Call) and isinstance(n.func, ast.Attribute)
                     and n.func.attr.endswith(callee)]
            if not calls or not all("already_included" in [ast.unparse(a) for a in c.args] + [ast.unparse(k.value) for k in c.keywords
                                                                                            if k.arg == "already_included"] for c in calls):
                chain = False
    if parse_arg == {"param"} and h5_calls and all(passed) and chain:
        shape["h5_threads"] = True
    elif parse_arg == {"omitted"} and not any(passed):
        shape["h5_threads"] = False
    else:
        untrans("neuroml.loaders", "_read_neuroml2", "already_included is handed to the HDF5 loader/parser only in part "
                "(parse -> read_neuroml2_string: %r, loads: %r, chain: %r)" % (sorted(parse_arg or []), passed, chain))
    return shape


def builder_shape():
    """version differences of NetworkBuilder.handle_connection the builder model is parametrised by"""
    out = {"elec_weight_guard": False}
    m = W.mods.get("neuroml.hdf5.NetworkBuilder")
    c = m.classes.get("NetworkBuilder") if m else None
    fn = c.methods.get("handle_connection") if c else None
    if fn is None:
        untrans("neuroml.hdf5.NetworkBuilder", "NetworkBuilder.handle_connection", "not found")
        return out
    found = False
    for n in fn.all_nodes():
        if isinstance(n, ast.If) and "ElectricalProjection" in ast.unparse(n.test) and "isinstance" in ast.unparse(n.test):
            for k in n.body:
                if isinstance(k, ast.If) and ast.unparse(k.test) == "not instances":
                    found = True
                    first = k.body[0]
                    if isinstance(first, ast.If) and ast.unparse(first.test) == "weight != 1" and len(first.body) == 1 \
                            and isinstance(first.body[0], ast.Raise):
                        out["elec_weight_guard"] = True
            break
    if not found:
        untrans("neuroml.hdf5.NetworkBuilder", "NetworkBuilder.handle_connection", "electrical branch `if not instances:` not found")
    return out


# --------------------------------------------------------------------------------------- main
def main():
    files = [("neuroml.loaders", "neuroml/loaders.py"), ("neuroml.utils", "neuroml/utils.py"),
             ("neuroml.nml.nml", "neuroml/nml/nml.py"),
             ("neuroml.nml.generatedssupersuper", "neuroml/nml/generatedssupersuper.py")]
    for p in sorted(glob.glob(os.path.join(REPO, "neuroml", "hdf5", "*.py"))):
        b = os.path.basename(p)[:-3]
        files.append(("neuroml.hdf5" if b == "__init__" else "neuroml.hdf5." + b, "neuroml/hdf5/" + os.path.basename(p)))
    analysed = {n for n, _ in files}
    for name, rel in files:
        path = os.path.join(REPO, rel)
        try:
            W.mods[name] = Mod(name, path)
        except (OSError, SyntaxError) as e:
            untrans(name, "<module>", "cannot parse: %s" % e)
    for m in W.mods.values():
        index_module(m, analysed)
    defaults = collect_defaults()
    fields = collect_fields()
    globs, ext = collect_globals()
    classmeta = collect_classmeta()
    process = collect_process_state()
    argw = collect_argument_writes()
    setorder = collect_set_iteration()
    entry = collect_entry_defaults(defaults) if "neuroml.loaders" in W.mods else {}
    bshape = builder_shape()
    seen = set()
    uniq = []
    for u in untranslatable:
        k = (u["file"], u["qualname"], u["reason"])
        if k not in seen:
            seen.add(k)
            uniq.append(u)
    doc = {"defaults": defaults, "fields": fields, "globals": globs, "classmeta": classmeta, "process_state": process, "argument_writes": argw, "set_iteration_order": setorder, "external_state_calls": ext,
           "entry_defaults": entry, "builder_shape": bshape, "untranslatable": uniq,
           "modules": sorted(W.mods), "functions_scanned": sum(len(m.all_fns) for m in W.mods.values())}
    print(json.dumps(doc))


if __name__ == "__main__":
    sys.setrecursionlimit(10000)
    main()
