"""tr_readonly: which methods of the binding classes (neuroml/nml/nml.py, read with `ast`, never imported) are read-only by their
name - __str__, __repr__, __eq__, __ne__, summary, info, and everything starting with get_ / _get_ / is_ / has_ - and what each of
them WRITES on the instance: `self.X = / += / del` (any target rooted at self), any mention of `self.__dict__`, setattr / delattr /
vars / object.__setattr__ on self, and mutator calls (.append/.extend/.insert/.remove/.pop/.clear/.update/.setdefault/.sort/.reverse/
.add/.discard/.popitem/.__setitem__) on an expression rooted at self.  add() decides "an equal child is already present" with
__eq__, which compares the instance dictionaries: a read-only call that leaves something on the instance changes that verdict.
Output (stdout or argv[1]): JSON {"writes": [[class, method, [write, ...]], ...] (only non-empty), "readers": {class: [zero-argument
read-only hand-written methods]}, "counted": n, "errors": []}."""
import ast
import json
import os
import re
import sys

REPO = os.environ.get("VERIF_REPO", "/repo")
READ_ONLY = re.compile(r"^(__str__|__repr__|__eq__|__ne__|summary|info|parentinfo|(get_|_get_|is_|has_|_has_|_is_).*)$")
MUTATORS = {"append", "extend", "insert", "remove", "pop", "clear", "update", "setdefault", "sort", "reverse", "add", "discard",
            "popitem", "__setitem__", "__delitem__", "__setattr__", "__delattr__"}


def src(n):
    return " ".join(ast.unparse(n).split())[:120].encode("ascii", "backslashreplace").decode()


def rooted_at_self(e):
    while isinstance(e, (ast.Attribute, ast.Subscript, ast.Starred)):
        e = e.value
    return isinstance(e, ast.Name) and e.id == "self"


def writes(fn):
    out = []
    for n in ast.walk(fn):
        targets = []
        if isinstance(n, ast.Assign):
            targets = n.targets
        elif isinstance(n, (ast.AugAssign, ast.AnnAssign)):
            targets = [n.target]
        elif isinstance(n, ast.Delete):
            targets = n.targets
        elif isinstance(n, (ast.For, ast.AsyncFor)):
            targets = [n.target]
        elif isinstance(n, (ast.With, ast.AsyncWith)):
            targets = [i.optional_vars for i in n.items if i.optional_vars is not None]
        for t in targets:
            for x in ([t] if not isinstance(t, (ast.Tuple, ast.List)) else list(ast.walk(t))):
                if isinstance(x, (ast.Attribute, ast.Subscript)) and rooted_at_self(x):
                    out.append("assigns " + src(x))
        if isinstance(n, ast.Attribute) and n.attr == "__dict__" and rooted_at_self(n):
            out.append("uses self.__dict__")
        if isinstance(n, ast.Call):
            f = n.func
            if isinstance(f, ast.Name) and f.id in ("setattr", "delattr", "vars") and n.args and rooted_at_self(n.args[0]):
                out.append("%s(self, ..)" % f.id)
            if isinstance(f, ast.Attribute) and f.attr in ("__setattr__", "__delattr__") and n.args and rooted_at_self(n.args[0]):
                out.append(src(f) + "(self, ..)")
            if isinstance(f, ast.Attribute) and f.attr in MUTATORS and rooted_at_self(f.value) and not (
                    isinstance(f.value, ast.Name)):
                out.append("calls " + src(f))
    return sorted(set(out))


def zero_arg(fn):
    a = fn.args
    pos = a.posonlyargs + a.args
    return len(pos) - len(a.defaults) <= 1 and all(d is not None for d in a.kw_defaults)


def translate(path):
    errors = []
    res = {"writes": [], "readers": {}, "counted": 0, "errors": errors}
    try:
        tree = ast.parse(open(path).read())
    except Exception as e:  # noqa
        errors.append("nml.py: %s" % e)
        return res
    for c in tree.body:
        if not isinstance(c, ast.ClassDef):
            continue
        members = set()
        for f in c.body:      # generated accessors: get_<member> exists together with set_<member>
            if isinstance(f, ast.FunctionDef) and f.name.startswith("set_"):
                members.add(f.name[4:])
        for f in c.body:
            if not isinstance(f, (ast.FunctionDef, ast.AsyncFunctionDef)) or not READ_ONLY.match(f.name):
                continue
            res["counted"] += 1
            w = writes(f)
            if w:
                res["writes"].append([c.name, f.name, w])
            generated = f.name.startswith("get_") and f.name[4:] in members
            if (not generated and zero_arg(f) and not f.name.startswith("__e") and f.name not in ("__ne__", "info", "parentinfo")
                    and not f.name.startswith("has__") and not f.name.startswith("_")) or f.name in ("__str__", "__repr__"):
                res["readers"].setdefault(c.name, []).append(f.name)
    if res["counted"] < 100:
        errors.append("only %d read-only methods found" % res["counted"])
    return res


if __name__ == "__main__":
    res = translate(os.path.join(REPO, "neuroml", "nml", "nml.py"))
    out = json.dumps(res)
    if len(sys.argv) > 1:
        open(sys.argv[1], "w").write(out)
    print(out)
