"""tr_bindings: fail-closed translator of the generated binding classes in neuroml/nml/nml.py into a JSON table
(printed on stdout, or written to argv[1]).  Pure function of the working tree: reads the file with `ast`, never
imports the package.  Every statement of every template method must match one of the known shapes below; anything
else is reported in "errors" as  <class>.<method>: <reason>  (the checks turn that into a broken obligation).

Per class:
  name, super, mspecs, init_params, super_args, init_assign, has_content, has_content_super,
  exp_attrs (+exp_attrs_super, exp_ext), bld_attrs (+bld_attrs_super, bld_ext), exp_kids (+exp_kids_super),
  bld_kids (+bld_kids_super), val_items, val_rec, st_validators
"""
import ast
import json
import os
import re
import sys

REPO = os.environ.get("VERIF_REPO", "/repo")


class Bad(Exception):
    pass


def U(n):
    return ast.unparse(n)


def lit(node):
    try:
        return ast.literal_eval(node)
    except Exception:
        raise Bad("not a literal: " + U(node))


# ----------------------------------------------------------------------------- member specs
def mspecs_of(cls):
    for b in cls.body:
        if isinstance(b, ast.Assign) and getattr(b.targets[0], "id", "") == "member_data_items_":
            out = []
            if not isinstance(b.value, ast.List):
                raise Bad("member_data_items_ not a list")
            for e in b.value.elts:
                if not (isinstance(e, ast.Call) and U(e.func) == "MemberSpec_"):
                    raise Bad("member spec: " + U(e)[:80])
                a = [lit(x) for x in e.args]
                name, dt, container, optional = a[0], a[1], a[2], a[3]
                child_attrs = a[4] if len(a) > 4 else None
                choice = a[5] if len(a) > 5 else None
                out.append({"name": name, "type": dt, "container": container, "optional": optional,
                            "attrs": child_attrs, "choice": choice, "is_child": len(a) > 5})
            return out
    return None


# ----------------------------------------------------------------------------- __init__
BOILER_INIT = {
    "self.gds_collector_ = gds_collector_", "self.gds_elementtree_node_ = None", "self.original_tagname_ = None",
    "self.parent_object_ = kwargs_.get('parent_object_')", "self.ns_prefix_ = None",
}


def tr_init(c, fn):
    a = fn.args
    names = [x.arg for x in a.args]
    if names[0] != "self":
        raise Bad("__init__ first arg")
    defaults = [None] * (len(names) - len(a.defaults)) + list(a.defaults)
    params = []
    for x, d in zip(a.args[1:], defaults[1:]):
        if d is None:
            raise Bad("__init__ param without default: " + x.arg)
        ann = lit(x.annotation) if x.annotation is not None else None
        dv = lit(d)
        if not (dv is None or isinstance(dv, (str, int, float))) or isinstance(dv, bool):
            raise Bad("parameter %s has a non-scalar (shared, mutable?) default %r" % (x.arg, dv))
        params.append({"name": x.arg, "default": dv, "ann": ann})
    if a.kwarg is None or a.kwarg.arg != "kwargs_" or a.vararg is not None or a.kwonlyargs:
        raise Bad("__init__ signature")
    assign = []
    super_args = None
    for st in fn.body:
        s = U(st)
        if s in BOILER_INIT:
            continue
        m = re.fullmatch(r"super\(globals\(\)\.get\('(\w+)'\), self\).__init__\((.*)\*\*kwargs_\)", s)
        if m:
            if m.group(1) != c.name:
                raise Bad("__init__ super names another class")
            super_args = [x.strip() for x in m.group(2).split(",") if x.strip()]
            continue
        m = re.fullmatch(r"self\.(\w+)_nsprefix_ = None", s)
        if m:
            continue
        m = re.fullmatch(r"self\.(\w+) = _cast\((None|int|float|bool), (\w+)\)", s)
        if m:
            if m.group(1) != m.group(3):
                raise Bad("__init__ cast of another name: " + s)
            assign.append({"member": m.group(1), "cast": {"None": "raw"}.get(m.group(2), m.group(2))})
            continue
        m = re.fullmatch(r"self\.(\w+) = (\w+)", s)
        if m:
            if m.group(1) != m.group(2):
                raise Bad("__init__ assigns another name: " + s)
            assign.append({"member": m.group(1), "cast": "obj"})
            continue
        m = re.fullmatch(r"if (\w+) is None:\n    self\.(\w+) = \[\]\nelse:\n    self\.(\w+) = (\w+)", s)
        if m and len({m.group(1), m.group(2), m.group(3), m.group(4)}) == 1:
            assign.append({"member": m.group(1), "cast": "list"})
            continue
        m = re.fullmatch(r"self\.validate_(\w+)\(self\.(\w+)\)", s)
        if m and assign and assign[-1]["member"] == m.group(2):
            assign[-1]["validator"] = m.group(1)
            continue
        if s == "self.extensiontype_ = extensiontype_":
            continue
        raise Bad("__init__ statement: " + s[:120])
    # gds_collector_ is the last explicit param
    if not params or params[-1]["name"] != "gds_collector_":
        raise Bad("__init__ lacks gds_collector_")
    params = params[:-1]
    return params, super_args, assign


# ----------------------------------------------------------------------------- has__content
def tr_has_content(c, fn):
    if len(fn.body) != 1 or not isinstance(fn.body[0], ast.If):
        raise Bad("has__content shape")
    iff = fn.body[0]
    if U(iff.body[0]) != "return True" or U(iff.orelse[0]) != "return False":
        raise Bad("has__content returns")
    test = iff.test
    terms = test.values if isinstance(test, ast.BoolOp) and isinstance(test.op, ast.Or) else [test]
    if isinstance(test, ast.Tuple) and not test.elts:
        terms = []
    members, sup = [], False
    for t in terms:
        s = U(t)
        m = re.fullmatch(r"self\.(\w+) is not None", s)
        if m:
            members.append(m.group(1))
            continue
        m = re.fullmatch(r"self\.(\w+)", s)
        if m:
            members.append(m.group(1))
            continue
        m = re.fullmatch(r"super\((\w+), self\)\.has__content\(\)", s)
        if m and m.group(1) == c.name:
            sup = True
            continue
        raise Bad("has__content term: " + s)
    return members, sup


# ----------------------------------------------------------------------------- export attributes
EXT_EXPORT = ("if self.extensiontype_ is not None and 'xsi:type' not in already_processed:\n"
              "    already_processed.add('xsi:type')\n"
              "    outfile.write(' xmlns:xsi=\"http://www.w3.org/2001/XMLSchema-instance\"')\n"
              "    if ':' not in self.extensiontype_:\n"
              "        imported_ns_type_prefix_ = GenerateDSNamespaceTypePrefixes_.get(self.extensiontype_, '')\n"
              "        outfile.write(' xsi:type=\"%s%s\"' % (imported_ns_type_prefix_, self.extensiontype_))\n"
              "    else:\n"
              "        outfile.write(' xsi:type=\"%s\"' % self.extensiontype_)")


def tr_exp_attrs(c, fn):
    out, sup, ext = [], "none", False
    for i, st in enumerate(fn.body):
        s = U(st)
        if s == "pass":
            continue
        m = re.fullmatch(r"super\((\w+), self\)\._exportAttributes\(outfile, level, already_processed, namespaceprefix_, name_='(\w+)'\)", s)
        if m:
            if m.group(1) != c.name:
                raise Bad("export attrs super of another class")
            sup = "first" if not out and not ext else "last"
            continue
        if s == EXT_EXPORT:
            ext = True
            continue
        if not isinstance(st, ast.If) or st.orelse:
            raise Bad("_exportAttributes statement: " + s[:100])
        test = U(st.test)
        m = re.fullmatch(r"self\.(\w+) is not None and '(\w+)' not in already_processed", test)
        guard = None
        if m:
            py = m.group(1)
        else:
            if not (isinstance(st.test, ast.BoolOp) and len(st.test.values) == 2 and isinstance(st.test.values[0], ast.Compare)
                    and isinstance(st.test.values[0].ops[0], ast.NotEq)):
                raise Bad("_exportAttributes guard: " + test)
            cmp_ = st.test.values[0]
            m = re.fullmatch(r"self\.(\w+)", U(cmp_.left))
            m2 = re.fullmatch(r"'(\w+)' not in already_processed", U(st.test.values[1]))
            if not m or not m2:
                raise Bad("_exportAttributes guard: " + test)
            py = m.group(1)
            guard = {"ne": lit(cmp_.comparators[0])}
            m = re.fullmatch(r"self\.(\w+) != .* and '(\w+)' not in already_processed", test)
        if m.group(2) != py:
            raise Bad("_exportAttributes already_processed key differs: " + test)
        if len(st.body) != 2 or U(st.body[0]) != "already_processed.add('%s')" % py:
            raise Bad("_exportAttributes body: " + s[:100])
        w = U(st.body[1])
        m = re.fullmatch(r"outfile\.write\(' ([\w:]+)=%s' % \(self\.gds_encode\(self\.gds_format_string\(quote_attrib\(self\.(\w+)\), input_name='([\w:]+)'\)\),\)\)", w)
        if m:
            kind, xml, py2 = "str", m.group(1), m.group(2)
        else:
            m = re.fullmatch(r"outfile\.write\(' ([\w:]+)=\"%s\"' % self\.gds_format_(integer|float|double|boolean)\(self\.(\w+), input_name='([\w:]+)'\)\)", w)
            if not m:
                raise Bad("_exportAttributes write: " + w[:120])
            kind = {"integer": "int", "float": "float", "double": "double", "boolean": "bool"}[m.group(2)]
            xml, py2 = m.group(1), m.group(3)
        if py2 != py:
            raise Bad("_exportAttributes writes another member: " + w[:100])
        out.append({"py": py, "xml": xml, "kind": kind, "guard": guard})
    return out, sup, ext


# ----------------------------------------------------------------------------- build attributes
def tr_bld_attrs(c, fn):
    out, sup, ext = [], "none", False
    body = list(fn.body)
    i = 0
    while i < len(body):
        s = U(body[i])
        if s == "pass":
            i += 1
            continue
        m = re.fullmatch(r"super\((\w+), self\)\._buildAttributes\(node, attrs, already_processed\)", s)
        if m:
            if m.group(1) != c.name:
                raise Bad("build attrs super of another class")
            sup = "first" if not out and not ext else "last"
            i += 1
            continue
        m = re.fullmatch(r"value = find_attr_value_\('([\w:]+)', node\)", s)
        if not m or i + 1 >= len(body) or not isinstance(body[i + 1], ast.If):
            raise Bad("_buildAttributes statement: " + s[:100])
        xml = m.group(1)
        iff = body[i + 1]
        i += 2
        mg = re.fullmatch(r"value is not None and '([\w:]+)' not in already_processed", U(iff.test))
        if not mg or iff.orelse:
            raise Bad("_buildAttributes guard: " + U(iff.test))
        apkey = mg.group(1)
        b = [U(x) for x in iff.body]
        if b[0] != "already_processed.add('%s')" % apkey:
            raise Bad("_buildAttributes add")
        b = b[1:]
        if xml == "xsi:type":
            if b != ["self.extensiontype_ = value"]:
                raise Bad("_buildAttributes xsi:type body")
            ext = True
            continue
        rec = {"xml": xml, "range": None, "validator": None, "apkey": apkey}
        m = re.fullmatch(r"self\.(\w+) = value", b[0])
        if m:
            rec["py"], rec["kind"] = m.group(1), "str"
            b = b[1:]
        else:
            m = re.fullmatch(r"self\.(\w+) = self\.gds_parse_integer\(value, node, '([\w:]+)'\)", b[0])
            if m:
                rec["py"], rec["kind"] = m.group(1), "int"
                if m.group(2) != apkey:
                    raise Bad("_buildAttributes parse names another attr")
                b = b[1:]
                if b and b[0].startswith("if self.%s < 0:" % rec["py"]):
                    if b[0] != "if self.%s < 0:\n    raise_parse_error(node, 'Invalid NonNegativeInteger')" % rec["py"]:
                        raise Bad("_buildAttributes range: " + b[0])
                    rec["range"] = "nonneg"
                    b = b[1:]
                elif b and b[0].startswith("if self.%s <= 0:" % rec["py"]):
                    if b[0] != "if self.%s <= 0:\n    raise_parse_error(node, 'Invalid PositiveInteger')" % rec["py"]:
                        raise Bad("_buildAttributes range: " + b[0])
                    rec["range"] = "pos"
                    b = b[1:]
            else:
                m = re.fullmatch(r"value = self\.gds_parse_(float|double)\(value, node, '([\w:]+)'\)", b[0])
                if m and len(b) > 1:
                    m2 = re.fullmatch(r"self\.(\w+) = value", b[1])
                    if not m2 or m.group(2) != apkey:
                        raise Bad("_buildAttributes float: " + b[1])
                    rec["py"], rec["kind"] = m2.group(1), m.group(1)
                    b = b[2:]
                else:
                    # boolean
                    src = "\n".join(b)
                    m = re.match(r"if value in \('true', '1'\):\n    self\.(\w+) = True\nelif value in \('false', '0'\):\n    self\.(\w+) = False\nelse:\n    raise_parse_error\(node, 'Bad boolean attribute'\)", src)
                    if not m:
                        raise Bad("_buildAttributes body: " + src[:120])
                    rec["py"], rec["kind"] = m.group(1), "bool"
                    b = b[1:]
        if b:
            m = re.fullmatch(r"self\.validate_(\w+)\(self\.(\w+)\)", b[0])
            if not m or m.group(2) != rec["py"] or len(b) != 1:
                raise Bad("_buildAttributes tail: " + " | ".join(b)[:120])
            rec["validator"] = m.group(1)
        out.append(rec)
    return out, sup, ext


# ----------------------------------------------------------------------------- export children
EOL = "if pretty_print:\n    eol_ = '\\n'\nelse:\n    eol_ = ''"


def nsprefix_stmt(py):
    return ("namespaceprefix_ = self.%s_nsprefix_ + ':' if UseCapturedNS_ and self.%s_nsprefix_ else ''" % (py, py))


def tr_exp_kids(c, fn):
    out, sup = [], "none"
    for st in fn.body:
        s = U(st)
        if s == "pass" or s == EOL:
            continue
        m = re.fullmatch(r"super\((\w+), self\)\._exportChildren\(outfile, level, namespaceprefix_, namespacedef_, name_, True, pretty_print=pretty_print\)", s)
        if m:
            if m.group(1) != c.name:
                raise Bad("export children super of another class")
            sup = "first" if not out else "last"
            continue
        # list of complex children
        if isinstance(st, ast.For):
            m = re.fullmatch(r"for (\w+) in self\.(\w+):\n    " + re.escape("namespaceprefix_ = self.") + r"(\w+)" + re.escape("_nsprefix_ + ':' if UseCapturedNS_ and self.") + r"(\w+)" + re.escape("_nsprefix_ else ''") +
                             r"\n    (\w+)\.export\(outfile, level, namespaceprefix_, namespacedef_='', name_='(\w+)', pretty_print=pretty_print\)", s)
            if m:
                if not (m.group(2) == m.group(3) == m.group(4) and m.group(1) == m.group(5)):
                    raise Bad("_exportChildren list loop names differ: " + s[:100])
                out.append({"py": m.group(2), "tag": m.group(6), "kind": "objlist"})
                continue
            m = re.fullmatch(r"for (\w+) in self\.(\w+):\n    " + re.escape("namespaceprefix_ = self.") + r"(\w+)" + re.escape("_nsprefix_ + ':' if UseCapturedNS_ and self.") + r"(\w+)" + re.escape("_nsprefix_ else ''") +
                             r"\n    showIndent\(outfile, level, pretty_print\)\n    outfile\.write\('<%s(\w+)>%s</%s(\w+)>%s' % \(namespaceprefix_, self\.gds_encode\(self\.gds_format_string\(quote_xml\((\w+)\), input_name='(\w+)'\)\), namespaceprefix_, eol_\)\)", s)
            if m:
                if not (m.group(2) == m.group(3) == m.group(4) and m.group(1) == m.group(7) and m.group(5) == m.group(6) == m.group(8)):
                    raise Bad("_exportChildren text list names differ")
                out.append({"py": m.group(2), "tag": m.group(5), "kind": "textlist"})
                continue
            raise Bad("_exportChildren loop: " + s[:160])
        if not isinstance(st, ast.If) or st.orelse:
            raise Bad("_exportChildren statement: " + s[:100])
        t = U(st.test)
        if t == "not fromsubclass_":
            b = "\n".join(U(x) for x in st.body)
            if b != "for obj_ in self.anytypeobjs_:\n    showIndent(outfile, level, pretty_print)\n    outfile.write(str(obj_))\n    outfile.write('\\n')":
                raise Bad("_exportChildren any: " + b[:160])
            out.append({"py": "anytypeobjs_", "tag": "__ANY__", "kind": "any"})
            continue
        m = re.fullmatch(r"self\.(\w+) is not None", t)
        if not m:
            raise Bad("_exportChildren guard: " + t)
        py = m.group(1)
        b = [U(x) for x in st.body]
        if b[0] != nsprefix_stmt(py):
            raise Bad("_exportChildren nsprefix: " + b[0][:100])
        b = b[1:]
        m = re.fullmatch(r"self\.(\w+)\.export\(outfile, level, namespaceprefix_, namespacedef_='', name_='(\w+)', pretty_print=pretty_print\)", b[0])
        if m and len(b) == 1:
            if m.group(1) != py:
                raise Bad("_exportChildren exports another member")
            out.append({"py": py, "tag": m.group(2), "kind": "obj"})
            continue
        if len(b) == 2 and b[0] == "showIndent(outfile, level, pretty_print)":
            m = re.fullmatch(r"outfile\.write\('<%s(\w+)>%s</%s(\w+)>%s' % \(namespaceprefix_, self\.gds_encode\(self\.gds_format_string\(quote_xml\(self\.(\w+)\), input_name='(\w+)'\)\), namespaceprefix_, eol_\)\)", b[1])
            if m and m.group(1) == m.group(2) == m.group(4) and m.group(3) == py:
                out.append({"py": py, "tag": m.group(1), "kind": "text"})
                continue
        raise Bad("_exportChildren body: " + " | ".join(b)[:200])
    return out, sup


# ----------------------------------------------------------------------------- build children
def tr_bld_kids(c, fn):
    out, sup, anyc = [], "none", False
    for st in fn.body:
        s = U(st)
        if s == "pass":
            continue
        m = re.fullmatch(r"super\((\w+), self\)\._buildChildren\(child_, node, nodeName_, True\)", s)
        if m:
            if m.group(1) != c.name:
                raise Bad("build children super of another class")
            sup = "first" if not out else "last"
            continue
        if s == "content_ = self.gds_build_any(child_, '%s')" % c.name:
            continue
        if s == "self.anytypeobjs_.append(content_)":
            out.append({"tag": "__ANY__", "py": "anytypeobjs_", "cls": None, "kind": "any", "dispatch": False, "always": True})
            continue
        if not isinstance(st, ast.If):
            raise Bad("_buildChildren statement: " + s[:100])
        node = st
        while True:
            t = U(node.test)
            m = re.fullmatch(r"nodeName_ == '(\w+)'", t)
            b = [U(x) for x in node.body]
            if m:
                tag = m.group(1)
                rec = tr_bld_branch(tag, b)
                out.append(rec)
            else:
                raise Bad("_buildChildren test: " + t)
            if not node.orelse:
                break
            if len(node.orelse) == 1 and isinstance(node.orelse[0], ast.If):
                node = node.orelse[0]
                continue
            # else: branch = wildcard content
            eb = "\n".join(U(x) for x in node.orelse)
            if eb != "content_ = self.gds_build_any(child_, '%s')\nself.anytypeobjs_.append(content_)" % c.name:
                raise Bad("_buildChildren else: " + eb[:160])
            out.append({"tag": "__ANY__", "py": "anytypeobjs_", "cls": None, "kind": "any", "dispatch": False, "append": True})
            break
    return out, sup


def tr_bld_branch(tag, b):
    m = re.fullmatch(r"obj_ = (\w+)\.factory\(parent_object_=self\)", b[0])
    if m:
        cls = m.group(1)
        if b[1] != "obj_.build(child_, gds_collector_=gds_collector_)" or b[3] != "obj_.original_tagname_ = '%s'" % tag or len(b) != 4:
            raise Bad("_buildChildren obj branch: " + " | ".join(b)[:200])
        m1 = re.fullmatch(r"self\.(\w+)\.append\(obj_\)", b[2])
        m2 = re.fullmatch(r"self\.(\w+) = obj_", b[2])
        if m1:
            return {"tag": tag, "py": m1.group(1), "cls": cls, "kind": "objlist", "dispatch": False}
        if m2:
            return {"tag": tag, "py": m2.group(1), "cls": cls, "kind": "obj", "dispatch": False}
        raise Bad("_buildChildren store: " + b[2])
    m = re.fullmatch(r"class_obj_ = self\.get_class_obj_\(child_, (\w+)\)", b[0])
    if m:
        cls = m.group(1)
        if b[1] != "obj_ = class_obj_.factory(parent_object_=self)" or b[2] != "obj_.build(child_, gds_collector_=gds_collector_)" \
                or b[4] != "obj_.original_tagname_ = '%s'" % tag or len(b) != 5:
            raise Bad("_buildChildren dispatch branch: " + " | ".join(b)[:200])
        m1 = re.fullmatch(r"self\.(\w+)\.append\(obj_\)", b[3])
        m2 = re.fullmatch(r"self\.(\w+) = obj_", b[3])
        if m1:
            return {"tag": tag, "py": m1.group(1), "cls": cls, "kind": "objlist", "dispatch": True}
        if m2:
            return {"tag": tag, "py": m2.group(1), "cls": cls, "kind": "obj", "dispatch": True}
        raise Bad("_buildChildren store: " + b[3])
    if b[0] == "value_ = child_.text":
        if b[1] != "value_ = self.gds_parse_string(value_, node, '%s')" % tag or b[2] != "value_ = self.gds_validate_string(value_, node, '%s')" % tag:
            raise Bad("_buildChildren text branch: " + " | ".join(b)[:200])
        m1 = re.fullmatch(r"self\.(\w+)\.append\(value_\)", b[3])
        m2 = re.fullmatch(r"self\.(\w+) = value_", b[3])
        py = (m1 or m2).group(1) if (m1 or m2) else None
        if py is None or b[4] != "self.%s_nsprefix_ = child_.prefix" % py:
            raise Bad("_buildChildren text store: " + " | ".join(b)[:200])
        rec = {"tag": tag, "py": py, "cls": None, "kind": "textlist" if m1 else "text", "dispatch": False, "validator": None}
        rest = b[5:]
        if rest:
            m = re.fullmatch(r"self\.validate_(\w+)\(self\.(\w+)(\[-1\])?\)", rest[0])
            if not m or m.group(2) != py or len(rest) != 1:
                raise Bad("_buildChildren text tail: " + " | ".join(rest)[:200])
            rec["validator"] = m.group(1)
        return rec
    raise Bad("_buildChildren branch: " + " | ".join(b)[:200])


# ----------------------------------------------------------------------------- validate_
def tr_validate(c, fn):
    items, rec = [], []
    body = list(fn.body)
    if U(body[0]) != "self.gds_collector_ = gds_collector" or U(body[1]) != "message_count = len(self.gds_collector_.get_messages())" \
            or U(body[-1]) != "return message_count == len(self.gds_collector_.get_messages())":
        raise Bad("validate_ frame")
    for st in body[2:-1]:
        s = U(st)
        m = re.fullmatch(r"self\.gds_validate_builtin_ST_\(self\.gds_validate_(\w+), self\.(\w+), '(\w+)'\)", s)
        if m:
            items.append({"op": "builtin", "member": m.group(2), "st": m.group(1)})
            if m.group(2) != m.group(3):
                raise Bad("validate_ names differ: " + s)
            continue
        m = re.fullmatch(r"self\.gds_validate_defined_ST_\(self\.validate_(\w+), self\.(\w+), '(\w+)'\)", s)
        if m:
            items.append({"op": "defined", "member": m.group(2), "st": m.group(1)})
            if m.group(2) != m.group(3):
                raise Bad("validate_ names differ: " + s)
            continue
        m = re.fullmatch(r"self\.gds_check_cardinality_\(self\.(\w+), '(\w+)', required=(True|False)\)", s)
        if m:
            items.append({"op": "card_req", "member": m.group(1), "required": m.group(3) == "True"})
            if m.group(1) != m.group(2):
                raise Bad("validate_ names differ: " + s)
            continue
        m = re.fullmatch(r"self\.gds_check_cardinality_\(self\.(\w+), '(\w+)', min_occurs=(\d+), max_occurs=(\d+)\)", s)
        if m:
            items.append({"op": "card", "member": m.group(1), "min": int(m.group(3)), "max": int(m.group(4))})
            if m.group(1) != m.group(2):
                raise Bad("validate_ names differ: " + s)
            continue
        if isinstance(st, ast.If) and U(st.test) == "recursive" and not st.orelse:
            for r in st.body:
                rs = U(r)
                m = re.fullmatch(r"if self\.(\w+) is not None:\n    self\.(\w+)\.validate_\(gds_collector, recursive=True\)", rs)
                if m and m.group(1) == m.group(2):
                    rec.append({"member": m.group(1), "list": False})
                    continue
                m = re.fullmatch(r"for item in self\.(\w+):\n    item\.validate_\(gds_collector, recursive=True\)", rs)
                if m:
                    rec.append({"member": m.group(1), "list": True})
                    continue
                if rs == "pass":
                    continue
                raise Bad("validate_ recursion: " + rs[:120])
            continue
        raise Bad("validate_ statement: " + s[:120])
    return items, rec


# ----------------------------------------------------------------------------- simple-type validators
def tr_st_validator(c, fn, patterns):
    name = fn.name[len("validate_"):]
    rec = {"name": name, "base": None, "enums": None, "patterns": None, "facets": []}
    if len(fn.body) == 1 and U(fn.body[0]) == "pass":
        return rec
    body = [b for b in fn.body if U(b) not in ("pass", "result = True", "return result")]
    if not body:
        return rec
    if len(body) != 1 or not isinstance(body[0], ast.If):
        raise Bad("validate_%s shape" % name)
    iff = body[0]
    if U(iff.test) != "value is not None and Validate_simpletypes_ and (self.gds_collector_ is not None)":
        raise Bad("validate_%s guard: %s" % (name, U(iff.test)))
    for st in iff.body:
        s = U(st)
        m = re.match(r"if not isinstance\(value, (\w+)\):\n", s)
        if m:
            rec["base"] = m.group(1)
            if "is not of the correct base simple type" not in s or not s.rstrip().endswith("return False"):
                raise Bad("validate_%s isinstance body" % name)
            continue
        if s in ("value = value", "pass"):
            continue
        m = re.fullmatch(r"enumerations = (\[.*\])", s, re.S)
        if m:
            rec["enums"] = lit(st.value)
            continue
        if s.startswith("if value not in enumerations:"):
            if "does not match xsd enumeration restriction" not in s or "result = False" not in s:
                raise Bad("validate_%s enum body" % name)
            continue
        m = re.match(r"if not self\.gds_validate_simple_patterns\(self\.validate_(\w+)_patterns_, value\):\n", s)
        if m:
            if m.group(1) != name or "does not match xsd pattern restrictions" not in s:
                raise Bad("validate_%s pattern body" % name)
            rec["patterns"] = patterns.get(name)
            if rec["patterns"] is None:
                raise Bad("validate_%s pattern table missing" % name)
            continue
        m = re.match(r"if value (<|<=|>|>=) (-?[\d.]+):\n", s)
        if m:
            kind = {"<": "minInclusive", "<=": "minExclusive", ">": "maxInclusive", ">=": "maxExclusive"}[m.group(1)]
            if "does not match xsd " + kind not in s or "result = False" not in s:
                raise Bad("validate_%s facet body: %s" % (name, s[:120]))
            rec["facets"].append({"facet": kind, "value": float(m.group(2))})
            continue
        if s == "result = True":
            continue
        raise Bad("validate_%s statement: %s" % (name, s[:140]))
    return rec


# ----------------------------------------------------------------------------- driver
def translate(path):
    tree = ast.parse(open(path).read())
    classes, errors = [], []
    runtime = {}
    for n in tree.body:
        if isinstance(n, ast.ClassDef):
            ms = None
            try:
                ms = mspecs_of(n)
            except Bad as e:
                errors.append("%s.member_data_items_: %s" % (n.name, e))
            if ms is None:
                continue
            rec = {"name": n.name, "super": None, "mspecs": ms, "st_validators": [], "methods": []}
            if len(n.bases) != 1:
                errors.append("%s: bases" % n.name)
            else:
                rec["super"] = U(n.bases[0])
            patterns = {}
            sup_decl = None
            for b in n.body:
                if isinstance(b, ast.Assign) and isinstance(b.targets[0], ast.Name):
                    m = re.fullmatch(r"validate_(\w+)_patterns_", b.targets[0].id)
                    if m:
                        patterns[m.group(1)] = lit(b.value)
                    if b.targets[0].id == "superclass":
                        sup_decl = U(b.value)
            if sup_decl != rec["super"] and not (sup_decl == "None" and rec["super"] == "GeneratedsSuper"):
                errors.append("%s: superclass attribute %s differs from base %s" % (n.name, sup_decl, rec["super"]))
            for f in n.body:
                if not isinstance(f, ast.FunctionDef):
                    continue
                rec["methods"].append(f.name)
                try:
                    if f.name == "__init__":
                        rec["init_params"], rec["super_args"], rec["init_assign"] = tr_init(n, f)
                    elif f.name == "has__content":
                        rec["has_content"], rec["has_content_super"] = tr_has_content(n, f)
                    elif f.name == "_exportAttributes":
                        rec["exp_attrs"], rec["exp_attrs_super"], rec["exp_ext"] = tr_exp_attrs(n, f)
                    elif f.name == "_buildAttributes":
                        rec["bld_attrs"], rec["bld_attrs_super"], rec["bld_ext"] = tr_bld_attrs(n, f)
                    elif f.name == "_exportChildren":
                        rec["exp_kids"], rec["exp_kids_super"] = tr_exp_kids(n, f)
                    elif f.name == "_buildChildren":
                        rec["bld_kids"], rec["bld_kids_super"] = tr_bld_kids(n, f)
                    elif f.name == "validate_":
                        rec["val_items"], rec["val_rec"] = tr_validate(n, f)
                    elif f.name.startswith("validate_") and [a.arg for a in f.args.args] == ["self", "value"]:
                        rec["st_validators"].append(tr_st_validator(n, f, patterns))
                except Bad as e:
                    errors.append("%s.%s: %s" % (n.name, f.name, e))
                except Exception as e:  # fail closed on anything unexpected
                    errors.append("%s.%s: translator exception %r" % (n.name, f.name, e))
            # export / build / factory are pure templates: record the body with the class name abstracted
            for f in n.body:
                if isinstance(f, ast.FunctionDef) and f.name in ("export", "build", "factory"):
                    body = "\n".join(U(st) for st in f.body if not (isinstance(st, ast.Expr) and isinstance(st.value, ast.Constant)))
                    sig = U(f.args)
                    txt = re.sub(r"\b%s\b" % re.escape(n.name), "@C@", sig + "\n" + body)
                    if f.name == "export":
                        # two presentation-only variations of the template: the default namespace definition and
                        # the indentation written before the closing tag of an element that has children
                        txt = txt.replace("namespacedef_=' xmlns:None=\"http://www.neuroml.org/schema/neuroml2\" '", "namespacedef_=''")
                        txt = txt.replace("\n    showIndent(outfile, level, pretty_print)\n    outfile.write('</%s%s>%s'", "\n    outfile.write('</%s%s>%s'")
                    rec.setdefault("template_bodies", {})[f.name] = txt
            for need in ("init_params", "has_content", "exp_attrs", "bld_attrs", "exp_kids", "bld_kids", "val_items"):
                if need not in rec:
                    errors.append("%s: method for %s missing or untranslated" % (n.name, need))
            classes.append(rec)
        elif isinstance(n, ast.FunctionDef) and n.name in ("quote_xml", "quote_xml_aux", "quote_attrib", "find_attr_value_",
                                                           "_cast", "showIndent", "get_root_tag", "raise_parse_error"):
            runtime[n.name] = [U(s) for s in n.body if not (isinstance(s, ast.Expr) and isinstance(s.value, ast.Constant))]
        elif isinstance(n, ast.Assign) and isinstance(n.targets[0], ast.Name) and n.targets[0].id in (
                "GDSClassesMapping", "Validate_simpletypes_", "UseCapturedNS_", "CDATA_pattern_", "Tag_pattern_",
                "String_cleanup_pat_", "Namespace_extract_pat_"):
            runtime[n.targets[0].id] = U(n.value)
    # GeneratedsSuper runtime formatting functions (inside try/except ImportError at module top)
    for n in ast.walk(tree):
        if isinstance(n, ast.ClassDef) and n.name == "GeneratedsSuper":
            for f in n.body:
                if isinstance(f, ast.FunctionDef) and re.match(r"gds_(format|parse|validate)_(integer|float|double|boolean|string)$|gds_encode$|gds_build_any$|gds_validate_simple_patterns$|get_class_obj_$|gds_check_cardinality_$|gds_validate_builtin_ST_$|gds_validate_defined_ST_$", f.name):
                    runtime["GeneratedsSuper." + f.name] = [U(s) for s in f.body if not (isinstance(s, ast.Expr) and isinstance(s.value, ast.Constant))]
    # every class must carry the same export/build/factory template (the most common body is the template)
    import collections
    for meth in ("export", "build", "factory"):
        cnt = collections.Counter(c.get("template_bodies", {}).get(meth) for c in classes)
        if not cnt:
            continue
        canon, _ = cnt.most_common(1)[0]
        runtime["template:" + meth] = canon
        for c in classes:
            b = c.get("template_bodies", {}).get(meth)
            if b != canon:
                errors.append("%s.%s: %s" % (c["name"], meth, "method missing" if b is None else "body deviates from the generated template"))
    for c in classes:
        c.pop("template_bodies", None)
    return {"classes": classes, "errors": errors, "runtime": runtime}


if __name__ == "__main__":
    res = translate(os.path.join(REPO, "neuroml", "nml", "nml.py"))
    out = json.dumps(res)
    if len(sys.argv) > 1:
        open(sys.argv[1], "w").write(out)
        print(json.dumps({"classes": len(res["classes"]), "errors": res["errors"][:50]}))
    else:
        print(out)
