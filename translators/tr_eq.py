"""tr_eq: fail-closed translator of the value equality the bindings use (GeneratedsSuper.__eq__ / __ne__ at the head of
neuroml/nml/nml.py), which add() relies on for its duplicate test (`obj in list`).

The only shape accepted is: same type, then pairwise == over the instance dictionaries in order, after filtering out a
fixed set of attribute NAMES given as  obj[0] != "<name>" and ...  ; __ne__ = not __eq__ ; no binding class overrides
either.  Anything else is reported in "errors".  Output (stdout or argv[1]): {"excluded": [names], "overrides": [classes], "errors": [...]}"""
import ast
import json
import os
import sys

REPO = os.environ.get("VERIF_REPO", "/repo")

EQ_TAIL = [
    "if type(self) != type(other):\n    return False",
    "return all((x == y for x, y in zip_longest(filter(excl_select_objs_, self.__dict__.items()), "
    "filter(excl_select_objs_, other.__dict__.items()))))",
]
NE_BODY = ["return not self.__eq__(other)"]


def body_of(fn):
    return [s for s in fn.body if not (isinstance(s, ast.Expr) and isinstance(s.value, ast.Constant))]


def excluded_names(fn, errors):
    """def excl_select_objs_(obj): return obj[0] != 'a' and obj[0] != 'b' ..."""
    b = body_of(fn)
    if fn.name != "excl_select_objs_" or [a.arg for a in fn.args.args] != ["obj"] or len(b) != 1 or not isinstance(b[0], ast.Return):
        errors.append("__eq__: filter function has an unknown shape")
        return []
    v = b[0].value
    terms = v.values if isinstance(v, ast.BoolOp) and isinstance(v.op, ast.And) else [v]
    out = []
    for t in terms:
        ok = (isinstance(t, ast.Compare) and len(t.ops) == 1 and isinstance(t.ops[0], ast.NotEq)
              and ast.unparse(t.left) == "obj[0]" and isinstance(t.comparators[0], ast.Constant)
              and isinstance(t.comparators[0].value, str))
        if not ok:
            errors.append("__eq__: attribute filter is not a list of excluded names: " + ast.unparse(t)[:80])
            continue
        out.append(t.comparators[0].value)
    return out


def translate(path):
    errors, excluded, overrides = [], [], []
    tree = ast.parse(open(path).read())
    sup = [n for n in ast.walk(tree) if isinstance(n, ast.ClassDef) and n.name == "GeneratedsSuper"]
    if len(sup) != 1:
        errors.append("GeneratedsSuper defined %d times" % len(sup))
    else:
        fns = {f.name: f for f in sup[0].body if isinstance(f, ast.FunctionDef)}
        eq, ne = fns.get("__eq__"), fns.get("__ne__")
        if eq is None or ne is None:
            errors.append("GeneratedsSuper.__eq__/__ne__ missing")
        else:
            b = body_of(eq)
            if [a.arg for a in eq.args.args] != ["self", "other"] or len(b) != 3 or not isinstance(b[0], ast.FunctionDef):
                errors.append("__eq__: unknown shape")
            else:
                excluded = excluded_names(b[0], errors)
                if [ast.unparse(s) for s in b[1:]] != EQ_TAIL:
                    errors.append("__eq__: comparison differs from the known shape: " + " ; ".join(ast.unparse(s) for s in b[1:])[:300])
            if [a.arg for a in ne.args.args] != ["self", "other"] or [ast.unparse(s) for s in body_of(ne)] != NE_BODY:
                errors.append("__ne__: differs from `not self.__eq__(other)`")
    for n in tree.body:
        if isinstance(n, ast.ClassDef):
            for f in n.body:
                if isinstance(f, ast.FunctionDef) and f.name in ("__eq__", "__ne__", "__contains__"):
                    overrides.append(n.name + "." + f.name)
    sspath = os.path.join(os.path.dirname(path), "generatedssupersuper.py")
    for n in ast.walk(ast.parse(open(sspath).read())):
        if isinstance(n, ast.FunctionDef) and n.name in ("__eq__", "__ne__"):
            overrides.append("GeneratedsSuperSuper." + n.name)
    return {"excluded": excluded, "overrides": overrides, "errors": errors}


if __name__ == "__main__":
    res = translate(os.path.join(REPO, "neuroml", "nml", "nml.py"))
    out = json.dumps(res)
    if len(sys.argv) > 1:
        open(sys.argv[1], "w").write(out)
    print(out)
