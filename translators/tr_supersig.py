"""tr_supersig: the calling conventions and the class-level state of neuroml/nml/generatedssupersuper.py, read from the
source with `ast` (never imported):
  signatures of add / component_factory (parameter names in order with the source text of their defaults, the name
  of the **kwargs parameter), and the names of class attributes that methods assign at run time (`cls.X = ...`).
The checks compare them with what Model/Super.v models; a renamed / reordered / added parameter or a new class-level
cache breaks a named obligation.  Output (stdout or argv[1]): JSON."""
import ast
import json
import os
import sys

REPO = os.environ.get("VERIF_REPO", "/repo")


def signature(fn):
    a = fn.args
    pos = a.posonlyargs + a.args
    defaults = [None] * (len(pos) - len(a.defaults)) + [ast.unparse(d) for d in a.defaults]
    out = [[p.arg, d] for p, d in zip(pos, defaults)]
    out += [["*" + a.vararg.arg, None]] if a.vararg else []
    out += [[k.arg + "=", ast.unparse(d) if d is not None else None] for k, d in zip(a.kwonlyargs, a.kw_defaults)]
    out += [["**" + a.kwarg.arg, None]] if a.kwarg else []
    return out


def translate(path):
    errors = []
    tree = ast.parse(open(path).read())
    cls = [n for n in tree.body if isinstance(n, ast.ClassDef) and n.name == "GeneratedsSuperSuper"]
    res = {"signatures": {}, "class_attrs": [], "errors": errors}
    if len(cls) != 1:
        errors.append("GeneratedsSuperSuper defined %d times" % len(cls))
        return res
    for f in cls[0].body:
        if isinstance(f, ast.FunctionDef):
            res["signatures"][f.name] = signature(f)
    for want in ("add", "component_factory", "_check_arg_list", "validate", "info", "parentinfo", "_get_members"):
        if want not in res["signatures"]:
            errors.append("method %s not found" % want)
    attrs = set()
    for n in ast.walk(cls[0]):
        targets = []
        if isinstance(n, ast.Assign):
            targets = n.targets
        elif isinstance(n, (ast.AugAssign, ast.AnnAssign)):
            targets = [n.target]
        for t in targets:
            if isinstance(t, ast.Attribute) and isinstance(t.value, ast.Name) and t.value.id == "cls":
                attrs.add(t.attr)
            # setattr(cls, ...) / type(self).X = ... are other ways to create class-level state
            if isinstance(t, ast.Attribute) and ast.unparse(t.value) in ("type(self)", "self.__class__"):
                attrs.add(t.attr)
        if isinstance(n, ast.Call) and ast.unparse(n.func) == "setattr" and n.args and ast.unparse(n.args[0]) in ("cls", "type(self)", "self.__class__"):
            attrs.add("setattr:" + ast.unparse(n.args[1]) if len(n.args) > 1 else "setattr")
    res["class_attrs"] = sorted(attrs)
    methods = {f.name: f for f in cls[0].body if isinstance(f, ast.FunctionDef)}
    # the loops of add() in source order, and the collection(s) iterated by the loop(s) that compare the hint
    loops, hint_loops = [], []
    if "add" in methods:
        fors = sorted((n for n in ast.walk(methods["add"]) if isinstance(n, (ast.For, ast.AsyncFor))), key=lambda n: (n.lineno, n.col_offset))
        for n in fors:
            loops.append("for %s in %s" % (src(n.target), src(n.iter)))
            inner = [m for b in n.body for m in ast.walk(b)]
            if any(isinstance(m, ast.Compare) and any(isinstance(x, ast.Name) and x.id == "hint" for x in ast.walk(m)) for m in inner):
                hint_loops.append(src(n.iter))
        # comprehensions / while loops / calls like next(...) that look the hint up some other way
        for n in ast.walk(methods["add"]):
            if isinstance(n, (ast.ListComp, ast.GeneratorExp, ast.SetComp, ast.DictComp)) and any(
                    isinstance(x, ast.Name) and x.id == "hint" for x in ast.walk(n)):
                hint_loops.append("comprehension: " + src(n))
            if isinstance(n, ast.While):
                loops.append("while " + src(n.test))
    # every comparison in add() that involves the hint, in source order (the model: equality with the member's name)
    tests = []
    if "add" in methods:
        cmps = sorted((n for n in ast.walk(methods["add"]) if isinstance(n, ast.Compare)
                       and any(isinstance(x, ast.Name) and x.id == "hint" for x in ast.walk(n))), key=lambda n: (n.lineno, n.col_offset))
        tests = [src(n) for n in cmps]
        # other ways of matching: method calls on / with the hint (startswith, find, re.match, ...)
        for n in ast.walk(methods["add"]):
            if isinstance(n, ast.Call) and not isinstance(n.func, ast.Name) and any(
                    isinstance(x, ast.Name) and x.id == "hint" for a in ([n.func] + list(n.args)) for x in ast.walk(a)) \
                    and not (isinstance(n.func, ast.Attribute) and n.func.attr in ("format", "__add", "_GeneratedsSuperSuper__add")):
                tests.append("call: " + src(n))
    # _check_arg_list: how the collection of permitted names is built and how a keyword is tested against it
    # (the model: membership in the LIST of member names)
    arg_check = []
    if "_check_arg_list" in methods:
        f = methods["_check_arg_list"]
        nodes = sorted((n for n in ast.walk(f) if isinstance(n, (ast.Assign, ast.AugAssign, ast.AnnAssign, ast.Expr, ast.Compare))),
                       key=lambda n: (n.lineno, n.col_offset))
        for n in nodes:
            if isinstance(n, ast.Compare):
                if any(isinstance(x, ast.Name) and x.id in ("arg", "member_names") for x in ast.walk(n)):
                    arg_check.append(src(n))
            elif isinstance(n, ast.Expr):
                if isinstance(n.value, ast.Call) and any(isinstance(x, ast.Name) and x.id == "member_names" for x in ast.walk(n.value.func)):
                    arg_check.append(src(n))
            else:
                tg = n.targets if isinstance(n, ast.Assign) else [n.target]
                if any(isinstance(x, ast.Name) and x.id == "member_names" for t in tg for x in ast.walk(t)):
                    arg_check.append(src(n))
    # _get_members: every statement that writes the per-class cache (the model: one entry per class, keyed by the class's own
    # name, holding a fresh list of its members and its ancestors')
    cache_writes = []
    if "_get_members" in methods:
        nodes = sorted((n for n in ast.walk(methods["_get_members"]) if isinstance(n, (ast.Assign, ast.AugAssign, ast.AnnAssign, ast.Delete))),
                       key=lambda n: (n.lineno, n.col_offset))
        for n in nodes:
            tg = n.targets if isinstance(n, (ast.Assign, ast.Delete)) else [n.target]
            if any(isinstance(x, ast.Attribute) and x.attr.startswith("__all_members") for t in tg for x in ast.walk(t)):
                cache_writes.append(src(n))
        for n in ast.walk(methods["_get_members"]):
            if isinstance(n, ast.Call) and isinstance(n.func, ast.Attribute) and any(
                    isinstance(x, ast.Attribute) and x.attr.startswith("__all_members") for x in ast.walk(n.func.value)) \
                    and n.func.attr in ("append", "extend", "update", "setdefault", "insert", "__setitem__"):
                cache_writes.append("call: " + src(n))
    # calls anywhere in the class that change process-wide state of the warnings / logging machinery (the model: add() and the
    # factory report through warnings.warn and logger records only, they configure nothing)
    state_calls = []
    for n in sorted((x for x in ast.walk(cls[0]) if isinstance(x, ast.Call)), key=lambda x: (x.lineno, x.col_offset)):
        f = n.func
        name = f.attr if isinstance(f, ast.Attribute) else f.id if isinstance(f, ast.Name) else ""
        if name in ("filterwarnings", "simplefilter", "resetwarnings", "showwarning", "disable", "basicConfig", "captureWarnings",
                    "setrecursionlimit", "_filters_mutated") or (isinstance(f, ast.Attribute) and src(f.value) in ("warnings.filters",)):
            state_calls.append(src(n))
    for n in ast.walk(cls[0]):
        if isinstance(n, (ast.Assign, ast.AugAssign)) and any(
                isinstance(x, ast.Attribute) and isinstance(x.value, ast.Name) and x.value.id in ("warnings", "logging", "sys")
                for t in (n.targets if isinstance(n, ast.Assign) else [n.target]) for x in ast.walk(t)):
            state_calls.append(src(n))
    res["state_calls"] = state_calls
    res["cache_writes"] = cache_writes
    res["arg_check"] = arg_check
    res["hint_tests"] = tests
    res["add_loops"] = loops
    res["hint_loops"] = hint_loops
    # validate(): default of `recursive`, and the recursive argument at the build-time call sites in add / component_factory
    dflt = [d for n, d in res["signatures"].get("validate", []) if n == "recursive"]
    res["validate_default_recursive"] = dflt[0] if len(dflt) == 1 and dflt[0] is not None else "missing"
    sites = []
    for mname in ("add", "component_factory"):
        if mname not in methods:
            continue
        calls = sorted((n for n in ast.walk(methods[mname]) if isinstance(n, ast.Call) and isinstance(n.func, ast.Attribute)
                        and n.func.attr == "validate"), key=lambda n: (n.lineno, n.col_offset))
        for n in calls:
            arg = ""
            extra = [k for k in n.keywords if k.arg != "recursive"]
            if len(n.args) > 1 or extra or (n.args and any(k.arg == "recursive" for k in n.keywords)):
                arg = "other: " + src(n)
            elif n.args:
                arg = src(n.args[0])
            elif n.keywords:
                arg = src(n.keywords[0].value)
            sites.append(["%s: %s" % (mname, src(n.func)), arg])
    res["validate_sites"] = sites
    return res


def src(n):
    return " ".join(ast.unparse(n).split())[:160].encode("ascii", "backslashreplace").decode()


if __name__ == "__main__":
    res = translate(os.path.join(REPO, "neuroml", "nml", "generatedssupersuper.py"))
    out = json.dumps(res)
    if len(sys.argv) > 1:
        open(sys.argv[1], "w").write(out)
    print(out)
