"""tr_escape: C01/C04 text-layer translator.  Reads (never imports) $VERIF_REPO/neuroml/nml/nml.py with the python
ast and turns

    quote_xml_aux, quote_attrib     -> ordered single-character replacement tables, the delimiter decision
    quote_xml, CDATA_pattern_       -> the statement list of the CDATA loop (normal form) and the regex source/flags
    GeneratedsSuper.gds_format_integer / gds_parse_integer / gds_format_float / gds_parse_float / gds_validate_string
                                    -> "%d", "int", ("%.15f", "0", ".", "0"), "float", the statement list

into a JSON table (one document on the last stdout line;  --coq prints Gen_Escape.v instead).
Fail closed: every statement of those functions must have one of the recognised shapes; anything else exits
non-zero with a message naming the function and the statement, and the check records a broken obligation.
"""
import ast
import json
import os
import sys

REPO = os.environ.get("VERIF_REPO", "/repo")
SRC = os.path.join(REPO, "neuroml", "nml", "nml.py")


class Unrecognised(Exception):
    pass


def bad(fn, what, node=None):
    txt = ""
    if node is not None:
        try:
            txt = " : " + ast.unparse(node)[:200].replace("\n", " | ")
        except Exception:  # pragma: no cover
            txt = ""
    raise Unrecognised("translate:%s: %s%s" % (fn, what, txt))


def strip_doc(body):
    body = list(body)
    if body and isinstance(body[0], ast.Expr) and isinstance(body[0].value, ast.Constant) \
            and isinstance(body[0].value.value, str):
        body = body[1:]
    return body


def ascii_str(fn, s, node):
    if not isinstance(s, str) or any(ord(ch) >= 128 or (ord(ch) < 32 and ch != "\n") for ch in s):
        bad(fn, "string constant outside printable ASCII + newline", node)
    return s


def str_const(fn, node):
    if not (isinstance(node, ast.Constant) and isinstance(node.value, str)):
        bad(fn, "expected a string constant", node)
    return ascii_str(fn, node.value, node)


def is_name(node, name):
    return isinstance(node, ast.Name) and node.id == name


def flat(fn, st):
    """one-line normal form of a statement (simple statements, if/else, for)"""
    if isinstance(st, (ast.Assign, ast.AugAssign, ast.Return, ast.Expr, ast.Pass)):
        return ast.unparse(st)
    if isinstance(st, ast.If):
        s = "if %s: %s" % (ast.unparse(st.test), "; ".join(flat(fn, x) for x in st.body))
        if st.orelse:
            s += " else: " + "; ".join(flat(fn, x) for x in st.orelse)
        return s
    if isinstance(st, ast.For) and not st.orelse:
        return "for %s in %s: %s" % (ast.unparse(st.target), ast.unparse(st.iter), "; ".join(flat(fn, x) for x in st.body))
    bad(fn, "statement kind not recognised", st)


def replace_call(fn, node, var):
    """node is  <var>.replace(C, R)  -> (C, R)   (C exactly one character)"""
    if not (isinstance(node, ast.Call) and isinstance(node.func, ast.Attribute) and node.func.attr == "replace"
            and is_name(node.func.value, var) and len(node.args) == 2 and not node.keywords):
        bad(fn, "expected %s.replace(<char>, <string>)" % var, node)
    c = str_const(fn, node.args[0])
    r = str_const(fn, node.args[1])
    if len(c) != 1:
        bad(fn, "replace() pattern is not a single character", node)
    return [c, r]


def replace_chain_expr(fn, node, var):
    """<var>  or  <var>.replace(..).replace(..)...   -> list of (C, R) in application order"""
    out = []
    while not is_name(node, var):
        if not (isinstance(node, ast.Call) and isinstance(node.func, ast.Attribute) and node.func.attr == "replace"
                and len(node.args) == 2 and not node.keywords):
            bad(fn, "expected %s or a chain of %s.replace(<char>, <string>)" % (var, var), node)
        c = str_const(fn, node.args[0])
        r = str_const(fn, node.args[1])
        if len(c) != 1:
            bad(fn, "replace() pattern is not a single character", node)
        out.append([c, r])
        node = node.func.value
    out.reverse()
    return out


def assign_to(fn, st, var):
    if not (isinstance(st, ast.Assign) and len(st.targets) == 1 and is_name(st.targets[0], var)):
        bad(fn, "expected an assignment to %s" % var, st)
    return st.value


COERCE = "isinstance({p}, BaseStrType_) and {p} or '%s' % {p}"


def tr_quote_xml_aux(fd):
    fn = fd.name
    args = [a.arg for a in fd.args.args]
    if len(args) != 1 or fd.args.vararg or fd.args.kwarg or fd.args.kwonlyargs or fd.args.defaults:
        bad(fn, "signature is not (inStr)")
    body = strip_doc(fd.body)
    if len(body) < 2 or not isinstance(body[-1], ast.Return):
        bad(fn, "body is not  <replace chain>; return <var>")
    cur = args[0]
    table = []
    var = None
    for st in body[:-1]:
        if not (isinstance(st, ast.Assign) and len(st.targets) == 1 and isinstance(st.targets[0], ast.Name)):
            bad(fn, "expected  <var> = <var>.replace(<char>, <string>)", st)
        tgt = st.targets[0].id
        if var is not None and tgt != var:
            bad(fn, "replace chain assigns to a second variable", st)
        table.extend(replace_chain_expr(fn, st.value, cur) or bad(fn, "assignment without replace()", st))
        var = tgt
        cur = tgt
    if not is_name(body[-1].value, var):
        bad(fn, "does not return the replaced string", body[-1])
    return table


def wrap_rule(fn, st, var):
    """<var> = '<d>%s<d>' % <var>[.replace(..)]*   -> {"delim": d, "extra": [...]}"""
    val = assign_to(fn, st, var)
    if not (isinstance(val, ast.BinOp) and isinstance(val.op, ast.Mod)):
        bad(fn, "expected  %s = '<d>%%s<d>' %% %s[.replace(..)]" % (var, var), st)
    fmt = str_const(fn, val.left)
    if not (len(fmt) == 4 and fmt[1:3] == "%s" and fmt[0] == fmt[3] and fmt[0] in "\"'"):
        bad(fn, "quoting format is not <delimiter>%s<same delimiter>", st)
    return {"delim": fmt[0], "extra": replace_chain_expr(fn, val.right, var)}


def in_test(fn, node, var):
    if not (isinstance(node, ast.Compare) and len(node.ops) == 1 and isinstance(node.ops[0], ast.In)
            and is_name(node.comparators[0], var)):
        bad(fn, "expected the test  <char> in %s" % var, node)
    c = str_const(fn, node.left)
    if len(c) != 1:
        bad(fn, "membership test on more than one character", node)
    return c


def one(fn, stmts, what):
    if len(stmts) != 1:
        bad(fn, "expected exactly one statement in " + what, stmts[0] if stmts else None)
    return stmts[0]


def tr_quote_attrib(fd):
    fn = fd.name
    args = [a.arg for a in fd.args.args]
    if len(args) != 1 or fd.args.vararg or fd.args.kwarg or fd.args.kwonlyargs or fd.args.defaults:
        bad(fn, "signature is not (inStr)")
    p = args[0]
    body = strip_doc(fd.body)
    if len(body) < 4:
        bad(fn, "body too short")
    first = body[0]
    if not (isinstance(first, ast.Assign) and len(first.targets) == 1 and isinstance(first.targets[0], ast.Name)):
        bad(fn, "first statement is not the string coercion", first)
    var = first.targets[0].id
    if ast.unparse(first.value) != COERCE.format(p=p):
        bad(fn, "first statement is not  %s = %s" % (var, COERCE.format(p=p)), first)
    i = 1
    table = []
    while i < len(body) and isinstance(body[i], ast.Assign):
        ch = replace_chain_expr(fn, assign_to(fn, body[i], var), var)
        if not ch:
            bad(fn, "assignment without replace()", body[i])
        table.extend(ch)
        i += 1
    if i != len(body) - 2 or not isinstance(body[i], ast.If) or not isinstance(body[i + 1], ast.Return):
        bad(fn, "after the replace chain: expected one if-statement (choice of delimiter) and return", body[i] if i < len(body) else None)
    if not is_name(body[i + 1].value, var):
        bad(fn, "does not return the quoted string", body[i + 1])
    outer = body[i]
    t1 = in_test(fn, outer.test, var)
    inner = one(fn, outer.body, "the outer if-branch")
    if not isinstance(inner, ast.If):
        bad(fn, "expected a nested if in the outer if-branch", inner)
    t2 = in_test(fn, inner.test, var)
    dec = {"test1": t1, "test2": t2,
           "both": wrap_rule(fn, one(fn, inner.body, "inner if-branch"), var),
           "first_only": wrap_rule(fn, one(fn, inner.orelse, "inner else-branch"), var),
           "none": wrap_rule(fn, one(fn, outer.orelse, "outer else-branch"), var)}
    return table, dec


def tr_body(fd, fn=None):
    fn = fn or fd.name
    return [flat(fn, st) for st in strip_doc(fd.body)]


def tr_cdata_pattern(assigns):
    fn = "CDATA_pattern_"
    if len(assigns) != 1:
        bad(fn, "expected exactly one module-level assignment, found %d" % len(assigns))
    v = assigns[0].value
    if not (isinstance(v, ast.Call) and ast.unparse(v.func) == "re_.compile" and 1 <= len(v.args) <= 2 and not v.keywords):
        bad(fn, "expected re_.compile(<pattern>[, flags])", assigns[0])
    pat = str_const(fn, v.args[0])
    flags = []
    if len(v.args) == 2:
        for part in ast.unparse(v.args[1]).split("|"):
            part = part.strip()
            if not part.startswith("re_."):
                bad(fn, "flag expression not recognised", v.args[1])
            flags.append(part[4:])
    return pat, sorted(flags)


def method_sig_ok(fd, names):
    return [a.arg for a in fd.args.args] == names and not fd.args.vararg and not fd.args.kwarg and not fd.args.kwonlyargs


def tr_format_integer(fd):
    fn = fd.name
    body = strip_doc(fd.body)
    if not method_sig_ok(fd, ["self", "input_data", "input_name"]) or len(body) != 1 or not isinstance(body[0], ast.Return):
        bad(fn, "expected  return '<fmt>' % int(input_data)", body[0] if body else None)
    v = body[0].value
    if not (isinstance(v, ast.BinOp) and isinstance(v.op, ast.Mod) and ast.unparse(v.right) == "int(input_data)"):
        bad(fn, "expected  return '<fmt>' % int(input_data)", body[0])
    return str_const(fn, v.left)


def tr_parse_number(fd, conv):
    """try: v = <conv>(input_data) / except (TypeError, ValueError) [as exp]: raise_parse_error(...) / return v"""
    fn = fd.name
    body = strip_doc(fd.body)
    if not method_sig_ok(fd, ["self", "input_data", "node", "input_name"]) or len(body) != 2 \
            or not isinstance(body[0], ast.Try) or not isinstance(body[1], ast.Return):
        bad(fn, "expected  try: v = f(input_data) except ...: raise_parse_error(..); return v")
    t = body[0]
    if len(t.body) != 1 or t.orelse or t.finalbody or len(t.handlers) != 1:
        bad(fn, "try statement has an unexpected form", t)
    a = t.body[0]
    if not (isinstance(a, ast.Assign) and len(a.targets) == 1 and isinstance(a.targets[0], ast.Name)
            and isinstance(a.value, ast.Call) and isinstance(a.value.func, ast.Name)
            and len(a.value.args) == 1 and is_name(a.value.args[0], "input_data") and not a.value.keywords):
        bad(fn, "expected  v = f(input_data)", a)
    h = t.handlers[0]
    if ast.unparse(h.type) != "(TypeError, ValueError)" or len(h.body) != 1 or \
            not (isinstance(h.body[0], ast.Expr) and isinstance(h.body[0].value, ast.Call)
                 and ast.unparse(h.body[0].value.func) == "raise_parse_error"):
        bad(fn, "handler is not  except (TypeError, ValueError): raise_parse_error(...)", h)
    if not is_name(body[1].value, a.targets[0].id):
        bad(fn, "does not return the converted value", body[1])
    return a.value.func.id


def tr_format_float(fd):
    fn = fd.name
    body = strip_doc(fd.body)
    if not method_sig_ok(fd, ["self", "input_data", "input_name"]) or len(body) != 3:
        bad(fn, "expected  v = ('<fmt>' % float(input_data)).rstrip(c); if v.endswith(d): v += s; return v")
    a, i, r = body
    if not (isinstance(a, ast.Assign) and len(a.targets) == 1 and isinstance(a.targets[0], ast.Name)):
        bad(fn, "first statement is not an assignment", a)
    var = a.targets[0].id
    v = a.value
    if not (isinstance(v, ast.Call) and isinstance(v.func, ast.Attribute) and v.func.attr == "rstrip" and len(v.args) == 1
            and isinstance(v.func.value, ast.BinOp) and isinstance(v.func.value.op, ast.Mod)
            and ast.unparse(v.func.value.right) == "float(input_data)"):
        bad(fn, "expected  ('<fmt>' % float(input_data)).rstrip(<char>)", a)
    fmt = str_const(fn, v.func.value.left)
    strip = str_const(fn, v.args[0])
    if not (isinstance(i, ast.If) and not i.orelse and len(i.body) == 1 and isinstance(i.test, ast.Call)
            and isinstance(i.test.func, ast.Attribute) and i.test.func.attr == "endswith" and is_name(i.test.func.value, var)
            and len(i.test.args) == 1 and isinstance(i.body[0], ast.AugAssign) and isinstance(i.body[0].op, ast.Add)
            and is_name(i.body[0].target, var)):
        bad(fn, "expected  if %s.endswith(<dot>): %s += <suffix>" % (var, var), i)
    dot = str_const(fn, i.test.args[0])
    suffix = str_const(fn, i.body[0].value)
    if not (isinstance(r, ast.Return) and is_name(r.value, var)):
        bad(fn, "does not return the formatted value", r)
    return [fmt, strip, dot, suffix]


def main():
    tree = ast.parse(open(SRC, encoding="utf-8").read())
    want_funcs = ("quote_xml", "quote_xml_aux", "quote_attrib")
    want_methods = ("gds_format_integer", "gds_parse_integer", "gds_format_float", "gds_parse_float", "gds_validate_string")
    # every definition of the names anywhere in the module: a second definition or a rebinding would shadow the first
    defs = {n: [] for n in want_funcs}
    for node in ast.walk(tree):
        if isinstance(node, (ast.FunctionDef, ast.AsyncFunctionDef)) and node.name in defs:
            defs[node.name].append(node)
        if isinstance(node, (ast.Assign, ast.AugAssign, ast.AnnAssign)):
            tg = node.targets if isinstance(node, ast.Assign) else [node.target]
            for t in tg:
                for nm in ast.walk(t):
                    if isinstance(nm, ast.Name) and nm.id in want_funcs:
                        bad(nm.id, "name is rebound by an assignment", node)
    top = {n.name: n for n in tree.body if isinstance(n, ast.FunctionDef)}
    for n in want_funcs:
        if len(defs[n]) != 1 or n not in top or top[n] is not defs[n][0]:
            bad(n, "expected exactly one definition, at module level (found %d)" % len(defs[n]))
        if top[n].decorator_list:
            bad(n, "decorated")
    supers = [n for n in ast.walk(tree) if isinstance(n, ast.ClassDef) and n.name == "GeneratedsSuper"]
    if len(supers) != 1:
        bad("GeneratedsSuper", "expected exactly one class definition, found %d" % len(supers))
    meths = {}
    for st in supers[0].body:
        if isinstance(st, ast.FunctionDef) and st.name in want_methods:
            if st.name in meths or st.decorator_list:
                bad(st.name, "defined twice or decorated")
            meths[st.name] = st
    for m in want_methods:
        if m not in meths:
            bad(m, "not defined in GeneratedsSuper")
    # no subclass overrides of those helpers anywhere else
    for node in ast.walk(tree):
        if isinstance(node, ast.ClassDef) and node is not supers[0]:
            for st in node.body:
                if isinstance(st, ast.FunctionDef) and st.name in want_methods:
                    bad(st.name, "overridden in class " + node.name)
    cd = [n for n in ast.walk(tree) if isinstance(n, ast.Assign)
          and any(isinstance(x, ast.Name) and x.id == "CDATA_pattern_" for t in n.targets for x in ast.walk(t))]
    out = {}
    out["xml_repl"] = tr_quote_xml_aux(top["quote_xml_aux"])
    out["attrib_repl"], out["attrib_decision"] = tr_quote_attrib(top["quote_attrib"])
    out["quote_xml_body"] = tr_body(top["quote_xml"])
    out["quote_xml_sig"] = [a.arg for a in top["quote_xml"].args.args]
    if out["quote_xml_sig"] != ["inStr"]:
        bad("quote_xml", "signature is not (inStr)")
    out["cdata_regex"], out["cdata_flags"] = tr_cdata_pattern(cd)
    out["int_format"] = tr_format_integer(meths["gds_format_integer"])
    out["int_parse"] = tr_parse_number(meths["gds_parse_integer"], "int")
    out["float_format"] = tr_format_float(meths["gds_format_float"])
    out["float_parse"] = tr_parse_number(meths["gds_parse_float"], "float")
    if not method_sig_ok(meths["gds_validate_string"], ["self", "input_data", "node", "input_name"]):
        bad("gds_validate_string", "signature changed")
    out["validate_string"] = tr_body(meths["gds_validate_string"])
    for k in ("quote_xml_body", "validate_string"):
        for s in out[k]:
            ascii_str(k, s, None)
    return out


# ------------------------------------------------------------------ Coq text
def cstr(s):
    """Coq string term for printable ASCII + newline"""
    assert all(ord(c) < 128 for c in s)
    return '"' + s.replace('"', '""') + '"'


def cchar(c):
    return "(ascii_of_nat %d)" % ord(c)


def crepl(tab):
    return "[" + "; ".join("(%s, %s)" % (cchar(c), cstr(r)) for c, r in tab) + "]"


def crule(r):
    return "{| qr_delim := %s; qr_extra := %s |}" % (cchar(r["delim"]), crepl(r["extra"]))


def coq_text(d):
    dec = d["attrib_decision"]
    L = ["(* generated by translators/tr_escape.py from neuroml/nml/nml.py -- do not edit *)",
         "From Coq Require Import String Ascii List.",
         "From LNML Require Import Model.Escape.",
         "Import ListNotations.",
         "Open Scope string_scope.",
         "Definition gen_attrib_repl : repl := %s." % crepl(d["attrib_repl"]),
         "Definition gen_attrib_decision : attrib_decision :=",
         "  {| ad_test1 := %s; ad_test2 := %s;" % (cchar(dec["test1"]), cchar(dec["test2"])),
         "     ad_both := %s;" % crule(dec["both"]),
         "     ad_first_only := %s;" % crule(dec["first_only"]),
         "     ad_none := %s |}." % crule(dec["none"]),
         "Definition gen_xml_repl : repl := %s." % crepl(d["xml_repl"]),
         "Definition gen_cdata_regex : string := %s." % cstr(d["cdata_regex"]),
         "Definition gen_cdata_flags : list string := [%s]." % "; ".join(cstr(x) for x in d["cdata_flags"]),
         "Definition gen_quote_xml_body : list string := [%s]." % ";\n  ".join(cstr(x) for x in d["quote_xml_body"]),
         "Definition gen_int_format : string := %s." % cstr(d["int_format"]),
         "Definition gen_int_parse : string := %s." % cstr(d["int_parse"]),
         "Definition gen_float_format : string * string * string * string := (%s)." % ", ".join(cstr(x) for x in d["float_format"]),
         "Definition gen_float_parse : string := %s." % cstr(d["float_parse"]),
         "Definition gen_validate_string : list string := [%s]." % "; ".join(cstr(x) for x in d["validate_string"]),
         "Definition gen_quote_attrib (s : string) : string := quote_attrib_of gen_attrib_repl gen_attrib_decision s.",
         "Definition gen_quote_xml_aux (s : string) : string := quote_xml_aux_of gen_xml_repl s.",
         "Definition gen_quote_xml (s : string) : string := quote_xml_of gen_xml_repl s.",
         ""]
    return "\n".join(L)


if __name__ == "__main__":
    try:
        table = main()
    except Unrecognised as e:
        sys.stderr.write(str(e) + "\n")
        sys.exit(2)
    if "--coq" in sys.argv:
        print(coq_text(table))
    else:
        table["coq"] = coq_text(table)
        print(json.dumps(table))
