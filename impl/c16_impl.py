"""C16 implementation runner: builds a cell, calls the REAL Cell.create_unbranched_segment_group_branches and reports
segments and segment groups before/after.  One JSON document on the last stdout line.

case = {"segs": [...as c13...], "groups": [[gid, [members], [includes], neuro_lex_id|null]], "root": id,
        "reorder": bool, "optimise": bool, "light": bool (big inputs: no per-segment lengths / resolutions)}
"""
import json
import sys

from c13_impl import apply_history, build_cell, cached_adjacency, guarded, q, qpt


def seg_rows(c):
    rows = []
    for s in c.morphology.segments:
        par = None if s.parent is None else [s.parent.segments, q(float(s.parent.fraction_along))]
        rows.append([s.id, par, None if s.proximal is None else qpt(s.proximal), qpt(s.distal)])
    return rows


def group_rows(c):
    return [[g.id, [m.segments for m in g.members], [i.segment_groups for i in g.includes], g.neuro_lex_id]
            for g in c.morphology.segment_groups]


def resolved(c, gids):
    return [[g, guarded(lambda g=g: list(c.get_all_segments_in_group(g)))] for g in gids]


def fl(r):
    return r[0] / r[1]


def case_of_state(segs, groups):
    """a case description (floats) equal to the present state of a cell: used to build a FRESH equal cell"""
    def pt(p):
        return None if p is None else [fl(x) for x in p]
    return {"segs": [[i, None if par is None else par[0], None if par is None else fl(par[1]), pt(prox), pt(dist)]
                     for i, par, prox, dist in segs],
            "groups": [[g[0], g[1], g[2], g[3]] for g in groups]}


def run_case(case):
    c = build_cell(case)
    light = case.get("light")
    pre_gids = [g[0] for g in case.get("groups", [])]
    out = {}
    if not light and not case.get("history"):
        out["lens_before"] = [[s.id, guarded(lambda s=s: q(float(c.get_segment_length(s.id))))] for s in c.morphology.segments]
        out["resolved_before"] = resolved(c, pre_gids)
        # fresh cell for the call itself: no cached adjacency list / graph from the queries above
        c = build_cell(case)
    if case.get("history"):
        # the SAME Cell object goes through the history and then the measured call
        apply_history(c, case["history"])
        out["pre_segs"] = seg_rows(c)
        out["pre_groups"] = group_rows(c)
        out["adj_cached"] = cached_adjacency(c)
        # what a freshly built equal cell gives
        fresh = build_cell(case_of_state(out["pre_segs"], out["pre_groups"]))
        fres = guarded(lambda: fresh.create_unbranched_segment_group_branches(
            case["root"], reorder_segment_groups=case.get("reorder", True),
            optimise_segment_groups=case.get("optimise", True)))
        out["fresh"] = {"call": fres, "segs": seg_rows(fresh), "groups": group_rows(fresh)}
    res = guarded(lambda: c.create_unbranched_segment_group_branches(
        case["root"], reorder_segment_groups=case.get("reorder", True),
        optimise_segment_groups=case.get("optimise", True)))
    out["call"] = res
    out["segs"] = seg_rows(c)
    out["groups"] = group_rows(c)
    if not light and not case.get("history"):
        out["lens_after"] = [[s.id, guarded(lambda s=s: q(float(c.get_segment_length(s.id))))] for s in c.morphology.segments]
        out["resolved_after"] = resolved(c, pre_gids)
    return out


def main():
    payload = json.load(sys.stdin)
    res = [run_case(case) for case in payload["cases"]]
    sys.stdout.write("\n" + json.dumps({"results": res}) + "\n")


if __name__ == "__main__":
    main()
