"""C16 implementation runner: builds a cell, calls the REAL Cell.create_unbranched_segment_group_branches and reports
segments and segment groups before/after.  One JSON document on the last stdout line.

case = {"segs": [...as c13...], "groups": [[gid, [members], [includes], neuro_lex_id|null]], "root": id,
        "reorder": bool, "optimise": bool, "light": bool (big inputs: no per-segment lengths / resolutions)}
"""
import json
import sys

from c13_impl import build_cell, guarded, q, qpt


def seg_rows(c):
    rows = []
    for s in c.morphology.segments:
        par = None if s.parent is None else [s.parent.segments, q(float(s.parent.fraction_along))]
        rows.append([s.id, par, None if s.proximal is None else qpt(s.proximal), qpt(s.distal)])
    return rows


def group_rows(c):
    return [[g.id, [m.segments for m in g.members], [i.segment_groups for i in g.includes], g.neuro_lex_id]
            for g in c.morphology.segment_groups]


def resolved(c, gids):
    return [[g, guarded(lambda g=g: list(c.get_all_segments_in_group(g)))] for g in gids]


def run_case(case):
    c = build_cell(case)
    light = case.get("light")
    pre_gids = [g[0] for g in case.get("groups", [])]
    out = {}
    if not light:
        out["lens_before"] = [[s.id, guarded(lambda s=s: q(float(c.get_segment_length(s.id))))] for s in c.morphology.segments]
        out["resolved_before"] = resolved(c, pre_gids)
    # fresh cell for the call itself: no cached adjacency list / graph from the queries above
    c = build_cell(case)
    res = guarded(lambda: c.create_unbranched_segment_group_branches(
        case["root"], reorder_segment_groups=case.get("reorder", True),
        optimise_segment_groups=case.get("optimise", True)))
    out["call"] = res
    out["segs"] = seg_rows(c)
    out["groups"] = group_rows(c)
    if not light:
        out["lens_after"] = [[s.id, guarded(lambda s=s: q(float(c.get_segment_length(s.id))))] for s in c.morphology.segments]
        out["resolved_after"] = resolved(c, pre_gids)
    return out


def main():
    payload = json.load(sys.stdin)
    res = [run_case(case) for case in payload["cases"]]
    sys.stdout.write("\n" + json.dumps({"results": res}) + "\n")


if __name__ == "__main__":
    main()
