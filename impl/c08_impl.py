"""C08 - runs the REAL libNeuroML readers/writers under fault injection (no source hooks: everything is done by
monkey-patching from this process).  JSON in on stdin, one JSON document on the last stdout line.

payload = {"ops": [{"op": <name>, "doc": <spec>, "kinds": ["OSError", ...], "faults": "all" | [k, ...] | <max n>}],
           "truncate": [{"doc": <spec>, "offsets": "all" | stride}]}

For every op: a dry run with the injector counting every call the library makes into the file layer
(builtin open / file.write / file.close, tables.open_file, File.create_group/create_array/create_carray/close/
__exit__/root, Node._f_setattr, Group iteration / natural naming, AttributeSet access, Leaf.__getitem__,
lxml parse / fromstring), then one run per (call index k, exception kind) in which exactly that call raises.
After each failed call, while the exception is still alive: tables.file._open_files, /proc/self/fd, canonical
dump of the document before/after; then the same call is retried without fault on the same document.
The statement of the entry function (or of an inlined callee) in which the fault surfaced is taken from the
traceback, so that the check can ask the Coq model what a fault at that statement must leave behind.
"""
import contextlib
import gc
import io
import json
import os
import shutil
import sys
import tempfile
import traceback
import warnings

warnings.simplefilter("ignore")
REPO = os.environ.get("VERIF_REPO", "/repo")
_real_stdout = sys.stdout
sys.stdout = io.StringIO()  # the library prints; keep our JSON line clean

import numpy as np  # noqa: E402
import tables  # noqa: E402

import neuroml  # noqa: E402
import neuroml.arraymorph as am  # noqa: E402
import neuroml.loaders as loaders  # noqa: E402
import neuroml.nml.nml as nml  # noqa: E402
import neuroml.writers as writers  # noqa: E402
from neuroml.hdf5.NetworkBuilder import NetworkBuilder  # noqa: E402
from neuroml.hdf5.NetworkContainer import OptimizedList  # noqa: E402
from neuroml.hdf5.NeuroMLHdf5Parser import NeuroMLHdf5Parser  # noqa: E402

NEUROML_DIR = os.path.realpath(os.path.dirname(neuroml.__file__))


class InjectedOSError(OSError):
    pass


class InjectedAttributeError(AttributeError):
    pass


KINDS = {"OSError": InjectedOSError, "AttributeError": InjectedAttributeError}


class Injector:
    def __init__(self):
        self.active = False
        self.reset()

    def reset(self, fault_at=None, kind="OSError"):
        self.count = 0
        self.trace = []
        self.fault_at = fault_at
        self.kind = kind
        self.fired = None

    def from_library(self, depth=2):
        f = sys._getframe(depth)
        return os.path.realpath(f.f_code.co_filename).startswith(NEUROML_DIR)

    def hit(self, name, depth=2):
        if not self.active or not self.from_library(depth + 1):
            return
        k = self.count
        self.count += 1
        self.trace.append(name)
        if self.fault_at is not None and k == self.fault_at:
            self.fired = name
            raise KINDS[self.kind]("injected fault at file-layer call #%d (%s)" % (k, name))


INJ = Injector()


def wrap_before(cls, attr, name):
    real = getattr(cls, attr)

    def w(*a, **k):
        INJ.hit(name)
        return real(*a, **k)

    w.__name__ = getattr(real, "__name__", attr)
    setattr(cls, attr, w)


def wrap_after(cls, attr, name):
    """the real operation is performed (a close really closes), then the call may raise"""
    real = getattr(cls, attr)

    def w(*a, **k):
        r = real(*a, **k)
        INJ.hit(name)
        return r

    w.__name__ = getattr(real, "__name__", attr)
    setattr(cls, attr, w)


class FileProxy:
    def __init__(self, f):
        self._f = f

    def write(self, s):
        INJ.hit("file.write")
        return self._f.write(s)

    def close(self):
        r = self._f.close()
        INJ.hit("file.close")
        return r

    def __getattr__(self, a):
        return getattr(self._f, a)


def patched_open(*a, **k):
    INJ.hit("open")
    return FileProxy(open(*a, **k))


class EtreeProxy:
    def __init__(self, real):
        self._real = real

    def parse(self, *a, **k):
        INJ.hit("etree.parse")
        return self._real.parse(*a, **k)

    def fromstring(self, *a, **k):
        INJ.hit("etree.fromstring")
        return self._real.fromstring(*a, **k)

    def __getattr__(self, a):
        return getattr(self._real, a)


def install():
    real_open_file = tables.open_file

    def open_file(*a, **k):
        INJ.hit("tables.open_file")
        return real_open_file(*a, **k)

    tables.open_file = open_file
    F = tables.File
    for m in ("create_group", "create_array", "create_carray"):
        wrap_before(F, m, "File." + m)
    wrap_after(F, "close", "File.close")
    wrap_after(F, "__exit__", "File.__exit__")
    wrap_before(tables.Node, "_f_setattr", "Node._f_setattr")
    wrap_before(tables.Group, "__iter__", "Group.__iter__")
    wrap_before(tables.Group, "__getattr__", "Group.__getattr__")
    A = tables.attributeset.AttributeSet
    wrap_before(A, "__getattr__", "AttributeSet.__getattr__")
    wrap_before(A, "__getitem__", "AttributeSet.__getitem__")
    wrap_before(A, "__contains__", "AttributeSet.__contains__")
    wrap_before(tables.Array, "__getitem__", "Array.__getitem__")
    writers.open = patched_open
    nml.etree_ = EtreeProxy(nml.etree_)

    # the XML that the HDF5 writer embeds is written into an io.StringIO: its writes are file-layer calls too
    class CountingStringIO(io.StringIO):
        def write(self, s):
            INJ.hit("StringIO.write")
            return super().write(s)

    io.StringIO = CountingStringIO


# ------------------------------------------------------------------------------------------- documents
def build_doc(spec):
    doc = neuroml.NeuroMLDocument(id=spec.get("id", "doc0"))
    if spec.get("notes"):
        doc.notes = spec["notes"]
    for i in range(spec.get("iaf", 0)):
        doc.iaf_cells.append(neuroml.IafCell(id="iaf%d" % i, C="1.0 nF", thresh="-50mV", reset="-65mV",
                                             leak_conductance="10 nS", leak_reversal="-65mV"))
    for i in range(spec.get("syn", 0)):
        doc.exp_one_synapses.append(neuroml.ExpOneSynapse(id="syn%d" % i, gbase="1nS", erev="0mV", tau_decay="2ms"))
    for i in range(spec.get("pg", 0)):
        doc.pulse_generators.append(neuroml.PulseGenerator(id="pg%d" % i, delay="1ms", duration="5ms", amplitude="0.1nA"))
    for n in spec.get("networks", []):
        net = neuroml.Network(id=n["id"])
        if n.get("notes"):
            net.notes = n["notes"]
        doc.networks.append(net)
        for p in n.get("pops", []):
            pop = neuroml.Population(id=p["id"], component=p.get("comp", "iaf0"), size=p.get("size", 1))
            order = range(p.get("instances", 0))
            if p.get("desc"):
                order = reversed(order)  # the list order is part of the caller's document (not sorted by id)
            for j in order:
                inst = neuroml.Instance(id=j)
                inst.location = neuroml.Location(x=float(j), y=float(2 * j), z=float(3 * j))
                pop.instances.append(inst)
            if p.get("instances", 0):
                pop.type = "populationList"
                pop.size = p["instances"]
            for k, v in p.get("props", {}).items():
                pop.properties.append(neuroml.Property(tag=k, value=v))
            net.populations.append(pop)
        for pr in n.get("projs", []):
            proj = neuroml.Projection(id=pr["id"], presynaptic_population=pr["pre"], postsynaptic_population=pr["post"],
                                      synapse=pr.get("syn", "syn0"))
            for j in range(pr.get("conns", 0)):
                proj.connections.append(neuroml.Connection(id=j, pre_cell_id="../%s[%d]" % (pr["pre"], 0),
                                                           post_cell_id="../%s[%d]" % (pr["post"], 0)))
            for j in range(pr.get("connwds", 0)):
                proj.connection_wds.append(neuroml.ConnectionWD(id=100 + j, pre_cell_id="../%s[%d]" % (pr["pre"], 0),
                                                                post_cell_id="../%s[%d]" % (pr["post"], 0),
                                                                weight=2.0, delay="3ms"))
            net.projections.append(proj)
        for il in n.get("ils", []):
            ilist = neuroml.InputList(id=il["id"], component=il.get("comp", "pg0"), populations=il["pop"])
            for j in range(il.get("inputs", 0)):
                ilist.input.append(neuroml.Input(id=j, target="../%s[%d]" % (il["pop"], 0), destination="synapses"))
            net.input_lists.append(ilist)
        for cp in n.get("cprojs", []):
            # cp["vary"]: "" | "pre" | "post" | "both"  (how the 2nd connection differs from the first)
            proj = neuroml.ContinuousProjection(id=cp["id"], presynaptic_population=cp["pre"], postsynaptic_population=cp["post"])
            for j in range(cp.get("conns", 2)):
                vary = cp.get("vary", "") if j == 1 else ""
                proj.continuous_connections.append(neuroml.ContinuousConnection(
                    id=j, pre_cell="%d" % 0, post_cell="%d" % 0,
                    pre_component="silent1" if vary in ("pre", "both") else "silent0",
                    post_component="gs1" if vary in ("post", "both") else "gs0"))
            net.continuous_projections.append(proj)
        for ep in n.get("eprojs", []):
            proj = neuroml.ElectricalProjection(id=ep["id"], presynaptic_population=ep["pre"], postsynaptic_population=ep["post"])
            for j in range(ep.get("conns", 2)):
                proj.electrical_connections.append(neuroml.ElectricalConnection(
                    id=j, pre_cell="%d" % 0, post_cell="%d" % 0, synapse="gj1" if (j == 1 and ep.get("vary")) else "gj0"))
            net.electrical_projections.append(proj)
        for j in range(n.get("spaces", 0)):
            net.spaces.append(neuroml.Space(id="space%d" % j))
        for j in range(n.get("regions", 0)):
            net.regions.append(neuroml.Region(id="region%d" % j, spaces="space0"))
        for j in range(n.get("cell_sets", 0)):
            net.cell_sets.append(neuroml.CellSet(id="cs%d" % j, select="all"))
        for j in range(n.get("extracellular", 0)):
            net.extracellular_properties.append(neuroml.ExtracellularPropertiesLocal(id="ext%d" % j))
        if n.get("layout"):
            net.populations[0].layout = neuroml.Layout(spaces="space0")
        for j in range(n.get("explicit_inputs", 0)):
            net.explicit_inputs.append(neuroml.ExplicitInput(target="%s[0]" % n["pops"][0]["id"], input="pg0"))
        for j in range(n.get("synaptic_connections", 0)):
            net.synaptic_connections.append(neuroml.SynapticConnection(from_="%s[0]" % n["pops"][0]["id"],
                                                                       to="%s[0]" % n["pops"][0]["id"], synapse="syn0"))
    for c in spec.get("am_cells", []):
        cell = neuroml.Cell(id=c.get("id"))
        cell.morphology = make_am(c.get("n", 3), c.get("mid"))
        for k in c.get("edited", []):
            seg = cell.morphology.segments[k]
            seg.name = "edited_by_user_%d" % k
            cell.morphology.segments[k] = seg  # user-assigned: lives in the view's own table
        doc.cells.append(cell)
    for m in spec.get("am_morphs", []):
        doc.morphology.append(make_am(m.get("n", 3), m.get("mid")))
    for h in spec.get("includes", []):
        doc.includes.append(neuroml.IncludeType(href=h))
    if spec.get("bad_component"):
        doc.iaf_cells.append("not a component")  # a construct no format can hold: export raises by itself
    return doc


def top_level_ids(doc):
    out = set()
    for k, v in vars(doc).items():
        if isinstance(v, list) and k not in ("networks", "includes"):
            for x in v:
                if hasattr(x, "id"):
                    out.add("%s:%s" % (k, x.id))
    return out


def roundtrip_missing(doc, path):
    """a write that returned normally must have produced a file that gives every top-level component back"""
    try:
        back = loaders.NeuroMLHdf5Loader.load(path)
        return sorted(top_level_ids(doc) - top_level_ids(back))[:20]
    except BaseException as e:  # noqa: BLE001
        return ["<load failed: %s>" % type(e).__name__]
    finally:
        cleanup_handles()


def remove_cause(doc):
    """for natural failures: take out what the format cannot hold, so that the retry has no reason to fail"""
    if not isinstance(doc, neuroml.NeuroMLDocument):
        return
    doc.iaf_cells = [c for c in doc.iaf_cells if not isinstance(c, str)]
    for n in doc.networks:
        n.explicit_inputs = []
        n.synaptic_connections = []
        n.spaces, n.regions, n.cell_sets, n.extracellular_properties = [], [], [], []
        for pop in n.populations:
            pop.layout = None
        for cp in n.continuous_projections:
            for c in cp.continuous_connections:
                c.pre_component, c.post_component = "silent0", "gs0"
        for ep in n.electrical_projections:
            for c in ep.electrical_connections:
                c.synapse = "gj0"
    if len(doc.iaf_cells) > 200:
        doc.iaf_cells = doc.iaf_cells[:5]  # embedded XML above the 64 kB an HDF5 attribute holds: shrink
    doc.networks = doc.networks[:1]  # the HDF5 layout holds one network
    doc.morphology = []


def make_am(n, mid):
    v = np.array([[float(i), 0.0, 0.0, 1.0] for i in range(n)])
    conn = np.array([-1] + list(range(n - 1)))
    m = am.ArrayMorphology(vertices=v, connectivity=conn, id=mid)
    return m


SKIP = {"gds_collector_", "gds_elementtree_node_", "original_tagname_", "parent_object_", "ns_prefix_",
        "extensiontype_", "cell_graph"}


def dump(o, depth=0):
    if depth > 40:
        return "<deep>"
    if isinstance(o, np.ndarray):
        return ["ndarray", o.tolist()]
    if isinstance(o, (list, tuple)):
        return [dump(x, depth + 1) for x in o]
    if isinstance(o, dict):
        return {str(k): dump(v, depth + 1) for k, v in sorted(o.items(), key=lambda kv: str(kv[0]))}
    if hasattr(o, "__dict__") and type(o).__module__.startswith("neuroml"):
        d = {"__class__": type(o).__name__}
        if isinstance(o, OptimizedList):
            # an array backed list of the optimized representation IS what iterating it yields (its cursor is
            # iteration state: dead between iterations as long as every iteration starts by rewinding it)
            d["items"] = [dump(x, depth + 1) for x in o]
        elif is_view_container(o):
            # a list-like view computed from arrays (arraymorph.SegmentList ...): what iterating it yields; its own
            # fields are caches / back references / iteration state.  Very long views are not walked (the walk itself
            # would instantiate every element): their user-assigned entries are watched instead, see watch_views().
            if len(o) > 2000:
                d["items"] = "<%d entries; user-assigned entries are watched separately>" % len(o)
            else:
                d["items"] = [dump(x, depth + 1) for x in o]
            return d
        for k, v in sorted(vars(o).items()):
            if k in SKIP or v is None or (isinstance(v, list) and not v) or (k == "cursor" and isinstance(o, OptimizedList)):
                continue
            d[k] = dump(v, depth + 1)
        return d
    if isinstance(o, (str, int, float, bool)) or o is None:
        return o
    if isinstance(o, np.generic):
        return o.item()
    return repr(type(o))


def is_view_container(o):
    t = type(o)
    return (t.__module__ in ("neuroml.arraymorph",) and hasattr(t, "__getitem__") and hasattr(t, "__len__")
            and not hasattr(t, "member_data_items_"))


def watch_views(doc):
    """the entries a user assigned into the list-like views of the document (SegmentList.__setitem__ keeps them in
    its table): [(view, index, dump)] taken WITHOUT walking the view"""
    out = []
    if not isinstance(doc, neuroml.NeuroMLDocument):
        return out
    for cell in getattr(doc, "cells", []):
        segs = getattr(getattr(cell, "morphology", None), "segments", None)
        tab = getattr(segs, "instantiated_segments", None)
        if isinstance(tab, dict):
            for k in sorted(tab)[:50]:
                out.append((segs, k, json.dumps(dump(tab[k]), sort_keys=True, default=str)))
    return out


def watched_changes(watch):
    bad = []
    for view, k, before in watch:
        try:
            now = json.dumps(dump(view[k]), sort_keys=True, default=str)
        except BaseException as e:  # noqa: BLE001
            now = "<%s>" % type(e).__name__
        if now != before:
            bad.append({"index": k, "before": before[:200], "after": now[:200]})
    return bad


def jdump(o):
    return json.dumps(dump(o), sort_keys=True, default=str)


# ------------------------------------------------------------------------------------------- observation
def open_tables():
    reg = tables.file._open_files
    try:
        return sorted(reg.filenames)
    except AttributeError:  # pragma: no cover
        return sorted(getattr(reg, "_name_mapping", {}).keys())


def open_fds(tmp):
    out = []
    for fd in os.listdir("/proc/self/fd"):
        try:
            t = os.readlink("/proc/self/fd/" + fd)
        except OSError:
            continue
        if t.startswith(tmp):
            out.append(t)
    return sorted(out)


def cleanup_handles():
    try:
        tables.file._open_files.close_all()
    except Exception:
        pass
    gc.collect()


def site_of(exc):
    """frames (innermost last) that lie in the neuroml package: [(file relative to the package parent, function, line)]"""
    out = []
    tb = exc.__traceback__
    while tb is not None:
        fn = os.path.realpath(tb.tb_frame.f_code.co_filename)
        if fn.startswith(NEUROML_DIR):
            out.append(["neuroml/" + os.path.relpath(fn, NEUROML_DIR), tb.tb_frame.f_code.co_name, tb.tb_lineno])
        tb = tb.tb_next
    return out


# ------------------------------------------------------------------------------------------- operations
class Op:
    """one call of an entry point; prepare() builds inputs, call() performs the call under test"""

    def __init__(self, spec, tmp):
        self.spec, self.tmp = spec, tmp
        self.op = spec["op"]
        self.doc = None
        self.extra = None

    def path(self, name):
        return os.path.join(self.tmp, name)

    def prepare(self):
        o = self.op
        ds = self.spec.get("doc", {})
        INJ.active = False
        if o in ("xml_write_path", "xml_write_handle", "h5_write_embed", "h5_write_noembed", "am_write_doc"):
            self.doc = build_doc(ds)
        elif o in ("xml_write_path_opt", "xml_write_handle_opt"):
            # a document in the optimized representation (array backed instance / connection / input lists)
            src = self.path("opt_src.nml.h5")
            if not os.path.exists(src):
                writers.NeuroMLHdf5Writer.write(build_doc(ds), src, embed_xml=ds.get("embed", True))
            self.doc = loaders.NeuroMLHdf5Loader.load(src, optimized=True)
        elif o == "am_write_morph":
            self.doc = make_am(ds.get("n", 4), ds.get("mid"))
        elif o in ("h5_parse", "h5_parse_opt", "h5_load", "h5_load_opt", "file_h5"):
            d = build_doc(ds)
            self.extra = self.path("in.nml.h5")
            if not os.path.exists(self.extra):
                writers.NeuroMLHdf5Writer.write(d, self.extra, embed_xml=ds.get("embed", True))
        elif o in ("xml_load", "file_xml", "file_xml_inc"):
            d = build_doc(ds)
            self.extra = self.path("in.nml")
            if not os.path.exists(self.extra):
                for h in ds.get("includes", []):
                    inc = build_doc({"id": "inc_" + h.replace(".", "_"), "iaf": 1})
                    inc.iaf_cells[0].id = "iaf_" + h.replace(".", "_")
                    writers.NeuroMLWriter.write(inc, self.path(h))
                writers.NeuroMLWriter.write(d, self.extra)
        elif o == "string_xml":
            d = build_doc(ds)
            sf = io.StringIO()
            writers.NeuroMLWriter.write(d, sf, close=False)
            s = sf.getvalue()
            self.extra = s[s.index("<neuroml"):]
        elif o == "am_load":
            self.extra = self.path("in_am.h5")
            if not os.path.exists(self.extra):
                if ds.get("am_cells"):
                    writers.ArrayMorphWriter.write(build_doc(ds), self.extra)
                else:
                    writers.ArrayMorphWriter.write(make_am(ds.get("n", 4), ds.get("mid", "m0")), self.extra)
        else:
            raise ValueError("unknown op " + o)
        cleanup_handles()

    def call(self):
        o = self.op
        if o in ("xml_write_path", "xml_write_path_opt"):
            return writers.NeuroMLWriter.write(self.doc, self.path("out.nml"))
        if o in ("xml_write_handle", "xml_write_handle_opt"):
            fh = patched_open(self.path("out_h.nml"), "w")
            self.caller_handle = fh
            return writers.NeuroMLWriter.write(self.doc, fh, close=False)
        if o == "h5_write_embed":
            return writers.NeuroMLHdf5Writer.write(self.doc, self.path("out.nml.h5"), embed_xml=True)
        if o == "h5_write_noembed":
            return writers.NeuroMLHdf5Writer.write(self.doc, self.path("out.nml.h5"), embed_xml=False)
        if o in ("am_write_doc", "am_write_morph"):
            return writers.ArrayMorphWriter.write(self.doc, self.path("out_am.h5"))
        if o == "am_load":
            return loaders.ArrayMorphLoader.load(self.extra)
        if o == "h5_parse":
            p = NeuroMLHdf5Parser(NetworkBuilder())
            p.parse(self.extra)
            return p.netHandler.get_nml_doc()
        if o == "h5_parse_opt":
            p = NeuroMLHdf5Parser(None, optimized=True)
            p.parse(self.extra)
            return p.get_nml_doc()
        if o == "h5_load":
            return loaders.NeuroMLHdf5Loader.load(self.extra)
        if o == "h5_load_opt":
            return loaders.NeuroMLHdf5Loader.load(self.extra, optimized=True)
        if o == "xml_load":
            return loaders.NeuroMLLoader.load(self.extra)
        if o == "file_xml":
            return loaders.read_neuroml2_file(self.extra)
        if o == "file_xml_inc":
            return loaders.read_neuroml2_file(self.extra, include_includes=True)
        if o == "file_h5":
            return loaders.read_neuroml2_file(self.extra)
        if o == "string_xml":
            return loaders.read_neuroml2_string(self.extra, base_path=self.tmp)
        raise ValueError(o)

    def output(self, res):
        """what the call produced, where it can be compared exactly: the XML file written / the document loaded"""
        if self.op.startswith("xml_write_path"):
            try:
                return open(self.path("out.nml")).read()
            except OSError:
                return None
        if self.op.startswith("xml_write_handle"):
            try:
                return open(self.path("out_h.nml")).read()
            except OSError:
                return None
        if self.doc is None and res is not None:
            return jdump(res)
        return None

    def after_call(self):
        """the caller's own handle (xml_write_handle) is the caller's business"""
        fh = getattr(self, "caller_handle", None)
        if fh is not None:
            INJ.active = False
            try:
                fh._f.close()
            except Exception:
                pass
            self.caller_handle = None


def observe(op, fault_at, kind):
    """one run of op.call() with the fault plan; returns the observation record"""
    op.prepare()
    before = jdump(op.doc) if op.doc is not None else None
    watch = watch_views(op.doc)
    base_t, base_fd = open_tables(), open_fds(op.tmp)
    INJ.reset(fault_at, kind)
    rec = {"k": fault_at, "kind": kind}
    INJ.active = True
    exc = None
    try:
        with contextlib.redirect_stderr(io.StringIO()):
            res = op.call()
        INJ.active = False
        rec["raised"] = False
        rec["result"] = jdump(res) if res is not None and op.doc is None else None
        if fault_at is None:
            op.after_call()
            op.ref_output = op.output(res)
            if op.op == "h5_write_embed" and op.spec.get("or_roundtrip"):
                rec["roundtrip_missing"] = roundtrip_missing(op.doc, op.path("out.nml.h5"))
    except BaseException as e:  # noqa: BLE001 - SystemExit from the loaders included
        INJ.active = False
        exc = e
        rec["raised"] = True
        rec["exc"] = type(e).__name__
        rec["msg"] = str(e)[:200]
        rec["frames"] = site_of(e)
    # measured while the exception (and the frames it references) is still alive
    if getattr(op, "caller_handle", None) is not None:
        base_fd = sorted(base_fd + [op.caller_handle._f.name])
        rec["caller_handle_closed"] = bool(op.caller_handle._f.closed)  # close=False: the handle is the caller's
    lt = [x for x in open_tables() if x not in base_t]
    lf = list(open_fds(op.tmp))
    for x in base_fd:
        if x in lf:
            lf.remove(x)
    rec["leaked_tables"] = lt
    rec["leaked_fds"] = lf
    rec["leaked"] = max(len(lt), len(lf))
    rec["fired"] = INJ.fired
    rec["ncalls"] = INJ.count
    rec["trace"] = list(INJ.trace[:400])
    after = jdump(op.doc) if op.doc is not None else None
    rec["doc_changed"] = before != after
    if rec["doc_changed"]:
        rec["doc_diff"] = first_diff(before, after)
    lost = watched_changes(watch)
    if lost:
        rec["doc_changed"] = True
        rec["doc_diff"] = {"user_assigned_entries_changed": lost[:3], "count": len(lost)}
    # retry on the same document, cause removed
    if rec["raised"] and (INJ.fired is not None or fault_at is None):
        op.after_call()
        if INJ.fired is None:
            remove_cause(op.doc)
        was_injected = INJ.fired is not None
        INJ.reset(None)
        INJ.active = True
        try:
            with contextlib.redirect_stderr(io.StringIO()):
                res2 = op.call()
            rec["retry_ok"] = True
            INJ.active = False
            op.after_call()
            ref = getattr(op, "ref_output", None)
            if ref is not None and was_injected:
                out2 = op.output(res2)
                rec["retry_same"] = out2 == ref
                if out2 != ref:
                    rec["retry_diff"] = first_diff(ref, out2 or "")
        except BaseException as e2:  # noqa: BLE001
            rec["retry_ok"] = False
            rec["retry_err"] = "%s: %s" % (type(e2).__name__, str(e2)[:160])
        INJ.active = False
    op.after_call()
    exc = None
    cleanup_handles()
    return rec


def first_diff(a, b):
    i = next((i for i, (x, y) in enumerate(zip(a, b)) if x != y), min(len(a), len(b)))
    return {"at": i, "before": a[max(0, i - 60):i + 60], "after": b[max(0, i - 60):i + 60]}


def run_op(spec):
    tmp = tempfile.mkdtemp(prefix="c08_")
    try:
        op = Op(spec, tmp)
        dry = observe(op, None, "OSError")
        out = {"op": spec["op"], "doc": spec.get("doc", {}), "dry": dry, "faults": [], "must_raise": spec.get("must_raise", False),
               "or_roundtrip": spec.get("or_roundtrip", False)}
        n = dry["ncalls"]
        want = spec.get("faults", "all")
        if want == "all":
            ks = list(range(n))
        elif want == "late":
            ks = [max(0, n - 3)]  # one fault, after (nearly) everything has been walked
        elif isinstance(want, int):
            ks = list(range(n)) if n <= want else sorted(set([0, 1, n - 2, n - 1] + [int(i * n / want) for i in range(want)]))
            ks = [k for k in ks if 0 <= k < n]
        else:
            ks = [k for k in want if k < n]
        if dry["raised"]:
            ks = []  # the call fails by itself: that run is the case; later call indices do not exist
        for kind in spec.get("kinds", ["OSError"]):
            for k in ks:
                out["faults"].append(observe(op, k, kind))
        for r in out["faults"]:
            r.pop("trace", None)
            r.pop("result", None)
        dry.pop("result", None)
        return out
    finally:
        cleanup_handles()
        shutil.rmtree(tmp, ignore_errors=True)


# ------------------------------------------------------------------------------------------- truncation
import re  # noqa: E402

TOKEN = re.compile(r"<\?.*?\?>|<!--.*?-->|<!\[CDATA\[.*?\]\]>|<[^>]*>|[^<]+", re.S)


def tokens_of(text):
    """(model tokens, byte offset after each source token) for our own writer's output (+ the harness' additions)"""
    toks, ends = [], []
    for m in TOKEN.finditer(text):
        t = m.group(0)
        if t.startswith("<?") or t.startswith("<!--"):
            new = []
        elif t.startswith("<![CDATA["):
            new = [["T", "t"]]
        elif t.startswith("</"):
            new = [["C", t[2:-1].strip()]]
        elif t.startswith("<"):
            name = re.match(r"<\s*([^\s/>]+)", t).group(1)
            new = [["O", name]] + ([["C", name]] if t.endswith("/>") else [])
        else:
            new = [] if not t.strip() else [["T", "t"]]
        toks.extend(new)
        ends.append([len(toks), len(text[:m.end()].encode())])
    return toks, ends


def augment(text):
    """token classes our writer never emits: XML declaration, comment, CDATA section, numeric character references"""
    i = text.index(">", text.index("<neuroml")) + 1
    text = text[:i] + "\n    <!-- comment with \u00b5 and \u20ac -->" + text[i:]
    text = text.replace("@@CD@@", "<![CDATA[a<b \u00b5 ]]>").replace("@@NC@@", "&#181;&#x20AC;")
    return '<?xml version="1.0" encoding="UTF-8"?>\n' + text


CLASSES = [
    ("xml-declaration", rb"<\?xml.*?\?>"), ("comment", rb"<!--.*?-->"), ("cdata", rb"<!\[CDATA\[.*?\]\]>"),
    ("closing-tag", rb"</[^>]*>"), ("entity-reference", rb"&#?\w+;"),
]


def class_spans(data):
    """byte spans per token class (first, second and last instance of each)"""
    spans = {}
    for name, rx in CLASSES:
        spans[name] = [(m.start(), m.end()) for m in re.finditer(rx, data, re.S)]
    tn, an, av = [], [], []
    for m in re.finditer(rb"<([A-Za-z_][\w:.-]*)([^<>]*)>", data):
        tn.append((m.start(), m.end(1)))
        for a in re.finditer(rb'\s([\w:.-]+)\s*=\s*"([^"]*)"', m.group(2)):
            base = m.start(2)
            an.append((base + a.start(1), base + a.end(1)))
            av.append((base + a.start(2) - 1, base + a.end(2) + 1))
    spans["tag-name"], spans["attribute-name"], spans["attribute-value"] = tn, an, av
    # attribute values and text that hold multi-byte characters are the interesting instances: keep them too
    out = {}
    for k, v in spans.items():
        pick = v[:2] + v[-1:] + [sp for sp in v if any(b >= 0x80 for b in data[sp[0]:sp[1]])][:3]
        out[k] = sorted(set(pick))
    return out


def run_truncate(spec):
    tmp = tempfile.mkdtemp(prefix="c08t_")
    try:
        INJ.active = False
        doc = build_doc(spec["doc"])
        for n in doc.networks:
            n.notes = doc.notes
        full = os.path.join(tmp, "full.nml")
        writers.NeuroMLWriter.write(doc, full)
        if spec.get("augment"):
            text = augment(open(full, encoding="utf-8").read())
            with open(full, "w", encoding="utf-8") as f:
                f.write(text)
        data = open(full, "rb").read()
        text = data.decode()
        ref = jdump(loaders.NeuroMLLoader.load(full))
        end_root = data.rstrip().__len__()
        want = spec.get("offsets", "all")
        classes = {}
        inside_mb = [k for k in range(len(data)) if 0x80 <= data[k] <= 0xBF]  # a cut here ends inside a character
        mb_sizes = sorted({len(ch.encode()) for ch in text if ord(ch) > 127})
        if want == "all":
            offs = list(range(0, len(data)))
        else:
            offs = set(range(0, len(data), int(want))) | {1, end_root - 1, end_root - 2, len(data) - 1} | set(inside_mb)
            for cname, sps in class_spans(data).items():
                for a, b in sps:
                    offs |= set(range(a, b + 1))
            offs = sorted(offs)
        for cname, sps in class_spans(data).items():
            classes[cname] = sum(1 for k in offs for a, b in sps if a < k < b)
        classes["inside-multibyte-character"] = sum(1 for k in offs if k in set(inside_mb))
        offs = [k for k in offs if 0 <= k < len(data)]
        bad, rejected, equal = [], 0, 0
        cut = os.path.join(tmp, "cut.nml")
        mbset = set(inside_mb)
        for k in offs:
            with open(cut, "wb") as f:
                f.write(data[:k])
            try:
                with contextlib.redirect_stderr(io.StringIO()):
                    d = loaders.NeuroMLLoader.load(cut)
                got = jdump(d)
                if got == ref and k >= end_root:
                    equal += 1
                else:
                    bad.append({"offset": k, "of": len(data), "via": "NeuroMLLoader.load", "loaded": got[:300],
                                "inside_multibyte_character": k in mbset, "around": repr(data[max(0, k - 12):k + 4])})
            except BaseException:  # noqa: BLE001
                rejected += 1
            # the other file entry point and the string entry point
            if k % 5 == 0 or k in mbset:
                try:
                    with contextlib.redirect_stderr(io.StringIO()):
                        d = loaders.read_neuroml2_file(cut)
                    got = jdump(d)
                    if not (got == ref and k >= end_root):
                        bad.append({"offset": k, "of": len(data), "via": "read_neuroml2_file", "loaded": got[:300],
                                    "inside_multibyte_character": k in mbset})
                except BaseException:  # noqa: BLE001
                    pass
                s = data[:k].decode(errors="ignore")
                body = s[s.index("<neuroml"):] if "<neuroml" in s else None
                if body:
                    try:
                        with contextlib.redirect_stderr(io.StringIO()):
                            d = loaders.read_neuroml2_string(body, base_path=tmp)
                        got = jdump(d)
                        if not (got == ref and k >= end_root):
                            bad.append({"offset": k, "of": len(data), "via": "read_neuroml2_string", "loaded": got[:300]})
                    except BaseException:  # noqa: BLE001
                        pass
        toks, ends = tokens_of(text)
        # token-boundary cuts: (number of model tokens kept, did the real loader reject the byte prefix)
        tb = []
        for ntok, off in ends:
            with open(cut, "wb") as f:
                f.write(data[:off])
            try:
                with contextlib.redirect_stderr(io.StringIO()):
                    loaders.NeuroMLLoader.load(cut)
                tb.append([ntok, False])
            except BaseException:  # noqa: BLE001
                tb.append([ntok, True])
        return {"doc": spec["doc"], "augment": bool(spec.get("augment")), "size": len(data), "end_root": end_root,
                "offsets": len(offs), "rejected": rejected, "equal": equal, "bad": bad[:5], "nbad": len(bad), "tokens": toks,
                "token_cuts": tb, "class_offsets": classes, "multibyte_sizes": mb_sizes}
    finally:
        shutil.rmtree(tmp, ignore_errors=True)


def run_config(specs):
    """plain (unfaulted) runs of operations; what each produced, with list order kept (documents as ordered dumps,
    written XML as text) - compared by the check across interpreter configurations"""
    out = []
    for spec in specs:
        tmp = tempfile.mkdtemp(prefix="c08c_")
        try:
            op = Op(spec, tmp)
            op.prepare()
            INJ.reset(None)
            INJ.active = False
            try:
                with contextlib.redirect_stderr(io.StringIO()):
                    res = op.call()
                op.after_call()
                o = op.output(res)
                if o is None and op.op.startswith("h5_write"):
                    o = jdump(loaders.NeuroMLHdf5Loader.load(op.path("out.nml.h5")))
                out.append({"op": spec["op"], "output": o})
            except BaseException as e:  # noqa: BLE001
                out.append({"op": spec["op"], "output": "<raised %s>" % type(e).__name__})
        finally:
            cleanup_handles()
            shutil.rmtree(tmp, ignore_errors=True)
    return out


def run_repeat(spec):
    """MANY failed reads in one process, then the intact input: it must load, and as in a process that saw no failure"""
    n = spec.get("n", 40)
    tmp = tempfile.mkdtemp(prefix="c08r_")
    res = {"n": n, "cases": []}
    try:
        INJ.active = False
        d = build_doc(spec["doc"])
        incs = spec["doc"].get("includes", [])
        for h in incs:
            inc = build_doc({"id": "inc_" + h.replace(".", "_"), "iaf": 1})
            inc.iaf_cells[0].id = "iaf_" + h.replace(".", "_")
            writers.NeuroMLWriter.write(inc, os.path.join(tmp, h))
        full = os.path.join(tmp, "full.nml")
        writers.NeuroMLWriter.write(d, full)
        data = open(full, "rb").read()
        h5 = os.path.join(tmp, "full.nml.h5")
        writers.NeuroMLHdf5Writer.write(build_doc(dict(spec["doc"], includes=[])), h5)
        not_nml = os.path.join(tmp, "other.h5")
        writers.ArrayMorphWriter.write(make_am(4, "m0"), not_nml)
        dangling = os.path.join(tmp, "dangling.nml")
        dd = build_doc(dict(spec["doc"], includes=["does_not_exist.nml"]))
        writers.NeuroMLWriter.write(dd, dangling)
        text = data.decode()
        body = text[text.index("<neuroml"):]
        cut = os.path.join(tmp, "cut.nml")
        cleanup_handles()

        def attempt(fn):
            try:
                with contextlib.redirect_stderr(io.StringIO()):
                    return ["ok", jdump(fn())]
            except BaseException as e:  # noqa: BLE001
                return ["raised", "%s: %s" % (type(e).__name__, str(e)[:160])]
            finally:
                cleanup_handles()

        def truncated_file(i):
            k = 20 + (i * 37) % max(1, len(data) - 40)
            with open(cut, "wb") as f:
                f.write(data[:k])
            return loaders.read_neuroml2_file(cut, include_includes=True)

        kinds = [
            ("truncated-xml-file", truncated_file, lambda: loaders.read_neuroml2_file(full, include_includes=True)),
            ("truncated-xml-string", lambda i: loaders.read_neuroml2_string(body[:30 + (i * 41) % max(1, len(body) - 60)], base_path=tmp),
             lambda: loaders.read_neuroml2_string(body, include_includes=True, base_path=tmp)),
            ("missing-include", lambda i: loaders.read_neuroml2_file(dangling, include_includes=True),
             lambda: loaders.read_neuroml2_file(full, include_includes=True)),
            ("not-a-neuroml-hdf5-file", lambda i: loaders.NeuroMLHdf5Loader.load(not_nml), lambda: loaders.NeuroMLHdf5Loader.load(h5)),
            ("truncated-xml-file-loader", lambda i: (truncated_file(i) and None) or loaders.NeuroMLLoader.load(cut),
             lambda: loaders.NeuroMLLoader.load(full)),
        ]
        for name, failing, intact in kinds:
            failures = 0
            for i in range(n):
                r = attempt(lambda: failing(i))
                if r[0] == "raised":
                    failures += 1
            after = attempt(intact)
            res["cases"].append({"kind": name, "failed_reads": failures, "after": after})
    finally:
        cleanup_handles()
        shutil.rmtree(tmp, ignore_errors=True)
    return res


def main():
    payload = json.loads(sys.stdin.read() or "{}")
    install()
    out = {"ops": [], "truncate": []}
    if "config_cases" in payload:
        out["config"] = run_config(payload["config_cases"])
    if "repeat" in payload:
        try:
            out["repeat"] = run_repeat(payload["repeat"])
        except Exception:
            out["repeat"] = {"harness_error": traceback.format_exc()[-1500:]}
    for spec in payload.get("ops", []):
        try:
            out["ops"].append(run_op(spec))
        except Exception:  # the harness itself failed on this op
            out["ops"].append({"op": spec.get("op"), "doc": spec.get("doc", {}), "harness_error": traceback.format_exc()[-1500:]})
    for spec in payload.get("truncate", []):
        try:
            out["truncate"].append(run_truncate(spec))
        except Exception:
            out["truncate"].append({"doc": spec.get("doc"), "harness_error": traceback.format_exc()[-1500:]})
    _real_stdout.write(json.dumps(out) + "\n")
    _real_stdout.flush()


if __name__ == "__main__":
    main()
