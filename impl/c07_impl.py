"""C07 implementation driver: runs the REAL libNeuroML (PYTHONPATH = repo under test).

JSON on stdin, ONE JSON document on the last stdout line.  The parent process only imports the package and
forks; every job (pool writing, one fresh call, one history, one schedule, one solo stream) runs in its own forked
child, so "fresh process" really means a process in which no loader / builder call has happened before.
stdout noise of the library (nml.parseString exports the document to stdout) is sent to /dev/null.

payload = {"dir": scratch dir, "pool": [file spec] | null, "jobs": [job]}
 job {"kind": "history", "calls": [call, ...]}                 -> {"results": [result per call]}
 job {"kind": "schedule", "sched": [[who, op], ...]}           -> {"A": dump, "B": dump}
 job {"kind": "solo", "ops": [op, ...]}                        -> {"dump": dump}
 job {"kind": "parser_sched", "fileA":, "fileB":, "orders": [name]} -> captured handler streams replayed
 job {"kind": "parser_solo", "file":}
 job {"kind": "optlist"}                                       -> container-API check of OptimizedList defaults
"""
import json
import os
import signal
import sys
import traceback

REAL_STDOUT = os.dup(1)
_dn = os.open(os.devnull, os.O_WRONLY)
os.dup2(_dn, 1)
os.dup2(_dn, 2)

import inspect  # noqa: E402
import logging  # noqa: E402

import neuroml  # noqa: E402
import neuroml.loaders as loaders  # noqa: E402
import neuroml.writers as writers  # noqa: E402
from neuroml.hdf5.DefaultNetworkHandler import DefaultNetworkHandler  # noqa: E402
from neuroml.hdf5.NetworkBuilder import NetworkBuilder  # noqa: E402
from neuroml.hdf5.NeuroMLHdf5Parser import NeuroMLHdf5Parser  # noqa: E402
from neuroml.hdf5.NeuroMLXMLParser import NeuroMLXMLParser  # noqa: E402
import neuroml.hdf5.NetworkContainer as NC  # noqa: E402

logging.disable(logging.CRITICAL)


# ------------------------------------------------------------------------------------------ pool
def make_component(kind, cid):
    if kind == "iaf_cells":
        return neuroml.IafCell(id=cid, C="1.0 nF", thresh="-50mV", reset="-65mV", leak_conductance="10 nS",
                               leak_reversal="-65mV")
    if kind == "pulse_generators":
        return neuroml.PulseGenerator(id=cid, delay="0ms", duration="10ms", amplitude="1nA")
    if kind == "exp_one_synapses":
        return neuroml.ExpOneSynapse(id=cid, gbase="1nS", erev="0mV", tau_decay="2ms")
    if kind == "izhikevich_cells":
        return neuroml.IzhikevichCell(id=cid, v0="-70mV", thresh="30mV", a="0.02", b="0.2", c="-50", d="2")
    raise ValueError(kind)


def build_network(net):
    n = neuroml.Network(id=net["id"])
    for p in net.get("pops", []):
        pop = neuroml.Population(id=p["id"], component=p["comp"], size=p["size"])
        for tag, val in p.get("props", []):
            pop.properties.append(neuroml.Property(tag=tag, value=val))
        if p.get("instances"):
            pop.type = "populationList"
            for (i, x, y, z) in p["instances"]:
                inst = neuroml.Instance(id=i)
                inst.location = neuroml.Location(x=x, y=y, z=z)
                pop.instances.append(inst)
        n.populations.append(pop)
    for pr in net.get("projs", []):
        proj = neuroml.Projection(id=pr["id"], presynaptic_population=pr["pre"], postsynaptic_population=pr["post"],
                                  synapse=pr["syn"])
        for (cid, a, b) in pr.get("conns", []):
            proj.connections.append(neuroml.Connection(id=cid, pre_cell_id=a, post_cell_id=b))
        for (cid, a, b, w, d) in pr.get("conn_wds", []):
            proj.connection_wds.append(neuroml.ConnectionWD(id=cid, pre_cell_id=a, post_cell_id=b, weight=w,
                                                            delay="%sms" % d))
        n.projections.append(proj)
    for ep in net.get("eprojs", []):
        proj = neuroml.ElectricalProjection(id=ep["id"], presynaptic_population=ep["pre"],
                                            postsynaptic_population=ep["post"])
        for (cid, a, b) in ep.get("conns", []):
            proj.electrical_connections.append(neuroml.ElectricalConnection(
                id=cid, pre_cell=str(a), post_cell=str(b), synapse=ep["syn"]))
        n.electrical_projections.append(proj)
    for il in net.get("ilists", []):
        lst = neuroml.InputList(id=il["id"], component=il["comp"], populations=il["pop"])
        for (i, t) in il.get("inputs", []):
            lst.input.append(neuroml.Input(id=i, target=t, destination="synapses"))
        n.input_lists.append(lst)
    return n


def write_pool(d, pool):
    for f in pool:
        path = os.path.join(d, f["name"])
        os.makedirs(os.path.dirname(path), exist_ok=True)
        if f.get("raw") is not None:
            with open(path, "w") as fh:
                fh.write(f["raw"])
            continue
        if f["kind"] == "rawh5":      # a valid HDF5 file that is not NeuroML
            import tables
            h = tables.open_file(path, mode="w")
            h.create_group("/", "morphology0", "not neuroml")
            h.close()
            continue
        doc = neuroml.NeuroMLDocument(id=f.get("doc_id", "doc_" + f["name"].split(".")[0]))
        for inc in f.get("includes", []):
            doc.includes.append(neuroml.IncludeType(href=inc))
        for kind, cid in f.get("items", []):
            getattr(doc, kind).append(make_component(kind, cid))
        if f.get("annotation"):
            doc.annotation = neuroml.Annotation()
        if f.get("net"):
            doc.networks.append(build_network(f["net"]))
        if f["kind"] == "h5":
            writers.NeuroMLHdf5Writer.write(doc, path)
        else:
            writers.NeuroMLWriter.write(doc, path)
    return {"written": len(pool)}


# ------------------------------------------------------------------------------------- doc dumps
def num(x):
    if x is None:
        return None
    try:
        f = float(x)
    except (TypeError, ValueError):
        return str(x)
    return int(f) if f == int(f) else round(f, 6)


def doc_types(doc):
    out = []
    for name, val in inspect.getmembers(doc):
        if isinstance(val, list) and not name.endswith("_") and name != "includes":
            for e in val:
                out.append("%s:%s:%s" % (name, getattr(e, "id", "?"), type(e).__name__))
    return sorted(out)


def doc_defs(doc):
    """the attribute values of every top-level component (id, type, simple attributes): two documents that hold a component with
    the same id and class but another definition differ here"""
    out = []
    for name, val in inspect.getmembers(doc):
        if isinstance(val, list) and not name.endswith("_") and name not in ("includes", "networks"):
            for e in val:
                at = sorted("%s=%s" % (k, v) for k, v in vars(e).items()
                            if isinstance(v, (str, int, float)) and not k.endswith("_") and k != "id")
                out.append("%s:%s:%s{%s}" % (name, getattr(e, "id", "?"), type(e).__name__, ",".join(at)))
    return sorted(out)


def doc_items(doc):
    items, incs = [], []
    for name, val in inspect.getmembers(doc):
        if isinstance(val, list) and not name.endswith("_"):
            for e in val:
                if name == "includes":
                    incs.append(str(getattr(e, "href", "?")))
                else:
                    items.append("%s:%s" % (name, getattr(e, "id", "?")))
    return sorted(items), incs


def net_dump(doc):
    out = []
    for n in doc.networks:
        pops = []
        for p in n.populations:
            insts = []
            for i in p.instances:
                insts.append([num(i.id), num(i.location.x), num(i.location.y), num(i.location.z)])
            e = [p.id, p.component, num(p.size), p.type, insts, sorted([str(q.tag), str(q.value)] for q in p.properties)]
            if hasattr(p.instances, "indices"):
                e.append({"indices": sorted([k, int(v)] for k, v in p.instances.indices.items())})
            pops.append(e)
        projs = []
        for pr in n.projections:
            cs = [[num(c.id), c.pre_cell_id, c.post_cell_id] for c in pr.connections]
            wds = [[num(c.id), c.pre_cell_id, c.post_cell_id, num(c.weight), c.delay] for c in pr.connection_wds]
            e = [pr.id, pr.presynaptic_population, pr.postsynaptic_population, pr.synapse, cs, wds]
            for lst in (pr.connections, pr.connection_wds):
                if hasattr(lst, "indices"):
                    e.append({"indices": sorted([k, int(v)] for k, v in lst.indices.items())})
            projs.append(e)
        eps = []
        for ep in n.electrical_projections:
            eps.append([ep.id, ep.presynaptic_population, ep.postsynaptic_population,
                        [[num(c.id), c.pre_cell, c.post_cell, c.synapse] for c in ep.electrical_connections],
                        [[num(c.id), c.pre_cell, c.post_cell, c.synapse] for c in ep.electrical_connection_instances],
                        [[num(c.id), c.pre_cell, c.post_cell, c.synapse, num(c.weight)]
                         for c in ep.electrical_connection_instance_ws]])
        ils = []
        for il in n.input_lists:
            e = [il.id, il.component, il.populations,
                 [[num(i.id), i.target] for i in il.input],
                 [[num(i.id), i.target, num(i.weight)] for i in getattr(il, "input_ws", [])]]
            if hasattr(il.input, "indices"):
                e.append({"indices": sorted([k, int(v)] for k, v in il.input.indices.items())})
            ils.append(e)
        out.append({"id": n.id, "pops": pops, "projs": projs, "eprojs": eps, "ilists": ils})
    return out


def use_doc(doc):
    """what a user may do with a returned (optimized) document: append one element to each list and iterate it"""
    for n in doc.networks:
        for p in n.populations:
            if len(p.instances) == 0:
                inst = neuroml.Instance(id=0)
                inst.location = neuroml.Location(x=1, y=2, z=3)
                p.instances.append(inst)
            for _ in p.instances:
                pass
        for pr in n.projections:
            lst = pr.connection_wds
            lst.append(neuroml.Connection(id=0, pre_cell_id="../a/0/c", post_cell_id="../b/0/c"))
            for _ in lst:
                pass


# ------------------------------------------------------------------------ class metadata invariant
import neuroml.nml.nml as _nml  # noqa: E402

_BINDING_CLASSES = [(n, c) for n, c in sorted(vars(_nml).items())
                    if isinstance(c, type) and isinstance(vars(c).get("member_data_items_"), (list, dict))]


_ALL_CLASSES = [(n, c) for n, c in sorted(vars(_nml).items()) if isinstance(c, type)]


def meta_snapshot():
    """(length, identity) of every class's own member_data_items_ and of every memo entry kept on the class objects"""
    snap = {}
    for n, c in _BINDING_CLASSES:
        m = vars(c).get("member_data_items_")
        snap[n + ".member_data_items_"] = [len(m), id(m)]
        for k, v in vars(c).items():
            if k.startswith("validate_") and k.endswith("_patterns_") and isinstance(v, list):
                snap[n + "." + k] = [len(v), id(v)]
    memo = {}
    for n, c in _ALL_CLASSES:      # `cls.__all_members_ = {}` lands on whichever class called _get_members first
        for k, v in vars(c).items():
            if k.endswith("__all_members_") and isinstance(v, dict):
                for key, val in v.items():
                    memo["%s.%s[%s]" % (n, k, key)] = [len(val), id(val)]
    return snap, memo


def meta_diff(before, after):
    out = []
    (s0, m0), (s1, m1) = before, after
    for k in s0:
        if s1.get(k) != s0[k]:
            out.append({"what": k, "before_len": s0[k][0], "after_len": (s1.get(k) or [None])[0],
                        "same_object": (s1.get(k) or [None, None])[1] == s0[k][1]})
    for k in m0:      # a memo entry, once set, never changes (new keys may appear)
        if k not in m1 or m1[k] != m0[k]:
            out.append({"what": "memo " + k, "before_len": m0[k][0], "after_len": (m1.get(k) or [None])[0],
                        "same_object": (m1.get(k) or [None, None])[1] == m0[k][1]})
    return out[:6]


class OldApiHandler(object):
    def __init__(self):
        self.calls = []

    def _rec(name):
        def f(self, *a, **kw):
            self.calls.append(name)
        return f

    handleNetwork = _rec("handleNetwork")
    handleDocumentStart = _rec("handleDocumentStart")
    handleLocation = _rec("handleLocation")
    handleProjection = _rec("handleProjection")
    finaliseProjection = _rec("finaliseProjection")
    handleConnection = _rec("handleConnection")
    handleInputList = _rec("handleInputList")
    handleSingleInput = _rec("handleSingleInput")
    finaliseInputSource = _rec("finaliseInputSource")

    def handlePopulation(self, population_id, component, size=-1, component_obj=None, properties={}):
        self.calls.append("handlePopulation")


class NoPropsHandler(DefaultNetworkHandler):
    def __init__(self):
        self.calls = []

    def handle_population(self, population_id, component, size=-1, component_obj=None):
        self.calls.append("handle_population:" + str(population_id))


# ------------------------------------------------------------------------ process-state invariant
import locale as _locale  # noqa: E402
import warnings as _warnings  # noqa: E402


def module_switches():
    """the simple (bool / int / float / str / None) module-level variables of every loaded neuroml module: process-wide switches
    and counters such as neuroml.build_time_validation.ENABLED"""
    out = {}
    for name, mod in sorted(sys.modules.items()):
        if mod is None or not (name == "neuroml" or name.startswith("neuroml.")) or name.startswith("neuroml.test"):
            continue
        for k, v in vars(mod).items():
            if not k.startswith("__") and (v is None or isinstance(v, (bool, int, float, str))):
                out["%s.%s" % (name, k)] = repr(v)[:80]
    return out


def proc_snapshot():
    root = logging.getLogger()
    return {"module-variables": module_switches(), "cwd": os.getcwd(), "environ": dict(os.environ), "sys.path": list(sys.path),
            "warnings-filters": [repr(f) for f in _warnings.filters], "recursionlimit": sys.getrecursionlimit(),
            "locale": list(_locale.getlocale()), "logging": [root.level, len(root.handlers), logging.root.manager.disable]}


IGNORE_ALL = repr(("ignore", None, Warning, None, 0))


def proc_diff(b, a, failed):
    out = []
    for k in b:
        if a[k] == b[k]:
            continue
        e = {"what": k, "after_failure": bool(failed)}
        if k == "warnings-filters":
            if not a[k] and b[k]:
                e["how"] = "emptied"          # warnings.resetwarnings(): every installed filter (the user's too) is gone
            elif a[k] == [IGNORE_ALL] + b[k] and failed:
                e["how"] = "ignore-left"      # simplefilter("ignore") not undone on the exception path
            else:
                e["how"] = "other"
            e["before"], e["after"] = b[k][:3], a[k][:3]
            e["before_len"], e["after_len"] = len(b[k]), len(a[k])
        elif k == "module-variables":
            names = sorted(x for x in set(b[k]) | set(a[k]) if b[k].get(x) != a[k].get(x))
            e["names"] = names[:6]
            e["before"] = [b[k].get(x) for x in names[:6]]
            e["after"] = [a[k].get(x) for x in names[:6]]
        elif k == "environ":
            e["before"] = sorted(set(b[k].items()) - set(a[k].items()))[:5]
            e["after"] = sorted(set(a[k].items()) - set(b[k].items()))[:5]
        elif k == "sys.path":
            e["before"] = [x for x in b[k] if x not in a[k]][:5]
            e["after"] = [x for x in a[k] if x not in b[k]][:5]
        else:
            e["before"], e["after"] = b[k], a[k]
        out.append(e)
    return out


def run_call_checked(d, c):
    before = meta_snapshot()
    pb = proc_snapshot()
    res = run_call(d, c)
    pd = proc_diff(pb, proc_snapshot(), not res.get("ok"))
    if pd:
        res["process_state_changed"] = pd
    ch = meta_diff(before, meta_snapshot())
    if ch:
        res["class_metadata_changed"] = ch
    return res


def warnings_probe(d, good, broken, swc):
    """does a LATER loader call behave differently because an earlier load destroyed the user's warnings configuration?
    The user asks for warnings as errors; SWCLoader.load_swc_single announces its deprecation with a FutureWarning."""
    def swc_load():
        try:
            m = loaders.SWCLoader.load_swc_single(os.path.join(d, swc))
            return "returned a morphology with %d vertices" % len(m.vertices)
        except BaseException as e:
            return "raised " + type(e).__name__

    def fresh():
        _warnings.simplefilter("error")
        return {"swc": swc_load()}

    def after_load():
        _warnings.simplefilter("error")
        n0 = len(_warnings.filters)
        loaders.read_neuroml2_file(os.path.join(d, good))
        return {"filters_before": n0, "filters_after": len(_warnings.filters), "swc": swc_load()}

    def after_failed():
        _warnings.simplefilter("error")
        try:
            loaders.read_neuroml2_string(open(os.path.join(d, broken)).read())
            err = None
        except BaseException as e:
            err = type(e).__name__
        return {"failed_with": err, "first_filter": _warnings.filters[0][0] if _warnings.filters else None, "swc": swc_load()}

    return {"fresh": in_child(fresh), "after_load": in_child(after_load), "after_failed_load": in_child(after_failed)}



LAST_DOCS = {}      # the document(s) the last successful call returned (kept alive by run_history)


def strip_indices(nets):
    out = json.loads(json.dumps(nets))
    for n in out:
        for lst in (n["pops"], n["projs"], n["ilists"]):
            for e in lst:
                while e and isinstance(e[-1], dict) and "indices" in e[-1]:
                    e.pop()
    return out


def content_dump(docs):
    out = {}
    for k, doc in docs.items():
        items, incs = doc_items(doc)
        out[k] = {"items": items, "includes": incs, "defs": doc_defs(doc), "nets": strip_indices(net_dump(doc))}
    return out


def run_history(d, calls):
    """the calls of one history, in one process.  Every returned document is kept; after the last call each one must still be
    what it was when it was returned (a later load must not change the result of an earlier one)"""
    results, kept = [], []
    for i, c in enumerate(calls):
        LAST_DOCS.clear()
        r = run_call_checked(d, c)
        results.append(r)
        if r.get("ok") and LAST_DOCS:
            docs = dict(LAST_DOCS)
            try:
                kept.append((i, docs, content_dump(docs)))
            except BaseException:
                pass
    LAST_DOCS.clear()
    for i, docs, base in kept[:-1]:
        try:
            now = content_dump(docs)
        except BaseException as e:
            now = {"error": type(e).__name__}
        if now != base:
            diff = {}
            for k in base:
                for part in base[k]:
                    if now.get(k, {}).get(part) != base[k][part]:
                        diff["%s.%s" % (k, part)] = {"at_return": base[k][part], "after_later_calls": now.get(k, {}).get(part)}
            results[i]["changed_by_later_calls"] = diff or {"error": now}
    return {"results": results}


def ordered_members(doc):
    """every member list of the document IN ITS ORDER (ids, hrefs for includes)"""
    out = {}
    for name, val in inspect.getmembers(doc):
        if isinstance(val, list) and not name.endswith("_") and val:
            out[name] = [str(getattr(e, "id", None) if getattr(e, "id", None) is not None else getattr(e, "href", "?")) for e in val]
    return out


def ordered_call(d, c):
    LAST_DOCS.clear()
    r = run_call(d, c)
    out = {"ok": bool(r.get("ok")), "err": r.get("err"), "order": {k: ordered_members(doc) for k, doc in LAST_DOCS.items()}}
    for k, doc in LAST_DOCS.items():
        out.setdefault("nets", {})[k] = strip_indices(net_dump(doc))
    return out


def run_call(d, c):
    if c.get("cwd"):     # the working directory is part of the input of a relative-path call: set here, restored on every path
        old = os.getcwd()
        os.chdir(os.path.join(d, c["cwd"]))
        try:
            return run_call_at(d, c)
        finally:
            os.chdir(old)
    return run_call_at(d, c)


def run_call_at(d, c):
    path = c["name"] if c.get("rel") else os.path.join(d, c["name"])
    base = None if c.get("base") == "none" else d
    ai = c.get("ai")
    kw = {}
    if ai is not None:
        kw["already_included"] = [os.path.join(d, a) for a in ai]
    ep = c["ep"]
    res = {"ok": True}
    try:
        handler_doc = None
        if ep == "file":
            doc = loaders.read_neuroml2_file(path, include_includes=c["incl"], optimized=bool(c.get("opt")), **kw)
        elif ep == "string":
            doc = loaders.read_neuroml2_string(open(path).read(), include_includes=c["incl"], base_path=base, **kw)
        elif ep == "inner_path":
            doc = loaders._read_neuroml2(path, include_includes=c["incl"], **kw)
        elif ep == "inner_str":
            doc = loaders._read_neuroml2(open(path).read(), include_includes=c["incl"], base_path=base, **kw)
        elif ep == "h5":
            doc = loaders.NeuroMLHdf5Loader.load(path, optimized=bool(c.get("opt")))
        elif ep == "xml":
            doc = loaders.NeuroMLLoader.load(path)
        elif ep == "xmlparser":
            nb = NetworkBuilder()
            pa = NeuroMLXMLParser(nb)
            pa.parse(path)
            doc = pa.nml_doc
            handler_doc = nb.get_nml_doc()
        elif ep == "xmlparser_oldapi":      # a handler that only implements the old camelCase API
            h = OldApiHandler()
            pa = NeuroMLXMLParser(h)
            pa.parse(path)
            doc = pa.nml_doc
            res["handler_calls"] = h.calls
        elif ep == "h5_noprops":            # a handler whose handle_population has no `properties` parameter
            h = NoPropsHandler()
            pa = NeuroMLHdf5Parser(h)
            pa.parse(path)
            return {"ok": True, "items": [], "includes": [], "meta": [], "types": [], "nets": [], "handler_calls": h.calls}
        else:
            raise ValueError("unknown entry point " + ep)
        res["items"], res["includes"] = doc_items(doc)
        res["meta"] = [s(getattr(doc, "id", None)), s(getattr(doc, "notes", None))]
        res["types"] = doc_types(doc)
        res["defs"] = doc_defs(doc)
        res["nets"] = net_dump(doc)
        if handler_doc is not None:
            hi, _ = doc_items(handler_doc)
            res["handler"] = {"items": hi, "nets": net_dump(handler_doc), "defs": doc_defs(handler_doc)}
    except BaseException as e:  # SystemExit from read_neuroml2_file included
        return {"ok": False, "err": type(e).__name__, "msg": str(e)[:200]}
    if c.get("use"):
        try:
            use_doc(doc)
        except BaseException as e:
            res["use_error"] = type(e).__name__
    LAST_DOCS["document"] = doc
    if handler_doc is not None:
        LAST_DOCS["handler_document"] = handler_doc
    return res


# ------------------------------------------------------------------------------- builder schedules
class ObjPool(object):
    """the objects a caller hands to handlers as component_obj / synapse_obj / pre_synapse_obj / input_comp_obj.  One pool per
    job: in a schedule BOTH builders get the identical Python objects, in a solo run (fresh fork) they are freshly built."""

    def __init__(self):
        self.objs = {}
        self.writes = []

    def get(self, ref):
        if ref not in self.objs:
            kind, cid = ref.split(":", 1)
            self.objs[ref] = neuroml.SilentSynapse(id=cid) if kind == "silent" else make_component(kind, cid)
        return self.objs[ref]


def _val(v):
    if v is None or isinstance(v, (str, int, float, bool)):
        return repr(v)
    if isinstance(v, (list, tuple, dict, set)):
        return "%s(len %d)" % (type(v).__name__, len(v))
    return "%s@%x" % (type(v).__name__, id(v))


def obj_state(o):
    return {k: _val(v) for k, v in vars(o).items()}


def call_with_objs(pool, who, handler, fn, objs):
    """run one handler call; every object passed as an argument must have the same vars() afterwards"""
    before = {p: obj_state(o) for p, o in objs.items()}
    try:
        fn()
    finally:
        for p, o in objs.items():
            after = obj_state(o)
            for k in sorted(set(before[p]) | set(after)):
                if before[p].get(k) != after.get(k):
                    pool.writes.append({"builder": who, "handler": handler, "param": p, "attr": k,
                                        "change": "added" if k not in before[p] else "removed" if k not in after else "changed",
                                        "before": before[p].get(k), "after": after.get(k)})


def apply_op(nb, op, pool=None, who=None):
    k = op[0]
    refs = op[-1] if isinstance(op[-1], dict) else {}
    if refs:
        op = op[:-1]
        if pool is None:
            pool = ObjPool()
        objs = {p: pool.get(r) for p, r in refs.items()}
        if k == "pop":
            call_with_objs(pool, who, "handle_population",
                           lambda: nb.handle_population(op[1], op[2], op[3], component_obj=objs.get("component_obj")), objs)
        elif k == "proj":
            call_with_objs(pool, who, "handle_projection",
                           lambda: nb.handle_projection(op[1], op[2], op[3], op[4], hasWeights=op[6], hasDelays=op[7], type=op[5],
                                                        synapse_obj=objs.get("synapse_obj"),
                                                        pre_synapse_obj=objs.get("pre_synapse_obj")), objs)
        elif k == "il":
            call_with_objs(pool, who, "handle_input_list",
                           lambda: nb.handle_input_list(op[1], op[2], op[3], 1, input_comp_obj=objs.get("input_comp_obj")), objs)
        else:
            raise ValueError("object arguments on op " + k)
        return
    if k == "doc":
        nb.handle_document_start(op[1], None)
    elif k == "net":
        nb.handle_network(op[1], None)
    elif k == "pop":
        nb.handle_population(op[1], op[2], op[3])
    elif k == "loc":
        if op[3] is None:
            nb.handle_location(op[1], op[2], "comp", None, None, None)
        else:
            nb.handle_location(op[1], op[2], "comp", op[3], op[4], op[5])
    elif k == "proj":
        pre = neuroml.SilentSynapse(id=op[8]) if len(op) > 8 and op[8] is not None else None
        nb.handle_projection(op[1], op[2], op[3], op[4], hasWeights=op[6], hasDelays=op[7], type=op[5], pre_synapse_obj=pre)
    elif k == "conn":
        nb.handle_connection(op[1], op[2], op[3], op[4], None, op[5], op[6], delay=op[7], weight=op[8])
    elif k == "il":
        nb.handle_input_list(op[1], op[2], op[3], 1)
    elif k == "inp":
        nb.handle_single_input(op[1], op[2], op[3], weight=op[4])
    elif k == "fin":
        nb.finalise_projection(op[1], op[2], op[3], synapse=op[4], type=op[5])
    else:
        raise ValueError(k)


def s(x):
    return "" if x is None else str(x)


def dump_builder(nb):
    doc = getattr(nb, "nml_doc", None)
    if doc is None:
        return [["nodoc", [], []]]
    out = [["doc", [s(doc.id)], []]]
    for ss in doc.silent_synapses:
        out.append(["silentSynapse", [s(ss.id)], []])
    for n in doc.networks:
        out.append(["network", [s(n.id)], []])
        for p in n.populations:
            out.append(["population", [s(p.id), s(p.component), s(p.type)], [num(p.size)]])
            for i in p.instances:
                out.append(["instance", [], [num(i.id), num(i.location.x), num(i.location.y), num(i.location.z)]])
        for pr in n.projections:
            out.append(["projection", [s(pr.id), s(pr.presynaptic_population), s(pr.postsynaptic_population), s(pr.synapse)], []])
            for c in pr.connections:
                out.append(["connection", [s(c.pre_cell_id), s(c.post_cell_id)], [num(c.id)]])
            for c in pr.connection_wds:
                out.append(["connectionWD", [s(c.pre_cell_id), s(c.post_cell_id), s(c.delay)], [num(c.id), num(c.weight)]])
        for ep in n.electrical_projections:
            out.append(["electricalProjection", [s(ep.id), s(ep.presynaptic_population), s(ep.postsynaptic_population), ""], []])
            for c in ep.electrical_connections:
                out.append(["electricalConnection", [s(c.pre_cell), s(c.post_cell), s(c.synapse)], [num(c.id)]])
            for c in ep.electrical_connection_instances:
                out.append(["electricalConnectionInstance", [s(c.pre_cell), s(c.post_cell), s(c.synapse)], [num(c.id)]])
            for c in ep.electrical_connection_instance_ws:
                out.append(["electricalConnectionInstanceW", [s(c.pre_cell), s(c.post_cell), s(c.synapse)],
                            [num(c.id), num(c.weight)]])
        for cp in n.continuous_projections:
            out.append(["continuousProjection", [s(cp.id), s(cp.presynaptic_population), s(cp.postsynaptic_population), ""], []])
            for c in cp.continuous_connections:
                out.append(["continuousConnection", [s(c.pre_cell), s(c.post_cell), s(c.pre_component), s(c.post_component)],
                            [num(c.id)]])
            for c in cp.continuous_connection_instances:
                out.append(["continuousConnectionInstance",
                            [s(c.pre_cell), s(c.post_cell), s(c.pre_component), s(c.post_component)], [num(c.id)]])
            for c in cp.continuous_connection_instance_ws:
                out.append(["continuousConnectionInstanceW",
                            [s(c.pre_cell), s(c.post_cell), s(c.pre_component), s(c.post_component)],
                            [num(c.id), num(c.weight)]])
        for il in n.input_lists:
            out.append(["inputList", [s(il.id), s(il.component), s(il.populations)], []])
            for i in il.input:
                out.append(["input", [s(i.target)], [num(i.id)]])
            for i in il.input_ws:
                out.append(["inputW", [s(i.target)], [num(i.id), num(i.weight)]])
    return out


def builder_components(nb):
    """the top-level components of the builder's document, with their definitions"""
    doc = getattr(nb, "nml_doc", None)
    return [] if doc is None else doc_defs(doc)


def run_sched(sched):
    b = {"A": NetworkBuilder(), "B": NetworkBuilder()}
    raised = {"A": [], "B": []}
    pool = ObjPool()          # ONE pool: the same objects go to both builders
    for who, op in sched:
        try:
            apply_op(b[who], op, pool, who)
            raised[who].append(False)
        except Exception:
            raised[who].append(True)
    out = {w: {"dump": dump_builder(b[w]), "raised": raised[w], "components": builder_components(b[w])} for w in ("A", "B")}
    if pool.writes:
        out["argument_writes"] = pool.writes
    return out


def run_solo(ops):
    nb = NetworkBuilder()
    raised = []
    pool = ObjPool()
    for op in ops:
        try:
            apply_op(nb, op, pool, "solo")
            raised.append(False)
        except Exception:
            raised.append(True)
    out = {"dump": dump_builder(nb), "raised": raised, "components": builder_components(nb)}
    if pool.writes:
        out["argument_writes"] = pool.writes
    return out


# -------------------------------------------------------------- parser-driven streams (recorded, replayed)
HANDLERS = ["handle_document_start", "handle_network", "handle_population", "handle_location", "handle_projection",
            "handle_connection", "finalise_projection", "handle_input_list", "handle_single_input", "finalise_input_source"]


class Recorder(DefaultNetworkHandler):
    """records the handler calls a real parser makes; it is NOT a NetworkBuilder, so recording touches none of
    the builder's state"""

    def __init__(self):
        self.calls = []

    def handle_population(self, population_id, component, size=-1, component_obj=None, properties={}, notes=None):
        self.calls.append(("handle_population", (population_id, component, size),
                           {"component_obj": component_obj, "properties": dict(properties)}))


def _mk(name):
    def rec(self, *a, **kw):
        self.calls.append((name, a, kw))
    return rec


for _h in HANDLERS:
    if _h != "handle_population":
        setattr(Recorder, _h, _mk(_h))


def capture(path):
    r = Recorder()
    if path.endswith(".h5"):
        NeuroMLHdf5Parser(r).parse(path)
    else:
        NeuroMLXMLParser(r).parse(path)
    return r.calls


def replay(nb, call):
    name, a, kw = call
    getattr(nb, name)(*a, **kw)


def interleave(la, lb, order):
    """order: 'alt' | 'ab' | 'ba' | 'binside' | list of 0/1"""
    a = [("A", c) for c in la]
    b = [("B", c) for c in lb]
    if order == "ab":
        return a + b
    if order == "ba":
        return b + a
    if order == "binside":
        h = len(a) // 2
        return a[:h] + b + a[h:]
    if order == "alt":
        out = []
        for i in range(max(len(a), len(b))):
            out += a[i:i + 1] + b[i:i + 1]
        return out
    out, ia, ib = [], 0, 0
    for bit in order:
        if bit == 0 and ia < len(a):
            out.append(a[ia])
            ia += 1
        elif ib < len(b):
            out.append(b[ib])
            ib += 1
        elif ia < len(a):
            out.append(a[ia])
            ia += 1
    return out + a[ia:] + b[ib:]


def parser_sched(d, fa, fb, order):
    la = capture(os.path.join(d, fa))
    lb = capture(os.path.join(d, fb))
    b = {"A": NetworkBuilder(), "B": NetworkBuilder()}
    raised = {"A": 0, "B": 0}
    for who, c in interleave(la, lb, order):
        try:
            replay(b[who], c)
        except Exception:
            raised[who] += 1
    return {w: {"dump": dump_builder(b[w]), "raised": raised[w], "calls": len(la if w == "A" else lb)} for w in ("A", "B")}


def parser_solo(d, f):
    la = capture(os.path.join(d, f))
    nb = NetworkBuilder()
    raised = 0
    for c in la:
        try:
            replay(nb, c)
        except Exception:
            raised += 1
    return {"dump": dump_builder(nb), "raised": raised, "calls": len(la)}


# ------------------------------------------------------------------------------- OptimizedList defaults
def optlist():
    """two default-constructed lists must not influence each other"""
    a = NC.ConnectionList()
    b = NC.InstanceList()
    a.append(neuroml.Connection(id=0, pre_cell_id="../p/0/c", post_cell_id="../q/0/c"))
    list(a)
    fresh_b_indices = sorted(b.indices.items())
    inst = neuroml.Instance(id=0)
    inst.location = neuroml.Location(x=1, y=2, z=3)
    b.append(inst)
    try:
        got = [[num(i.id), num(i.location.x), num(i.location.y), num(i.location.z)] for i in b]
        err = None
    except BaseException as e:
        got, err = None, type(e).__name__
    c = NC.InputsList()
    return {"second_list_indices_before_use": [[k, int(v)] for k, v in fresh_b_indices], "same_object": a.indices is b.indices,
            "iterate_second": got, "iterate_error": err, "third_list_indices": sorted([k, int(v)] for k, v in c.indices.items())}


# ---------------------------------------------------------------------------------------- forking
JOB_DIR = None


def in_child(fn, timeout=120):
    r, w = os.pipe()
    pid = os.fork()
    if pid == 0:
        os.close(r)
        try:
            signal.alarm(timeout)
            if JOB_DIR:
                os.chdir(JOB_DIR)     # every job starts in the pool directory: relative paths mean the same in every run
            try:
                out = {"ok": True, "value": fn()}
            except BaseException as e:
                out = {"ok": False, "error": "%s: %s" % (type(e).__name__, e), "tb": traceback.format_exc()[-1500:]}
            with os.fdopen(w, "w") as fh:
                fh.write(json.dumps(out, default=str))
        finally:
            os._exit(0)
    os.close(w)
    with os.fdopen(r) as fh:
        data = fh.read()
    os.waitpid(pid, 0)
    if not data:
        return {"ok": False, "error": "child died or timed out"}
    return json.loads(data)


def main():
    global JOB_DIR
    payload = json.loads(sys.stdin.read())
    d = payload.get("dir")
    JOB_DIR = d
    out = {"jobs": []}
    if payload.get("pool"):
        out["pool"] = in_child(lambda: write_pool(d, payload["pool"]))
    for job in payload.get("jobs", []):
        k = job["kind"]
        if k == "history":
            r = in_child(lambda: run_history(d, job["calls"]))
        elif k == "schedule":
            r = in_child(lambda: run_sched(job["sched"]))
        elif k == "solo":
            r = in_child(lambda: run_solo(job["ops"]))
        elif k == "parser_sched":
            r = in_child(lambda: parser_sched(d, job["fileA"], job["fileB"], job["order"]))
        elif k == "parser_solo":
            r = in_child(lambda: parser_solo(d, job["file"]))
        elif k == "ordered":       # every call in its own fresh fork of THIS interpreter (hash seed / flags of the process)
            r = {"ok": True, "value": [in_child(lambda c=c: ordered_call(d, c)) for c in job["calls"]],
                 "hashseed": os.environ.get("PYTHONHASHSEED"), "optimize": sys.flags.optimize}
        elif k == "optlist":
            r = in_child(optlist)
        elif k == "warnings_probe":
            r = {"ok": True, "value": warnings_probe(d, job["good"], job["broken"], job["swc"])}
        else:
            r = {"ok": False, "error": "unknown job kind " + k}
        out["jobs"].append(r)
    os.write(REAL_STDOUT, (json.dumps(out) + "\n").encode())


if __name__ == "__main__":
    main()
