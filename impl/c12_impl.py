"""C12: run the REAL libNeuroML geometry code (PYTHONPATH = repo under test).

stdin : {"seg":  [[8 hex floats px py pz pd dx dy dz dd], ...],
         "cell": [{"chain": [{"prox": [4 hex]|null, "dist": [4 hex], "fract": hex}, ...],   # head = the queried segment,
                   "ids": [int,...], "order": [int,...], "extra": int}, ...]}                # then its ancestors
stdout (last line): {"seg": [[length, volume, surface_area, distance_to], ...],
                     "cell": [[actual_proximal(4 hex)|"EXC:..", length, surface_area, volume], ...]}
each value a hex float or "EXC:<exception class>".
"""
import json
import sys

import neuroml


def fh(s):
    return float.fromhex(s)


def out(f):
    try:
        v = f()
    except RecursionError:
        return "EXC:RecursionError"
    except Exception as e:  # noqa: BLE001 - the exception class is the observation
        return "EXC:" + type(e).__name__
    if isinstance(v, float):
        return v.hex()
    if isinstance(v, int) and not isinstance(v, bool):
        return float(v).hex()
    return "EXC:not-a-float:" + type(v).__name__


def point(c):
    return neuroml.Point3DWithDiam(x=fh(c[0]), y=fh(c[1]), z=fh(c[2]), diameter=fh(c[3]))


def do_seg(c):
    p, d = point(c[0:4]), point(c[4:8])
    s = neuroml.Segment(id=0, proximal=p, distal=d)
    return [out(lambda: s.length), out(lambda: s.volume), out(lambda: s.surface_area), out(lambda: p.distance_to(d))]


def do_cell(c):
    chain, ids = c["chain"], c["ids"]
    segs = []
    for i, sg in enumerate(chain):
        kw = {"id": ids[i], "distal": point(sg["dist"])}
        if sg["prox"] is not None:
            kw["proximal"] = point(sg["prox"])
        if i + 1 < len(chain):
            kw["parent"] = neuroml.SegmentParent(segments=ids[i + 1], fraction_along=fh(sg["fract"]))
        segs.append(neuroml.Segment(**kw))
    # unrelated segments, to make get_segment search
    base = max(ids) + 1
    for k in range(c.get("extra", 0)):
        segs.append(neuroml.Segment(id=base + k, proximal=neuroml.Point3DWithDiam(x=k, y=1, z=2, diameter=1),
                                    distal=neuroml.Point3DWithDiam(x=k, y=2, z=2, diameter=1)))
    order = c.get("order") or list(range(len(segs)))
    segs = [segs[i] for i in order if i < len(segs)] + [s for i, s in enumerate(segs) if i not in order]
    cell = neuroml.Cell(id="c", morphology=neuroml.Morphology(id="m", segments=segs))
    sid = ids[0]
    try:
        ap = cell.get_actual_proximal(sid)
        a = [float(ap.x).hex(), float(ap.y).hex(), float(ap.z).hex(), float(ap.diameter).hex()]
    except RecursionError:
        a = "EXC:RecursionError"
    except Exception as e:  # noqa: BLE001
        a = "EXC:" + type(e).__name__
    return [a, out(lambda: cell.get_segment_length(sid)), out(lambda: cell.get_segment_surface_area(sid)),
            out(lambda: cell.get_segment_volume(sid))]


def main():
    req = json.loads(sys.stdin.read() or "{}")
    res = {"seg": [do_seg(c) for c in req.get("seg", [])], "cell": [do_cell(c) for c in req.get("cell", [])]}
    print(json.dumps(res))


if __name__ == "__main__":
    main()
