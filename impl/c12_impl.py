"""C12: run the REAL libNeuroML geometry code (PYTHONPATH = repo under test).

stdin : {"seg":  [[8 hex floats px py pz pd dx dy dz dd], ...],
         "cell": [{"chain": [{"prox": [4 hex]|null, "dist": [4 hex], "fract": hex}, ...],   # head = the queried segment,
                   "ids": [int,...], "order": [int,...], "extra": int}, ...],                # then its ancestors
         "hist": [{"cell": <as above>, "steps": [{"op": translate|scale|set_fract|move_distal|move_proximal|set_diameter|
                   replace_distal|replace_proximal|drop_proximal|reparent|swap_ends|requery, ...}]}],   # applied IN PLACE
         "seghist": [{"coords": [8 hex], "steps": [{"end": "p"|"d", "attr": x|y|z|diameter, "v": hex}]}]}
  hist -> per history, per state (initial, after each step): {"same": answers of the same Cell object for every id,
          "fresh": answers of a freshly built Cell with the same current data, "chains": the current data}
stdout (last line): {"seg": [[length, volume, surface_area, distance_to], ...],
                     "cell": [[actual_proximal(4 hex)|"EXC:..", length, surface_area, volume], ...]}
each value a hex float or "EXC:<exception class>".
"""
import json
import sys

import neuroml


def fh(s):
    return float.fromhex(s)


def out_(f):
    try:
        v = f()
    except RecursionError:
        return "EXC:RecursionError"
    except Exception as e:  # noqa: BLE001 - the exception class is the observation
        return "EXC:" + type(e).__name__
    if isinstance(v, float):
        return v.hex()
    if isinstance(v, int) and not isinstance(v, bool):
        return float(v).hex()
    return "EXC:not-a-float:" + type(v).__name__


def point(c):
    return neuroml.Point3DWithDiam(x=fh(c[0]), y=fh(c[1]), z=fh(c[2]), diameter=fh(c[3]))


def do_seg(c):
    p, d = point(c[0:4]), point(c[4:8])
    s = neuroml.Segment(id=0, proximal=p, distal=d)
    return [out_(lambda: s.length), out_(lambda: s.volume), out_(lambda: s.surface_area), out_(lambda: p.distance_to(d))]


def build_cell(c):
    chain, ids = c["chain"], c["ids"]
    segs = []
    for i, sg in enumerate(chain):
        kw = {"id": ids[i], "distal": point(sg["dist"])}
        if sg["prox"] is not None:
            kw["proximal"] = point(sg["prox"])
        if i + 1 < len(chain):
            kw["parent"] = neuroml.SegmentParent(segments=ids[i + 1], fraction_along=fh(sg["fract"]))
        segs.append(neuroml.Segment(**kw))
    # unrelated segments, to make get_segment search
    base = max(ids) + 1
    for k in range(c.get("extra", 0)):
        segs.append(neuroml.Segment(id=base + k, proximal=neuroml.Point3DWithDiam(x=k, y=1, z=2, diameter=1),
                                    distal=neuroml.Point3DWithDiam(x=k, y=2, z=2, diameter=1)))
    order = c.get("order") or list(range(len(segs)))
    segs = [segs[i] for i in order if i < len(segs)] + [s for i, s in enumerate(segs) if i not in order]
    return neuroml.Cell(id="c", morphology=neuroml.Morphology(id="m", segments=segs))


def query(cell, sid):
    try:
        ap = cell.get_actual_proximal(sid)
        a = [float(ap.x).hex(), float(ap.y).hex(), float(ap.z).hex(), float(ap.diameter).hex()]
    except RecursionError:
        a = "EXC:RecursionError"
    except Exception as e:  # noqa: BLE001
        a = "EXC:" + type(e).__name__
    return [a, out_(lambda: cell.get_segment_length(sid)), out_(lambda: cell.get_segment_surface_area(sid)),
            out_(lambda: cell.get_segment_volume(sid))]


def do_cell(c):
    return query(build_cell(c), c["ids"][0])


# ------------------------------------------------------------------ histories: query -> modify the SAME object in place -> query
def pt_hex(p):
    return None if p is None else [float(p.x).hex(), float(p.y).hex(), float(p.z).hex(), float(p.diameter).hex()]


def seg_by_id(cell, sid):
    for s in cell.morphology.segments:   # read the raw data, not through the library's lookup helpers
        if s.id == sid:
            return s
    return None


def chain_of(cell, sid):
    """the current data of segment sid and its ancestors, read straight off the attributes"""
    out, seen = [], set()
    while sid is not None and sid not in seen:
        seen.add(sid)
        s = seg_by_id(cell, sid)
        if s is None:
            break
        par = s.parent
        out.append({"prox": pt_hex(s.proximal), "dist": pt_hex(s.distal),
                    "fract": float(par.fraction_along).hex() if par is not None else (0.0).hex()})
        sid = par.segments if par is not None else None
    return out


def rebuild(cell):
    """a fresh Cell (new Segment / Point / SegmentParent objects) with the same current data"""
    segs = []
    for s in cell.morphology.segments:
        kw = {"id": s.id, "distal": neuroml.Point3DWithDiam(x=s.distal.x, y=s.distal.y, z=s.distal.z, diameter=s.distal.diameter)}
        if s.proximal is not None:
            kw["proximal"] = neuroml.Point3DWithDiam(x=s.proximal.x, y=s.proximal.y, z=s.proximal.z, diameter=s.proximal.diameter)
        if s.parent is not None:
            kw["parent"] = neuroml.SegmentParent(segments=s.parent.segments, fraction_along=s.parent.fraction_along)
        segs.append(neuroml.Segment(**kw))
    return neuroml.Cell(id="c", morphology=neuroml.Morphology(id="m", segments=segs))


def all_points(cell):
    for s in cell.morphology.segments:
        if s.proximal is not None:
            yield s.proximal
        yield s.distal


def apply_step(cell, st):
    op = st["op"]
    if op == "translate":
        t = [fh(v) for v in st["t"]]
        for p in all_points(cell):
            p.x, p.y, p.z = p.x + t[0], p.y + t[1], p.z + t[2]
    elif op == "scale":
        k = fh(st["k"])
        for p in all_points(cell):
            p.x, p.y, p.z, p.diameter = p.x * k, p.y * k, p.z * k, p.diameter * k
    elif op == "set_fract":
        seg_by_id(cell, st["seg"]).parent.fraction_along = fh(st["f"])
    elif op == "move_distal":
        p = seg_by_id(cell, st["seg"]).distal
        d = [fh(v) for v in st["d"]]
        p.x, p.y, p.z = p.x + d[0], p.y + d[1], p.z + d[2]
    elif op == "move_proximal":
        p = seg_by_id(cell, st["seg"]).proximal
        if p is not None:   # an earlier step may have dropped it: then nothing to move
            d = [fh(v) for v in st["d"]]
            p.x, p.y, p.z = p.x + d[0], p.y + d[1], p.z + d[2]
    elif op == "set_diameter":
        seg_by_id(cell, st["seg"]).distal.diameter = fh(st["v"])
    elif op == "replace_distal":
        seg_by_id(cell, st["seg"]).distal = point(st["pt"])
    elif op == "replace_proximal":
        seg_by_id(cell, st["seg"]).proximal = point(st["pt"])
    elif op == "drop_proximal":
        seg_by_id(cell, st["seg"]).proximal = None
    elif op == "reparent":
        seg_by_id(cell, st["seg"]).parent = neuroml.SegmentParent(segments=st["to"], fraction_along=fh(st["f"]))
    elif op == "swap_ends":
        s = seg_by_id(cell, st["seg"])
        if s.proximal is not None:
            s.proximal, s.distal = s.distal, s.proximal
    elif op == "requery":
        pass
    else:
        raise ValueError(op)


def do_hist(h):
    cell = build_cell(h["cell"])
    ids = h["cell"]["ids"]
    out = []
    for st in [{"op": "initial"}] + h["steps"]:
        if st["op"] != "initial":
            apply_step(cell, st)
        same = [query(cell, sid) for sid in ids]
        fresh_cell = rebuild(cell)
        fresh = [query(fresh_cell, sid) for sid in ids]
        out.append({"same": same, "fresh": fresh, "chains": [chain_of(cell, sid) for sid in ids]})
    return out


def do_seghist(h):
    """the Segment properties on one object: query, edit a coordinate / diameter in place, query again"""
    c = h["coords"]
    p, d = point(c[0:4]), point(c[4:8])
    s = neuroml.Segment(id=0, proximal=p, distal=d)
    out = []
    for st in [None] + h["steps"]:
        if st is not None:
            tgt = p if st["end"] == "p" else d
            setattr(tgt, st["attr"], fh(st["v"]))
        fresh = neuroml.Segment(id=0, proximal=neuroml.Point3DWithDiam(x=p.x, y=p.y, z=p.z, diameter=p.diameter),
                                distal=neuroml.Point3DWithDiam(x=d.x, y=d.y, z=d.z, diameter=d.diameter))
        out.append({"same": [out_(lambda: s.length), out_(lambda: s.volume), out_(lambda: s.surface_area), out_(lambda: p.distance_to(d))],
                    "fresh": [out_(lambda: fresh.length), out_(lambda: fresh.volume), out_(lambda: fresh.surface_area),
                              out_(lambda: fresh.proximal.distance_to(fresh.distal))],
                    "coords": pt_hex(p) + pt_hex(d)})
    return out


def main():
    req = json.loads(sys.stdin.read() or "{}")
    res = {"seg": [do_seg(c) for c in req.get("seg", [])], "cell": [do_cell(c) for c in req.get("cell", [])],
           "hist": [do_hist(h) for h in req.get("hist", [])], "seghist": [do_seghist(h) for h in req.get("seghist", [])]}
    print(json.dumps(res))


if __name__ == "__main__":
    main()
