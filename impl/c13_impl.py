"""C13 implementation runner: builds neuroml.Cell objects from the JSON cases on stdin and calls the REAL
morphology helper methods (neuroml/nml/nml.py class Cell) on them.  One JSON document on the last stdout line.

case = {"segs": [[id, parent|null, fraction|null, prox|null, dist]],      points = [x, y, z, diam] floats
        "groups": [[gid, [member ids], [included gids]]], "group": gid,
        "pairs": [[src, dst]], "srcs": [src], "ats": [[distance, src]]}
Numbers go back as exact ratios [num, den] (float.as_integer_ratio), exceptions as {"err": name}.
"""
import contextlib
import io
import json
import sys

import neuroml
from neuroml import Cell, Include, Member, Morphology, Point3DWithDiam, Segment, SegmentGroup, SegmentParent

ERR = {"ValueError": "EValue", "AttributeError": "EAttr", "KeyError": "EKey", "NodeNotFound": "ENodeNotFound",
       "NetworkXNoPath": "ENoPath", "AssertionError": "EAssert", "RecursionError": "ERecursion",
       "ZeroDivisionError": "EZeroDiv"}


def point(p):
    return Point3DWithDiam(x=p[0], y=p[1], z=p[2], diameter=p[3])


def build_cell(case):
    m = Morphology(id="m")
    for (i, par, fr, prox, dist) in case["segs"]:
        s = Segment(id=i, name="s%d" % i)
        if par is not None:
            s.parent = SegmentParent(segments=par, fraction_along=fr)
        if prox is not None:
            s.proximal = point(prox)
        s.distal = point(dist)
        m.segments.append(s)
    for g in case.get("groups", []):
        gid, mem, inc = g[0], g[1], g[2]
        sg = SegmentGroup(id=gid)
        if len(g) > 3 and g[3]:
            sg.neuro_lex_id = g[3]
        if len(g) > 4 and g[4]:
            sg.notes = g[4]
        for x in mem:
            sg.members.append(Member(segments=x))
        for x in inc:
            sg.includes.append(Include(segment_groups=x))
        m.segment_groups.append(sg)
    return Cell(id="c", morphology=m)


def q(x):
    if isinstance(x, bool):
        raise TypeError("bool where a number was expected")
    a, b = x.as_integer_ratio()
    return [a, b]


def qpt(p):
    return [q(float(p.x)), q(float(p.y)), q(float(p.z)), q(float(p.diameter))]


def guarded(f):
    try:
        with contextlib.redirect_stdout(io.StringIO()):
            return {"ok": f()}
    except BaseException as e:  # noqa: BLE001 - every exception class is an observable outcome
        if isinstance(e, (KeyboardInterrupt, SystemExit)):
            raise
        n = type(e).__name__
        return {"err": ERR.get(n, "EOther:" + n), "msg": str(e)[:200]}


QUERY_NAMES = ("get_actual_proximal", "get_segment_length", "get_segment_adjacency_list", "get_graph",
               "get_morphology_root", "get_branching_points", "get_extremeties", "get_distance",
               "get_all_distances_from_segment", "get_segments_at_distance", "get_ordered_segments_in_groups")


def run_query(c, name):
    """one call of the named query method with some valid arguments (result discarded; exceptions swallowed)"""
    segs = c.morphology.segments
    last = segs[-1].id

    def f():
        if name == "get_actual_proximal":
            return c.get_actual_proximal(last)
        if name == "get_segment_length":
            return c.get_segment_length(last)
        if name == "get_distance":
            return c.get_distance(last, source=c.get_morphology_root())
        if name == "get_all_distances_from_segment":
            return c.get_all_distances_from_segment(c.get_morphology_root())
        if name == "get_segments_at_distance":
            return c.get_segments_at_distance(1.0, src_seg=c.get_morphology_root())
        if name == "get_ordered_segments_in_groups":
            gs = [g.id for g in c.morphology.segment_groups][:1]
            return c.get_ordered_segments_in_groups(gs, include_cumulative_lengths=True, include_path_lengths=True)
        return getattr(c, name)()
    return guarded(f)


def snapshot_rows(c):
    """the cell's segments as they are now: [id, parent|None, fraction|None, prox|None, dist] with exact ratios"""
    rows = []
    for s in c.morphology.segments:
        rows.append([s.id, None if s.parent is None else s.parent.segments,
                     None if s.parent is None else q(float(s.parent.fraction_along)),
                     None if s.proximal is None else qpt(s.proximal), qpt(s.distal)])
    return rows


def cached_adjacency(c):
    a = getattr(c, "adjacency_list", None)
    return None if a is None else [[k, list(v)] for k, v in a.items()]


def apply_history(c, steps):
    """things a user does with the SAME Cell object before the measured calls"""
    for st in steps:
        kind = st[0]
        if kind == "query":
            run_query(c, st[1])
        elif kind == "all_queries":
            for nme in QUERY_NAMES:
                run_query(c, nme)
        elif kind == "section":
            guarded(lambda: c.create_unbranched_segment_group_branches(st[1], reorder_segment_groups=st[2],
                                                                      optimise_segment_groups=st[3]))
        elif kind == "remove_segment":
            # edit in place, then refresh the caches the documented way
            c.morphology.segments[:] = [s for s in c.morphology.segments if s.id != st[1]]
            guarded(lambda: c.get_segment_adjacency_list())
            guarded(lambda: c.get_graph())
        elif kind == "replace_segments":
            # in-place edit that keeps the number of segments: each listed segment OBJECT is replaced by a fresh object
            # with the same id / parent / proximal (st[1] = [[id, new distal | None]]); with refresh=True the documented
            # caches are then recomputed
            for sid, dist in st[1]:
                for k, old in enumerate(c.morphology.segments):
                    if old.id == sid:
                        new = Segment(id=old.id, name=old.name)
                        if old.parent is not None:
                            new.parent = SegmentParent(segments=old.parent.segments, fraction_along=old.parent.fraction_along)
                        if old.proximal is not None:
                            new.proximal = point([old.proximal.x, old.proximal.y, old.proximal.z, old.proximal.diameter])
                        d = dist if dist is not None else [old.distal.x, old.distal.y, old.distal.z, old.distal.diameter]
                        new.distal = point(d)
                        c.morphology.segments[k] = new
                        break
            if len(st) > 2 and st[2]:
                guarded(lambda: c.get_segment_adjacency_list())
                guarded(lambda: c.get_graph())
        elif kind == "lookups":
            # calls that look segments up by id
            for sg in list(c.morphology.segments):
                guarded(lambda sg=sg: c.get_segment(sg.id))
            guarded(lambda: c.get_segment_ids_vs_segments())
            guarded(lambda: c.get_segment_length(c.morphology.segments[-1].id))
            guarded(lambda: c.morphinfo(True))
        else:
            raise ValueError("unknown history step %r" % (st,))


def run_case(case):
    c = build_cell(case)
    out = {}
    if case.get("history"):
        apply_history(c, case["history"])
        out["snapshot"] = snapshot_rows(c)
        out["adj_cached"] = cached_adjacency(c)
    sids = [s.id for s in c.morphology.segments]
    if case.get("only_aprox") is not None:
        # a single deep query (recursion-depth witness): nothing else is computed
        out["aprox"] = [[i, guarded(lambda i=i: qpt(c.get_actual_proximal(i)))] for i in case["only_aprox"]]
        return out
    if case.get("graph_first"):
        # graph-based queries BEFORE the adjacency list is recomputed
        guarded(lambda: c.get_graph())
    out["aprox"] = [[i, guarded(lambda i=i: qpt(c.get_actual_proximal(i)))] for i in sids]
    out["lens"] = [[i, guarded(lambda i=i: q(float(c.get_segment_length(i))))] for i in sids]
    if not case.get("graph_first"):
        out["adj"] = guarded(lambda: [[k, list(v)] for k, v in c.get_segment_adjacency_list().items()])

    def graph():
        g = c.get_graph()
        return {"nodes": list(g.nodes), "edges": [[a, b, q(float(d["weight"]))] for a, b, d in g.edges(data=True)]}
    out["graph"] = guarded(graph)
    out["root"] = guarded(lambda: c.get_morphology_root())
    out["bp"] = guarded(lambda: list(c.get_branching_points()))
    out["tips"] = guarded(lambda: [[k, q(float(v))] for k, v in c.get_extremeties().items()])
    out["pairs"] = [[s, d, guarded(lambda s=s, d=d: q(float(c.get_distance(d, source=s))))] for s, d in case.get("pairs", [])]

    def alld(src):
        dist, paths = c.get_all_distances_from_segment(src)
        return [[k, q(float(v)), list(paths[k])] for k, v in dist.items()]
    out["all"] = [[s, guarded(lambda s=s: alld(s))] for s in case.get("srcs", [])]
    out["ats"] = [[d, s, guarded(lambda d=d, s=s: [[k, q(float(v))] for k, v in c.get_segments_at_distance(d, src_seg=s).items()])]
                  for d, s in case.get("ats", [])]
    if case.get("default_calls"):
        # the documented defaults (source / seg_id / src_seg = 0)
        out["default_dist"] = [[d, guarded(lambda d=d: q(float(c.get_distance(d))))] for d in sids]
        out["default_all"] = guarded(lambda: [[k, q(float(v))] for k, v in c.get_all_distances_from_segment()[0].items()])

    if case.get("graph_first"):
        out["adj"] = guarded(lambda: [[k, list(v)] for k, v in c.get_segment_adjacency_list().items()])
    gid = case.get("group")
    if gid is not None:
        def both():
            o, cum, pp, pd = c.get_ordered_segments_in_groups([gid], include_cumulative_lengths=True,
                                                              include_path_lengths=True)
            return {"ord": {k: [s.id for s in v] for k, v in o.items()},
                    "cum": {k: [q(float(x)) for x in v] for k, v in cum.items()},
                    "pp": {k: [[i, q(float(x))] for i, x in v.items()] for k, v in pp.items()},
                    "pd": {k: [[i, q(float(x))] for i, x in v.items()] for k, v in pd.items()}}
        out["ord_both"] = guarded(both)

        def only_cum():
            o, cum = c.get_ordered_segments_in_groups(gid, include_cumulative_lengths=True)
            return {"ord": {k: [s.id for s in v] for k, v in o.items()},
                    "cum": {k: [q(float(x)) for x in v] for k, v in cum.items()}}
        out["ord_cum"] = guarded(only_cum)

        def only_path():
            o, pp, pd = c.get_ordered_segments_in_groups([gid], include_path_lengths=True)
            return {"ord": {k: [s.id for s in v] for k, v in o.items()},
                    "pp": {k: [[i, q(float(x))] for i, x in v.items()] for k, v in pp.items()},
                    "pd": {k: [[i, q(float(x))] for i, x in v.items()] for k, v in pd.items()}}
        out["ord_path"] = guarded(only_path)
        out["ord_plain"] = guarded(lambda: {k: [s.id for s in v] for k, v in c.get_ordered_segments_in_groups([gid]).items()})
        out["resolved"] = guarded(lambda: list(c.get_all_segments_in_group(gid)))
    # the selection given in other forms: a str, a one-element tuple, a tuple of several ids
    def form(sel):
        o, cum, pp, pd = c.get_ordered_segments_in_groups(sel, include_cumulative_lengths=True, include_path_lengths=True)
        return [[k, [s.id for s in o[k]], [q(float(x)) for x in cum[k]], [[i, q(float(x))] for i, x in pp[k].items()],
                 [[i, q(float(x))] for i, x in pd[k].items()]] for k in o.keys()]
    forms = []
    if gid is not None:
        forms += [["list-of-one", guarded(lambda: form([gid]))], ["str", guarded(lambda: form(gid))],
                  ["tuple-of-one", guarded(lambda: form((gid,)))]]
    for sel in case.get("multi", [])[:1]:
        forms += [["list", guarded(lambda sel=sel: form(list(sel)))], ["tuple", guarded(lambda sel=sel: form(tuple(sel)))]]
    out["ord_forms"] = forms
    # several groups in one call (a list of selections; each selection is a list of group ids)
    def multi(sel):
        o, cum, pp, pd = c.get_ordered_segments_in_groups(list(sel), include_cumulative_lengths=True, include_path_lengths=True)
        return [[k, [s.id for s in o[k]], [q(float(x)) for x in cum[k]], [[i, q(float(x))] for i, x in pp[k].items()],
                 [[i, q(float(x))] for i, x in pd[k].items()]] for k in o.keys()]
    out["ord_multi"] = [[sel, guarded(lambda sel=sel: multi(sel))] for sel in case.get("multi", [])]

    def multi_cum_only(sel):
        o, cum = c.get_ordered_segments_in_groups(list(sel), include_cumulative_lengths=True)
        return [[k, [s.id for s in o[k]], [q(float(x)) for x in cum[k]]] for k in o.keys()]
    out["ord_multi_cum"] = [[sel, guarded(lambda sel=sel: multi_cum_only(sel))] for sel in case.get("multi", [])]
    return out


def self_writes():
    """for every method of class Cell in the bindings under test: the attributes of `self` it assigns, deletes or sets
    through setattr / vars(self) / self.__dict__ (python ast of neuroml/nml/nml.py; fail closed: an unrecognised way of
    writing through `self` is reported as the attribute "?")"""
    import ast
    import neuroml.nml.nml as m
    tree = ast.parse(open(m.__file__).read())
    cell = [n for n in tree.body if isinstance(n, ast.ClassDef) and n.name == "Cell"]
    if len(cell) != 1:
        raise RuntimeError("class Cell not found exactly once")
    table = []
    for f in cell[0].body:
        if not isinstance(f, ast.FunctionDef) or not f.args.args:
            continue
        me = f.args.args[0].arg
        ws = set()

        def is_self(n):
            return isinstance(n, ast.Name) and n.id == me

        def target(t):
            if isinstance(t, ast.Attribute) and is_self(t.value):
                ws.add(t.attr)
            elif isinstance(t, (ast.Tuple, ast.List)):
                for e in t.elts:
                    target(e)
            elif isinstance(t, ast.Subscript):
                v = t.value
                if (isinstance(v, ast.Attribute) and is_self(v.value) and v.attr == "__dict__") or \
                        (isinstance(v, ast.Call) and isinstance(v.func, ast.Name) and v.func.id == "vars" and v.args and is_self(v.args[0])):
                    ws.add(t.slice.value if isinstance(t.slice, ast.Constant) and isinstance(t.slice.value, str) else "?")
            elif isinstance(t, ast.Starred):
                target(t.value)
        for n in ast.walk(f):
            if isinstance(n, ast.Assign):
                for t in n.targets:
                    target(t)
            elif isinstance(n, (ast.AugAssign, ast.AnnAssign)):
                target(n.target)
            elif isinstance(n, ast.Delete):
                for t in n.targets:
                    target(t)
            elif isinstance(n, (ast.For, ast.AsyncFor)):
                target(n.target)
            elif isinstance(n, ast.NamedExpr):
                target(n.target)
            elif isinstance(n, ast.withitem) and n.optional_vars is not None:
                target(n.optional_vars)
            elif isinstance(n, ast.Call) and isinstance(n.func, ast.Name) and n.func.id in ("setattr", "delattr") and n.args and is_self(n.args[0]):
                a = n.args[1] if len(n.args) > 1 else None
                ws.add(a.value if isinstance(a, ast.Constant) and isinstance(a.value, str) else "?")
            elif isinstance(n, ast.Call) and isinstance(n.func, ast.Attribute) and n.func.attr in ("update", "setdefault", "pop", "clear", "__setitem__", "__setattr__"):
                v = n.func.value
                if (isinstance(v, ast.Attribute) and is_self(v.value) and v.attr == "__dict__") or is_self(v) or \
                        (isinstance(v, ast.Call) and isinstance(v.func, ast.Name) and v.func.id == "vars" and v.args and is_self(v.args[0])):
                    ws.add("?")
        table.append([f.name, sorted(ws)])
    # class-level attributes of Cell bound to a mutable container (shared by all cells of the process)
    shared = []
    for n in cell[0].body:
        tg, val = None, None
        if isinstance(n, ast.Assign):
            tg, val = n.targets, n.value
        elif isinstance(n, ast.AnnAssign) and n.value is not None:
            tg, val = [n.target], n.value
        if tg is None:
            continue
        mutable = isinstance(val, (ast.List, ast.Dict, ast.Set, ast.ListComp, ast.DictComp, ast.SetComp)) or \
            (isinstance(val, ast.Call) and isinstance(val.func, ast.Name) and
             val.func.id in ("list", "dict", "set", "bytearray", "defaultdict", "OrderedDict", "deque", "Counter"))
        if mutable:
            for t in tg:
                shared.append(t.id if isinstance(t, ast.Name) else "?")
    table.append(["<class-level mutable attributes>", sorted(shared)])
    return table


def main():
    payload = json.load(sys.stdin)
    if payload.get("mode") == "self_writes":
        sys.stdout.write("\n" + json.dumps({"writes": self_writes()}) + "\n")
        return
    if payload.get("recursion_limit"):
        sys.setrecursionlimit(int(payload["recursion_limit"]))
    res = [run_case(case) for case in payload["cases"]]
    sys.stdout.write("\n" + json.dumps({"results": res}) + "\n")


if __name__ == "__main__":
    main()
