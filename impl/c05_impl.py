"""C05 implementation side: runs the REAL libNeuroML (the tree first on PYTHONPATH).

  * build_doc(spec)            JSON description -> neuroml.NeuroMLDocument (real classes, real constructors)
  * sem_doc(doc)               harness-side semantic projection of a document (own path parsing, own delay parsing,
                               never the library's accessors)  -> JSON-able
  * roundtrip(spec, mode)      NeuroMLHdf5Writer.write into a private temp dir, NeuroMLHdf5Loader.load back
  * compare(before, after)     the property predicate: sem(after) == sem32(before)   (float32 tolerance on table cells)

stdin: {"cases": [{"spec":..., "modes": ["plain","optimized"]}, ...]}   stdout (last line): {"results": [...]}
"""
import contextlib
import io
import json
import logging
import math
import os
import shutil
import sys
import tempfile
import warnings

import numpy

F32 = numpy.float32


# ----------------------------------------------------------------------------- semantic projection (own code)
def cell_of(path):
    """cell index of a cell reference; both forms  ../pop/3/comp  and  ../pop[3]  (and a bare '3')"""
    p = str(path)
    if "[" in p:
        return int(p[p.index("[") + 1:p.index("]")])
    parts = p.split("/")
    if len(parts) >= 3:
        return int(parts[2])
    return int(float(p))


def delay_ms(s):
    """physical value of a delay in ms"""
    s = str(s).strip()
    for unit, k in (("ms", 1.0), ("us", 1e-3), ("s", 1e3)):
        if s.endswith(unit):
            return float(s[: -len(unit)].strip()) * k
    return float(s)


def _num(x, d):
    return d if x is None else x


def sem_conn(c):
    """chemical connection (Connection / ConnectionWD) -> row"""
    w = float(c.weight) if getattr(c, "weight", None) is not None else 1.0
    d = delay_ms(c.delay) if getattr(c, "delay", None) is not None else 0.0
    return [cell_of(c.pre_cell_id), cell_of(c.post_cell_id), int(_num(c.pre_segment_id, 0)), int(_num(c.post_segment_id, 0)),
            float(_num(c.pre_fraction_along, 0.5)), float(_num(c.post_fraction_along, 0.5)), w, d]


def sem_econn(c):
    """electrical / continuous connection -> row (id first)"""
    w = float(c.weight) if getattr(c, "weight", None) is not None else 1.0
    return [int(c.id), cell_of(c.pre_cell), cell_of(c.post_cell), int(_num(c.pre_segment, 0)), int(_num(c.post_segment, 0)),
            float(_num(c.pre_fraction_along, 0.5)), float(_num(c.post_fraction_along, 0.5)), w]


def sem_input(i):
    w = float(i.weight) if getattr(i, "weight", None) is not None else 1.0
    seg = int(i.segment_id) if i.segment_id not in (None, "") else 0
    fr = float(i.fraction_along) if i.fraction_along not in (None, "") else 0.5
    return [int(i.id), cell_of(i.target), seg, fr, w]


def spart(rows, widx):
    """canonical order of rows that live in several element lists: unit-weight rows first, order otherwise kept"""
    return [r for r in rows if r[widx] == 1.0] + [r for r in rows if r[widx] != 1.0]


def xml_of(obj):
    sf = io.StringIO()
    obj.export(sf, 0, name_="c", pretty_print=False)
    return sf.getvalue()


def sem_network(n):
    out = {"notes": n.notes, "temperature": n.temperature, "pops": {}, "proj": {}, "elec": {}, "cont": {}, "il": {}}
    for p in n.populations:
        locs = [[float(i.location.x), float(i.location.y), float(i.location.z)] for i in p.instances]
        size = len(locs) if locs else (int(p.size) if p.size is not None else None)
        out["pops"][p.id] = {"component": p.component, "size": size, "locs": locs, "inst_ids": [int(i.id) for i in p.instances],
                             "props": dict((q.tag, q.value) for q in p.properties)}
    for p in n.projections:
        rows = [sem_conn(c) for c in p.connections] + [sem_conn(c) for c in p.connection_wds]
        out["proj"][p.id] = {"pre": p.presynaptic_population, "post": p.postsynaptic_population, "synapse": p.synapse, "rows": rows}
    for p in n.electrical_projections:
        cs = list(p.electrical_connections) + list(p.electrical_connection_instances) + list(p.electrical_connection_instance_ws)
        out["elec"][p.id] = {"pre": p.presynaptic_population, "post": p.postsynaptic_population,
                             "rows": spart([sem_econn(c) for c in cs], 7), "syn": [c.synapse for c in spart_objs(cs)]}
    for p in n.continuous_projections:
        cs = list(p.continuous_connections) + list(p.continuous_connection_instances) + list(p.continuous_connection_instance_ws)
        out["cont"][p.id] = {"pre": p.presynaptic_population, "post": p.postsynaptic_population,
                             "rows": spart([sem_econn(c) for c in cs], 7),
                             "syn": [[c.pre_component, c.post_component] for c in spart_objs(cs)]}
    for l in n.input_lists:
        cs = list(l.input) + list(l.input_ws)
        out["il"][l.id] = {"component": l.component, "population": l.populations, "rows": spart([sem_input(i) for i in cs], 4)}
    return out


def spart_objs(cs):
    def w(c):
        return float(c.weight) if getattr(c, "weight", None) is not None else 1.0
    return [c for c in cs if w(c) == 1.0] + [c for c in cs if w(c) != 1.0]


def container_members(obj):
    """names of all list-valued members, own and inherited (document level <property> comes from Standalone)"""
    seen, out = set(), []
    for cls in type(obj).__mro__:
        for m in getattr(cls, "member_data_items_", None) or []:
            nm = m.get_name()
            if m.get_container() and nm not in seen and isinstance(getattr(obj, nm, None), list):
                seen.add(nm)
                out.append(nm)
    return out


def referenced_ids(doc):
    """ids of top-level components the networks refer to (the loader appends those first, so their position inside
    their member list may change; everything else must keep its order)"""
    ids = set()
    for n in doc.networks:
        for p in n.populations:
            ids.add(p.component)
        for p in n.projections:
            ids.add(p.synapse)
        for p in n.electrical_projections:
            for c in list(p.electrical_connections) + list(p.electrical_connection_instances) + list(p.electrical_connection_instance_ws):
                ids.add(c.synapse)
        for p in n.continuous_projections:
            for c in list(p.continuous_connections) + list(p.continuous_connection_instances) + list(p.continuous_connection_instance_ws):
                ids.add(c.pre_component)
                ids.add(c.post_component)
        for l in n.input_lists:
            ids.add(l.component)
    ids.discard(None)
    return ids


def sem_doc(doc):
    """top: per member list, the exported XML of every entry -- 'all' as a sorted multiset, 'order' as the sequence of the
    entries the networks do not refer to"""
    ref = referenced_ids(doc)
    top = {}
    for nm in container_members(doc):
        if nm in ("networks", "includes"):
            continue
        entries = getattr(doc, nm)
        if not entries:
            continue
        xs = [(getattr(e, "id", None), xml_of(e)) for e in entries]
        top[nm] = {"count": len(xs), "all": sorted(x for _, x in xs), "order": [x for i, x in xs if i is None or i not in ref]}
    return {"id": doc.id, "notes": doc.notes, "top": top,
            "annotation": xml_of(doc.annotation) if doc.annotation is not None else None,
            "networks": dict((n.id, sem_network(n)) for n in doc.networks), "n_networks": len(doc.networks)}


# ----------------------------------------------------------------------------- float32 view of the expectation
def r32(x):
    return float(F32(x))


def r32i(x):
    return int(F32(x))


def sem32(s):
    """what the format is allowed to keep of sem(before): table cells rounded to float32"""
    s = json.loads(json.dumps(s))
    for n in s["networks"].values():
        for p in n["pops"].values():
            p["locs"] = [[r32(v) for v in l] for l in p["locs"]]
        for p in n["proj"].values():
            p["rows"] = [[r32i(r[0]), r32i(r[1]), r32i(r[2]), r32i(r[3]), r32(r[4]), r32(r[5]), r32(r[6]), r32(r[7])] for r in p["rows"]]
        for k in ("elec", "cont"):
            for p in n[k].values():
                rows = [[r32i(r[0]), r32i(r[1]), r32i(r[2]), r32i(r[3]), r32i(r[4]), r32(r[5]), r32(r[6]), r32(r[7])] for r in p["rows"]]
                syn = p["syn"]
                # canonical order is taken after rounding (a weight that rounds to 1 is a unit weight)
                pairs = list(zip(rows, syn))
                pairs = [x for x in pairs if x[0][7] == 1.0] + [x for x in pairs if x[0][7] != 1.0]
                p["rows"] = [x[0] for x in pairs]
                p["syn"] = [x[1] for x in pairs]
        for p in n["il"].values():
            p["rows"] = spart([[r32i(r[0]), r32i(r[1]), r32i(r[2]), r32(r[3]), r32(r[4])] for r in p["rows"]], 4)
    return s


def close(a, b):
    if isinstance(a, float) or isinstance(b, float):
        if a == b:
            return True
        return abs(a - b) <= 1.2e-7 * max(abs(a), abs(b)) + 1e-30
    return a == b


def diff(exp, got, path=""):
    """first differences between two JSON-able values (floats with one float32 ulp of tolerance)"""
    out = []
    if isinstance(exp, dict) and isinstance(got, dict):
        for k in sorted(set(exp) | set(got)):
            if k not in exp:
                out.append([path + "/" + str(k), None, "unexpected: " + json.dumps(got[k])[:200]])
            elif k not in got:
                out.append([path + "/" + str(k), json.dumps(exp[k])[:200], "missing"])
            else:
                out += diff(exp[k], got[k], path + "/" + str(k))
    elif isinstance(exp, list) and isinstance(got, list):
        if len(exp) != len(got):
            out.append([path + "#len", len(exp), len(got)])
        for i, (x, y) in enumerate(zip(exp, got)):
            out += diff(x, y, path + "[%d]" % i)
    else:
        if not close(exp, got):
            out.append([path, exp, got])
    return out[:12]


# ----------------------------------------------------------------------------- building documents from specs
def build_doc(spec):
    import neuroml

    doc = neuroml.NeuroMLDocument(id=spec["id"], notes=spec.get("notes"))
    if spec.get("annotation"):
        doc.annotation = neuroml.Annotation()
    for t, v in spec.get("properties", []):
        doc.properties.append(neuroml.Property(tag=t, value=v))
    for comp in spec.get("components", []):
        cls = getattr(neuroml, comp["cls"])
        obj = cls(**comp["args"])
        for sub in comp.get("children", []):
            getattr(obj, sub["member"]).append(getattr(neuroml, sub["cls"])(**sub["args"]))
        getattr(doc, comp["member"]).append(obj)
    for inc in spec.get("includes", []):
        doc.includes.append(neuroml.IncludeType(href=inc))
    for ns in spec.get("networks", []):
        net = neuroml.Network(id=ns["id"], notes=ns.get("notes"), temperature=ns.get("temperature"), type=ns.get("type"))
        doc.networks.append(net)
        for ps in ns.get("populations", []):
            pop = neuroml.Population(id=ps["id"], component=ps["component"], size=ps.get("size"), type=ps.get("type"))
            for iid, x, y, z in ps.get("instances", []):
                inst = neuroml.Instance(id=iid)
                inst.location = neuroml.Location(x=x, y=y, z=z)
                pop.instances.append(inst)
            for t, v in ps.get("properties", []):
                pop.properties.append(neuroml.Property(tag=t, value=v))
            if ps.get("notes"):
                pop.notes = ps["notes"]
            if ps.get("layout"):
                pop.layout = neuroml.Layout(spaces=ps["layout"])
            net.populations.append(pop)
        for js in ns.get("projections", []):
            pr = neuroml.Projection(id=js["id"], presynaptic_population=js["pre"], postsynaptic_population=js["post"], synapse=js["synapse"])
            for c in js["conns"]:
                kw = dict(id=c["id"], pre_cell_id=c["pre"], post_cell_id=c["post"])
                for k in ("pre_segment_id", "post_segment_id", "pre_fraction_along", "post_fraction_along"):
                    if c.get(k) is not None:
                        kw[k] = c[k]
                if c["v"] == "C":
                    pr.connections.append(neuroml.Connection(**kw))
                else:
                    pr.connection_wds.append(neuroml.ConnectionWD(weight=c["weight"], delay=c["delay"], **kw))
            net.projections.append(pr)
        for js in ns.get("electrical", []):
            pr = neuroml.ElectricalProjection(id=js["id"], presynaptic_population=js["pre"], postsynaptic_population=js["post"])
            for c in js["conns"]:
                kw = dict(id=c["id"], pre_cell=c["pre"], post_cell=c["post"], synapse=c["synapse"])
                for k in ("pre_segment", "post_segment", "pre_fraction_along", "post_fraction_along"):
                    if c.get(k) is not None:
                        kw[k] = c[k]
                if c["v"] == "E":
                    pr.electrical_connections.append(neuroml.ElectricalConnection(**kw))
                elif c["v"] == "EI":
                    pr.electrical_connection_instances.append(neuroml.ElectricalConnectionInstance(**kw))
                else:
                    pr.electrical_connection_instance_ws.append(neuroml.ElectricalConnectionInstanceW(weight=c["weight"], **kw))
            net.electrical_projections.append(pr)
        for js in ns.get("continuous", []):
            pr = neuroml.ContinuousProjection(id=js["id"], presynaptic_population=js["pre"], postsynaptic_population=js["post"])
            for c in js["conns"]:
                kw = dict(id=c["id"], pre_cell=c["pre"], post_cell=c["post"], pre_component=c["pre_component"],
                          post_component=c["post_component"])
                for k in ("pre_segment", "post_segment", "pre_fraction_along", "post_fraction_along"):
                    if c.get(k) is not None:
                        kw[k] = c[k]
                if c["v"] == "K":
                    pr.continuous_connections.append(neuroml.ContinuousConnection(**kw))
                elif c["v"] == "KI":
                    pr.continuous_connection_instances.append(neuroml.ContinuousConnectionInstance(**kw))
                else:
                    pr.continuous_connection_instance_ws.append(neuroml.ContinuousConnectionInstanceW(weight=c["weight"], **kw))
            net.continuous_projections.append(pr)
        for js in ns.get("input_lists", []):
            il = neuroml.InputList(id=js["id"], component=js["component"], populations=js["population"])
            for c in js["inputs"]:
                kw = dict(id=c["id"], target=c["target"], destination=c.get("destination", "synapses"))
                if c.get("segment_id") is not None:
                    kw["segment_id"] = c["segment_id"]
                if c.get("fraction_along") is not None:
                    kw["fraction_along"] = c["fraction_along"]
                if c["v"] == "I":
                    il.input.append(neuroml.Input(**kw))
                else:
                    il.input_ws.append(neuroml.InputW(weight=c["weight"], **kw))
            net.input_lists.append(il)
        ex = ns.get("extra") or {}
        if ex.get("space"):
            net.spaces.append(neuroml.Space(id="sp0"))
        if ex.get("region"):
            net.regions.append(neuroml.Region(id="rg0", spaces="sp0"))
        if ex.get("cell_set"):
            net.cell_sets.append(neuroml.CellSet(id="cs0", select="all"))
        if ex.get("extracellular"):
            net.extracellular_properties.append(neuroml.ExtracellularPropertiesLocal(id="ex0"))
        if ex.get("explicit_input"):
            net.explicit_inputs.append(neuroml.ExplicitInput(target=ex["explicit_input"][0], input=ex["explicit_input"][1]))
        if ex.get("synaptic_connection"):
            a, b, s = ex["synaptic_connection"]
            net.synaptic_connections.append(neuroml.SynapticConnection(from_=a, to=b, synapse=s))
    return doc


@contextlib.contextmanager
def quiet():
    buf = io.StringIO()
    logging.disable(logging.CRITICAL)
    with warnings.catch_warnings():
        warnings.simplefilter("ignore")
        with contextlib.redirect_stdout(buf), contextlib.redirect_stderr(buf):
            try:
                yield
            finally:
                logging.disable(logging.NOTSET)


def _close_all():
    try:
        import tables
        tables.file._open_files.close_all()
    except Exception:
        pass


def roundtrip(spec, mode="plain"):
    """-> dict(stage, error, before, after).  stage in build|write|load|project|done"""
    res = {"mode": mode, "stage": "build", "error": None}
    tmp = tempfile.mkdtemp(prefix="c05rt_")
    try:
        with quiet():
            from neuroml.loaders import NeuroMLHdf5Loader
            from neuroml.writers import NeuroMLHdf5Writer
            doc = build_doc(spec)
            before = sem_doc(doc)
            res["before"] = before
            res["stage"] = "write"
            f = os.path.join(tmp, "net.nml.h5")
            NeuroMLHdf5Writer.write(doc, f)
            res["doc_untouched"] = (sem_doc(doc) == before)
            res["stage"] = "load"
            back = NeuroMLHdf5Loader.load(f, optimized=(mode == "optimized"))
            res["stage"] = "project"
            res["after"] = sem_doc(back)
            res["stage"] = "done"
    except Exception as e:  # noqa: BLE001 - the outcome IS the datum
        res["error"] = "%s: %s" % (type(e).__name__, str(e)[:300])
    finally:
        _close_all()
        shutil.rmtree(tmp, ignore_errors=True)
    return res


# ----------------------------------------------------------------------------- write histories on ONE document object
def _set(obj, **kw):
    for k, v in kw.items():
        setattr(obj, k, v)


def apply_edits(doc, spec):
    """edit the objects of `doc` IN PLACE so that the document describes `spec` (same shape: same constructs, same number and
    variants of rows); only plain attribute assignment, the way a user edits a model between two writes"""
    import neuroml
    for net, ns in zip(doc.networks, spec["networks"]):
        for pop, ps in zip(net.populations, ns.get("populations", [])):
            pop.size = ps.get("size")
            want = ps.get("instances", [])
            if len(want) != len(pop.instances):
                del pop.instances[:]
                for iid, x, y, z in want:
                    inst = neuroml.Instance(id=iid)
                    inst.location = neuroml.Location(x=x, y=y, z=z)
                    pop.instances.append(inst)
            else:
                for inst, (iid, x, y, z) in zip(pop.instances, want):
                    inst.id = iid
                    _set(inst.location, x=x, y=y, z=z)
        for pr, js in zip(net.projections, ns.get("projections", [])):
            objs = {"C": list(pr.connections), "W": list(pr.connection_wds)}
            for c in js["conns"]:
                o = objs[c["v"]].pop(0)
                _set(o, id=c["id"], pre_cell_id=c["pre"], post_cell_id=c["post"])
                for k in ("pre_segment_id", "post_segment_id", "pre_fraction_along", "post_fraction_along"):
                    if c.get(k) is not None:
                        setattr(o, k, c[k])
                if c["v"] == "W":
                    _set(o, weight=c["weight"], delay=c["delay"])
        for key, lists, attr in (("electrical", ("electrical_connections", "electrical_connection_instances", "electrical_connection_instance_ws"), "electrical_projections"),
                                 ("continuous", ("continuous_connections", "continuous_connection_instances", "continuous_connection_instance_ws"), "continuous_projections")):
            for pr, js in zip(getattr(net, attr), ns.get(key, [])):
                objs = [list(getattr(pr, l)) for l in lists]
                for c in js["conns"]:
                    o = objs[{"E": 0, "EI": 1, "EIW": 2, "K": 0, "KI": 1, "KIW": 2}[c["v"]]].pop(0)
                    _set(o, id=c["id"], pre_cell=c["pre"], post_cell=c["post"])
                    for k in ("pre_segment", "post_segment", "pre_fraction_along", "post_fraction_along"):
                        if c.get(k) is not None:
                            setattr(o, k, c[k])
                    if c["v"] in ("EIW", "KIW"):
                        o.weight = c["weight"]
        for il, js in zip(net.input_lists, ns.get("input_lists", [])):
            objs = {"I": list(il.input), "IW": list(il.input_ws)}
            for c in js["inputs"]:
                o = objs[c["v"]].pop(0)
                _set(o, id=c["id"], target=c["target"])
                if c.get("segment_id") is not None:
                    o.segment_id = c["segment_id"]
                if c.get("fraction_along") is not None:
                    o.fraction_along = c["fraction_along"]
                if c["v"] == "IW":
                    o.weight = c["weight"]


def first_use(doc, action, tmp):
    """what happens to the document object before it is edited"""
    from neuroml.writers import NeuroMLHdf5Writer, NeuroMLWriter
    if action == "write":
        NeuroMLHdf5Writer.write(doc, os.path.join(tmp, "first.nml.h5"))
    elif action == "summary":
        doc.summary()
    elif action == "xml":
        NeuroMLWriter.write(doc, io.StringIO(), close=False)
    elif action == "str":
        for n in doc.networks:
            for pr in n.projections:
                [str(c) for c in list(pr.connections) + list(pr.connection_wds)]
            for pr in n.electrical_projections:
                [str(c) for c in list(pr.electrical_connections) + list(pr.electrical_connection_instances) + list(pr.electrical_connection_instance_ws)]
            for pr in n.continuous_projections:
                [str(c) for c in list(pr.continuous_connections) + list(pr.continuous_connection_instances) + list(pr.continuous_connection_instance_ws)]
            for il in n.input_lists:
                [str(c) for c in list(il.input) + list(il.input_ws)]
            [str(p) for p in n.populations]


def history(spec, spec_after, action, mode="plain"):
    """build spec, use the document once (write / summary / str / xml), edit it in place to spec_after, write, load.
    The loaded document must describe the EDITED document, i.e. what a fresh process writes for spec_after."""
    res = {"mode": mode, "stage": "build", "error": None, "action": action}
    tmp = tempfile.mkdtemp(prefix="c05rt_")
    try:
        with quiet():
            from neuroml.loaders import NeuroMLHdf5Loader
            from neuroml.writers import NeuroMLHdf5Writer
            doc = build_doc(spec)
            fresh = sem_doc(build_doc(spec_after))
            res["stage"] = "first-use"
            first_use(doc, action, tmp)
            res["stage"] = "edit"
            apply_edits(doc, spec_after)
            before = sem_doc(doc)
            if before != fresh:
                res["error"] = "harness: the in-place edit does not produce the target document"
                res["before"] = fresh
                res["after"] = before
                res["stage"] = "edit-mismatch"
                return res
            res["before"] = before
            res["stage"] = "write"
            f = os.path.join(tmp, "net.nml.h5")
            NeuroMLHdf5Writer.write(doc, f)
            res["doc_untouched"] = (sem_doc(doc) == before)
            res["stage"] = "load"
            back = NeuroMLHdf5Loader.load(f, optimized=(mode == "optimized"))
            res["stage"] = "project"
            res["after"] = sem_doc(back)
            res["stage"] = "done"
    except Exception as e:  # noqa: BLE001
        res["error"] = "%s: %s" % (type(e).__name__, str(e)[:300])
    finally:
        _close_all()
        shutil.rmtree(tmp, ignore_errors=True)
    return res


def verdict(res, expect):
    """property predicate on one round trip.
    expect = "same"      : must succeed and sem(after) == sem32(before)
             "refuse"    : the document holds a construct the format cannot hold -> an exception (write or load) is required
             "any"       : either refusal or a faithful round trip (nothing silently lost)"""
    if res["stage"] == "build":
        return {"ok": True, "skipped": "not constructible: " + str(res["error"])}
    refused = res["stage"] in ("write", "load")
    if expect == "refuse":
        return {"ok": refused, "refused": refused, "diff": [] if refused else [["", "an exception", "accepted silently"]]}
    if refused:
        return {"ok": expect == "any", "refused": True, "diff": [["", "round trip", res["error"]]]}
    if res["stage"] != "done":
        return {"ok": False, "diff": [["", "projectable document", res["error"]]]}
    d = diff(sem32(res["before"]), res["after"])
    return {"ok": not d, "refused": False, "diff": d}


def main():
    payload = json.loads(sys.stdin.read())
    out = []
    for c in payload["cases"]:
        rs = {}
        for mode in c.get("modes", ["plain"]):
            if c.get("after_spec") is not None:
                r = history(c["spec"], c["after_spec"], c.get("action", "write"), mode)
                if r["stage"] == "edit-mismatch":
                    r["verdict_override"] = {"ok": False, "diff": diff(r["before"], r["after"]) or [["", "edit", "mismatch"]]}
            else:
                r = roundtrip(c["spec"], mode)
            v = r.get("verdict_override") or verdict(r, c.get("expect", "same"))
            rs[mode] = {"stage": r["stage"], "error": r["error"], "verdict": v,
                        "doc_untouched": r.get("doc_untouched"),
                        "after": r.get("after") if c.get("want_after") else None}
        out.append(rs)
    print(json.dumps({"results": out}))


if __name__ == "__main__":
    main()
