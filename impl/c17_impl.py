"""C17 implementation runner: builds generated documents with the real classes, writes the included files into a
scratch directory, calls the REAL neuroml.utils.fix_external_morphs_biophys_in_cell and reports values and object
identities.

stdin : {"cases": [case..]}
case  : {"cells": [{"list": "cells"|"cells2", "id", "rest", "m": slot, "b": slot}], "morphs": [obj], "bios": [obj],
         "incs": [{"href", "morphs": [obj], "bios": [obj], "missing": bool}]}
slot  : {"attr": str|null, "emb": obj|null};  obj: {"id": str, "v": int, "kids": [int..]}
Every case is run twice on separately built, identical documents: overwrite=True and overwrite=False.
stdout (last line): {"results": [{"true": run, "false": run, "mutation_ok": {...}}]}
run   : {"outcome": "ok"|"keyerror"|"exit"|"other", "input_after": [cellobs], "output": [cellobs], "out_lists": [val],
         "pattern": [int], "same_doc": bool, "dump_in_before": str, "dump_in_after": str, "dump_out": str,
         "copies_fresh": bool, "embedded_kept": bool}
"""
import copy
import io
import json
import logging
import os
import shutil
import sys
import tempfile

import neuroml
import neuroml.writers as W
from neuroml.utils import fix_external_morphs_biophys_in_cell as fix

logging.disable(logging.CRITICAL)
NS = 'xmlns="http://www.neuroml.org/schema/neuroml2"'


def mk_obj(kind, o):
    if kind == "m":
        x = neuroml.Morphology(id=o["id"], notes="t%d" % o["v"])
        for k in o["kids"]:
            x.segments.append(neuroml.Segment(id=k))
    else:
        x = neuroml.BiophysicalProperties(id=o["id"], notes="t%d" % o["v"])
        for k in o["kids"]:
            x.properties.append(neuroml.Property(tag="k", value=str(k)))
    return x


def obj_xml(kind, o):
    if kind == "m":
        return '<morphology id="%s"><notes>t%d</notes>%s</morphology>' % (
            o["id"], o["v"], "".join('<segment id="%d"/>' % k for k in o["kids"]))
    return '<biophysicalProperties id="%s"><notes>t%d</notes>%s</biophysicalProperties>' % (
        o["id"], o["v"], "".join('<property tag="k" value="%d"/>' % k for k in o["kids"]))


def real_href(inc):
    """the href as written in the document: the plain name, or the same file spelt with ./ , a doubled slash, or through a
    symbolic link to a directory followed by .. (lnk -> sd/deep, so lnk/../x is sd/x and NOT ./x)"""
    return inc.get("prefix", "") + inc["href"]


def inc_dir(inc, root):
    return os.path.join(root, "sd") if "lnk/../" in inc.get("prefix", "") else root


def build_parsed(case):
    """the document comes from the PARSER (every component knows its parent_object_).  build = "parsed": as written;
    build = "moved": definitions marked from_cell were parsed as the embedded child of that cell and are then made
    stand-alone and referenced back: doc.<list>.append(cell.x); cell.x = None; cell.x_attr = id"""
    from neuroml.nml.nml import parseString
    cells = [dict(c, m=dict(c["m"]), b=dict(c["b"])) for c in case["cells"]]
    top = {"m": [], "b": []}
    moved = []
    for kind, key in (("m", "morphs"), ("b", "bios")):
        for o in case[key]:
            if o.get("from_cell") is None:
                top[kind].append(o)
            else:
                moved.append((kind, o))
                cells[o["from_cell"]][kind] = {"attr": None, "emb": o}
    body = "".join('<include href="%s"/>' % real_href(f) for f in case["incs"])
    body += "".join(obj_xml("m", o) for o in top["m"]) + "".join(obj_xml("b", o) for o in top["b"])
    body += "".join(cell_xml(c) for c in cells if c["list"] == "cells")
    body += "".join(cell_xml(c) for c in cells if c["list"] == "cells2")
    doc = parseString('<neuroml %s id="d">%s</neuroml>' % (NS, body), silence=True)
    objs = all_cells(doc)
    for kind, o in moved:
        cell = objs[o["from_cell"]]
        if kind == "m":
            doc.morphology.append(cell.morphology)
            cell.morphology = None
            cell.morphology_attr = o["id"]
        else:
            doc.biophysical_properties.append(cell.biophysical_properties)
            cell.biophysical_properties = None
            cell.biophysical_properties_attr = o["id"]
    return doc


def build(case):
    if case.get("build", "api") != "api":
        return build_parsed(case)
    doc = neuroml.NeuroMLDocument(id="d")
    for inc in case["incs"]:
        doc.includes.append(neuroml.IncludeType(href=real_href(inc)))
    for o in case["morphs"]:
        doc.morphology.append(mk_obj("m", o))
    for o in case["bios"]:
        doc.biophysical_properties.append(mk_obj("b", o))
    for c in case["cells"]:
        cls = neuroml.Cell if c["list"] == "cells" else neuroml.Cell2CaPools
        how = c.get("how", "assign")
        tgt = doc.cells if c["list"] == "cells" else doc.cell2_ca_poolses
        if how == "assign":  # bare object, attributes assigned afterwards
            x = cls(id=c["id"], notes="t%d" % c["rest"])
            x.morphology_attr = c["m"]["attr"]
            x.biophysical_properties_attr = c["b"]["attr"]
            if c["m"]["emb"] is not None:
                x.morphology = mk_obj("m", c["m"]["emb"])
            if c["b"]["emb"] is not None:
                x.biophysical_properties = mk_obj("b", c["b"]["emb"])
            tgt.append(x)
            continue
        # the ways the API documents: constructor keywords, component_factory, add (by class and by class name)
        kw = {"id": c["id"], "notes": "t%d" % c["rest"], "morphology_attr": c["m"]["attr"],
              "biophysical_properties_attr": c["b"]["attr"],
              "morphology": None if c["m"]["emb"] is None else mk_obj("m", c["m"]["emb"]),
              "biophysical_properties": None if c["b"]["emb"] is None else mk_obj("b", c["b"]["emb"])}
        kw = {k: v for k, v in kw.items() if v is not None}
        if how == "ctor":
            tgt.append(cls(**kw))
        elif how == "factory":
            tgt.append(doc.component_factory(cls, validate=False, **kw))
        elif how == "add":
            doc.add(cls, validate=False, **kw)
        else:  # "add_name"
            doc.add(cls.__name__, validate=False, **kw)
    return doc


def ctor_probe():
    """Cell2CaPools.__init__ hands its parameters on to Cell.__init__ positionally: every forwarded name must sit at the
    position of the same-named Cell parameter (read from the source of the one method; fail closed)"""
    import ast
    import inspect
    import textwrap
    res = {"parse_ok": False, "mismatches": [], "detail": ""}
    try:
        src = textwrap.dedent(inspect.getsource(neuroml.Cell2CaPools.__init__))
        fn = ast.parse(src).body[0]
        base = [p for p in inspect.signature(neuroml.Cell.__init__).parameters][1:]
        calls = [n for n in ast.walk(fn) if isinstance(n, ast.Call) and isinstance(n.func, ast.Attribute) and n.func.attr == "__init__"
                 and ast.unparse(n.func.value).startswith("super(")]
        assert len(calls) == 1, "expected one super().__init__ call, found %d" % len(calls)
        for i, a in enumerate(calls[0].args):
            want = base[i] if i < len(base) else None
            if not isinstance(a, ast.Name) or a.id != want:
                res["mismatches"].append({"position": i, "cell_parameter": want, "argument": ast.unparse(a)})
        for k in calls[0].keywords:
            if k.arg is not None and (not isinstance(k.value, ast.Name) or k.value.id != k.arg):
                res["mismatches"].append({"keyword": k.arg, "argument": ast.unparse(k.value)})
        own = [p for p in inspect.signature(neuroml.Cell2CaPools.__init__).parameters]
        for need in ("morphology_attr", "biophysical_properties_attr", "morphology", "biophysical_properties"):
            assert need in own and need in base, "parameter %s missing" % need
        res["parse_ok"] = True
    except Exception as e:
        res["detail"] = ("%s: %s" % (type(e).__name__, e))[:300]
    return res


def tnum(s):
    try:
        return int(str(s).strip()[1:])
    except Exception:
        return -1


def kids_of(o):
    if isinstance(o, neuroml.Morphology):
        return list(o.segments)
    return list(o.properties)


def val(o):
    if o is None:
        return None
    if isinstance(o, neuroml.Morphology):
        return [o.id, tnum(o.notes), [int(s.id) for s in o.segments]]
    return [o.id, tnum(o.notes), [int(p.value) for p in o.properties]]


def all_cells(doc):
    return list(doc.cells) + list(doc.cell2_ca_poolses)


def cellobs(c):
    return [c.id, tnum(c.notes), [c.morphology_attr, val(c.morphology)],
            [c.biophysical_properties_attr, val(c.biophysical_properties)]]


def subtree(o):
    return [] if o is None else [o] + kids_of(o)


def walk(doc):
    out = []
    for c in all_cells(doc):
        out += [c] + subtree(c.morphology) + subtree(c.biophysical_properties)
    for m in doc.morphology:
        out += subtree(m)
    for b in doc.biophysical_properties:
        out += subtree(b)
    return out


def relabel(objs):
    seen = {}
    out = []
    for o in objs:
        seen.setdefault(id(o), len(seen))
        out.append(seen[id(o)])
    return out


def dump(doc):
    sf = io.StringIO()
    W.NeuroMLWriter.write(doc, sf, close=False)
    return sf.getvalue()


def run(case, overwrite, keep=False, doc=None):
    doc = build(case) if doc is None else doc
    before = walk(doc)  # keeps every object alive: id() stays unique
    emb_before = [(c.morphology, c.biophysical_properties) for c in all_cells(doc)]
    r = {"outcome": "ok", "output": [], "out_lists": [], "pattern": [], "same_doc": None, "dump_out": "",
         "dump_in_before": dump(doc), "copies_fresh": True, "embedded_kept": True, "detail": ""}
    out = None
    try:
        out = fix(doc, overwrite=overwrite)
    except KeyError as e:
        r["outcome"] = "keyerror"
        r["detail"] = str(e)
    except SystemExit:
        r["outcome"] = "exit"
    except BaseException as e:
        r["outcome"] = "other"
        r["detail"] = ("%s: %s" % (type(e).__name__, e))[:300]
    r["input_after"] = [cellobs(c) for c in all_cells(doc)]
    r["dump_in_after"] = dump(doc)
    mut = None
    if out is not None:
        after = walk(out)
        r["output"] = [cellobs(c) for c in all_cells(out)]
        r["out_lists"] = [val(o) for o in list(out.morphology) + list(out.biophysical_properties)]
        r["pattern"] = relabel(before + after)
        r["same_doc"] = out is doc
        r["hidden_docs"] = hidden_docs(out)
        r["dump_out"] = dump(out)
        # independence, directly on identities: a newly embedded subtree shares no object with anything else
        old_ids = set(id(o) for o in before)
        new_cells = all_cells(out)
        seen_new = set()
        for ci, c in enumerate(new_cells):
            for which, o in (("m", c.morphology), ("b", c.biophysical_properties)):
                was = emb_before[ci][0 if which == "m" else 1] if overwrite and ci < len(emb_before) else None
                if o is None:
                    continue
                if overwrite and was is not None:
                    if o is not was:
                        r["embedded_kept"] = False
                    continue
                if not overwrite and case["cells"][ci][which]["emb"] is not None:
                    continue  # copy of an element that was embedded before: part of the document copy
                ids = [id(x) for x in subtree(o)]
                if any(i in old_ids or i in seen_new for i in ids) or len(set(ids)) != len(ids):
                    r["copies_fresh"] = False
                seen_new.update(ids)
                if keep:
                    KEEP.append((len(KEEP), subtree(o)))
        # behavioural independence: change one embedded copy, nothing else may change
        target = None
        for ci, c in enumerate(new_cells):
            if c.morphology is not None and case["cells"][ci]["m"]["emb"] is None:
                target = (ci, c.morphology)
                break
        if target is not None:
            others_before = [json.dumps(cellobs(c)) for i, c in enumerate(new_cells) if i != target[0]]
            lists_before = json.dumps([val(o) for o in list(out.morphology) + list(out.biophysical_properties)])
            in_before = dump(doc) if not overwrite else None
            target[1].segments.append(neuroml.Segment(id=999))
            target[1].notes = "t424242"
            for s in target[1].segments[:1]:
                s.id = 777
            mut = {"others_same": others_before == [json.dumps(cellobs(c)) for i, c in enumerate(new_cells) if i != target[0]],
                   "lists_same": lists_before == json.dumps([val(o) for o in list(out.morphology) + list(out.biophysical_properties)]),
                   "input_same": True if overwrite else in_before == dump(doc)}
    r["mutation"] = mut
    return r


def parent_kinds(case):
    """what parent_object_ of the elements a cell refers to is, in the document as built (coverage only)"""
    doc = build(case)
    cells = all_cells(doc)
    out = set()
    for c in cells:
        for attr, lst in ((c.morphology_attr, doc.morphology), (c.biophysical_properties_attr, doc.biophysical_properties)):
            for o in lst:
                if attr is not None and o.id == attr:
                    p = getattr(o, "parent_object_", None)
                    out.add("none" if p is None else "document" if p is doc else "referring-cell" if p is c else
                            "another-cell" if any(p is x for x in cells) else "other")
    return sorted(out)


def cell_xml(c):
    el = "cell" if c["list"] == "cells" else "cell2CaPools"
    at = ' id="%s"' % c["id"]
    if c["m"]["attr"] is not None:
        at += ' morphology="%s"' % c["m"]["attr"]
    if c["b"]["attr"] is not None:
        at += ' biophysicalProperties="%s"' % c["b"]["attr"]
    body = "<notes>t%d</notes>" % c["rest"]
    if c["m"]["emb"] is not None:
        body += obj_xml("m", c["m"]["emb"])
    if c["b"]["emb"] is not None:
        body += obj_xml("b", c["b"]["emb"])
    return "<%s%s>%s</%s>" % (el, at, body, el)


def write_main(case, root):
    body = "".join('<include href="%s"/>' % real_href(f) for f in case["incs"])
    body += "".join(obj_xml("m", o) for o in case["morphs"]) + "".join(obj_xml("b", o) for o in case["bios"])
    body += "".join(cell_xml(c) for c in case["cells"] if c["list"] == "cells")
    body += "".join(cell_xml(c) for c in case["cells"] if c["list"] == "cells2")
    with open(os.path.join(root, "main.nml"), "w") as fh:
        fh.write('<neuroml %s id="main">%s</neuroml>' % (NS, body))


def hidden_docs(doc):
    """NeuroMLDocument objects other than doc that hang on the embedded elements through parent_object_ (objects built by the
    parser know their parent; copy.deepcopy follows that link), searched transitively"""
    seen, todo = set(), [doc]
    while todo:
        d = todo.pop()
        for c in all_cells(d):
            for o in (c.morphology, c.biophysical_properties):
                p = getattr(o, "parent_object_", None) if o is not None else None
                if isinstance(p, neuroml.NeuroMLDocument) and p is not doc and id(p) not in seen:
                    seen.add(id(p))
                    todo.append(p)
        if len(seen) > 100000:
            break
    return len(seen)


def run_parser(case, root):
    """the same document as a file, read the way NeuroMLXMLParser.parse does it (include resolution, then the fix)"""
    from neuroml.hdf5.DefaultNetworkHandler import DefaultNetworkHandler
    from neuroml.hdf5.NeuroMLXMLParser import NeuroMLXMLParser

    write_main(case, root)
    r = {"outcome": "ok", "output": [], "detail": "", "hidden_docs": 0}
    try:
        p = NeuroMLXMLParser(DefaultNetworkHandler())
        p.parse("main.nml")
        r["output"] = [cellobs(c) for c in all_cells(p.nml_doc)]
        r["hidden_docs"] = hidden_docs(p.nml_doc)
    except KeyError as e:
        r["outcome"] = "keyerror"
        r["detail"] = str(e)
    except SystemExit:
        r["outcome"] = "exit"
    except BaseException as e:
        r["outcome"] = "other"
        r["detail"] = ("%s: %s" % (type(e).__name__, e))[:300]
    return r


H5_FORMS = (".nml.h5", ".h5", ".hdf5")


def write_incs(case, root):
    """(re)write the included files of a case: XML text, or - for the HDF5 forms - a NeuroML HDF5 file written by the
    repo's writer (one network, the definitions in the embedded XML)"""
    os.makedirs(os.path.join(root, "sd", "deep"), exist_ok=True)
    if not os.path.islink(os.path.join(root, "lnk")):
        os.symlink(os.path.join("sd", "deep"), os.path.join(root, "lnk"))
    for d in (root, os.path.join(root, "sd")):
        for fn in os.listdir(d):
            if fn.startswith("inc"):
                os.remove(os.path.join(d, fn))
    for inc in case["incs"]:
        if inc.get("missing"):
            continue
        path = os.path.join(inc_dir(inc, root), inc["href"])
        if inc_dir(inc, root) != root:
            # a decoy where a textual collapse of lnk/.. would look: well-formed, defines nothing
            with open(os.path.join(root, inc["href"]), "w") as fh:
                fh.write('<neuroml %s id="decoy"></neuroml>' % NS)
        if inc["href"].endswith(H5_FORMS):
            d = neuroml.NeuroMLDocument(id="inc")
            d.networks.append(neuroml.Network(id="incnet"))
            for o in inc["morphs"]:
                d.morphology.append(mk_obj("m", o))
            for o in inc["bios"]:
                d.biophysical_properties.append(mk_obj("b", o))
            for n in inc.get("nested", []):  # the embedded XML has includes of its own: the HDF5 loader always resolves them
                d.includes.append(neuroml.IncludeType(href=n["href"]))
                nb = "".join(obj_xml("m", o) for o in n["morphs"]) + "".join(obj_xml("b", o) for o in n["bios"])
                with open(os.path.join(inc_dir(inc, root), n["href"]), "w") as fh:
                    fh.write('<neuroml %s id="nested">%s</neuroml>' % (NS, nb))
            W.NeuroMLHdf5Writer.write(d, path)
        else:
            body = "".join(obj_xml("m", o) for o in inc["morphs"]) + "".join(obj_xml("b", o) for o in inc["bios"])
            if inc.get("pad"):  # a large file: the definitions start far into it
                body = "<notes>%s</notes>" % ("large model file. " * (inc["pad"] // 18 + 1)) + \
                       "".join('<ionChannel id="ch%d" conductance="10pS"/>' % i for i in range(400)) + body
            with open(path, "w") as fh:
                fh.write('<neuroml %s id="inc">%s</neuroml>' % (NS, body))


KEEP = []  # objects of earlier calls of a history, kept alive for the identity checks between calls


def exec_case(case, root, keep=False):
    write_incs(case, root)
    if case.get("pre_read"):
        # an ordinary read of the including file, default arguments, before the references are resolved
        import neuroml.loaders as L
        write_main(case, root)
        try:
            L.read_neuroml2_file("main.nml", include_includes=True)
        except BaseException:
            pass
    if case.get("same_doc"):
        # the SAME document resolved twice: overwrite=False (leaves it unchanged), then overwrite=True
        doc = build(case)
        rf = run(case, False, keep, doc=doc)
        res = {"false": rf, "true": run(case, True, keep, doc=doc)}
    else:
        res = {"true": run(case, True, keep), "false": run(case, False, keep)}
        if case.get("build", "api") != "api":
            res["parent_kinds"] = parent_kinds(case)
    if case.get("via_parser"):
        res["parser"] = run_parser(case, root)
    return res


def forked(case, root):
    """run one case in a forked child: process state (module globals, caches) as after import, whatever ran before"""
    r, w = os.pipe()
    pid = os.fork()
    if pid == 0:
        try:
            os.close(r)
            os.chdir(root)
            data = json.dumps(exec_case(case, root))
            with os.fdopen(w, "w") as fh:
                fh.write(data)
        finally:
            os._exit(0)
    os.close(w)
    with os.fdopen(r) as fh:
        data = fh.read()
    os.waitpid(pid, 0)
    return json.loads(data)


def main():
    req = json.load(sys.stdin)
    top = os.path.realpath(tempfile.mkdtemp(prefix="c17_"))
    home = os.getcwd()
    out, hist_out = [], []
    try:
        for i, case in enumerate(req.get("cases", [])):
            root = os.path.join(top, "k%d" % i)
            os.makedirs(root)
            os.chdir(root)
            try:
                out.append(forked(case, root) if req.get("fork") else exec_case(case, root))
            finally:
                os.chdir(home)
                shutil.rmtree(root, ignore_errors=True)
        # histories: several calls in THIS process over documents whose includes name the same paths, the included
        # files being rewritten between the calls
        for i, steps in enumerate(req.get("histories", [])):
            root = os.path.join(top, "h%d" % i)
            os.makedirs(root)
            os.chdir(root)
            del KEEP[:]
            try:
                rs = [exec_case(step, root, keep=True) for step in steps]
                # no object of the copies embedded by one call may be an object of another call's copies
                shared, seen = False, {}
                for call, objs in KEEP:
                    for o in objs:
                        if seen.setdefault(id(o), call) != call:
                            shared = True
                hist_out.append({"steps": rs, "copies_shared_between_calls": shared})
            finally:
                del KEEP[:]
                os.chdir(home)
                shutil.rmtree(root, ignore_errors=True)
    finally:
        os.chdir(home)
        shutil.rmtree(top, ignore_errors=True)
    sys.stdout.flush()
    print()
    res = {"results": out, "histories": hist_out}
    if req.get("ctor_probe"):
        res["ctor_probe"] = ctor_probe()
    print(json.dumps(res))


if __name__ == "__main__":
    main()
