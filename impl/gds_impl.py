"""runs the REAL generated bindings: construct / export / lxml-parse / build / dump, for the correspondence with
coq/Model/Gds.v.  stdin: {"order": {cls: [field names]}, "cases": [{"tag":..., "tree": {...}}]} ; stdout: JSON."""
import io
import json
import sys

from lxml import etree

import neuroml.nml.nml as nml

P = json.load(sys.stdin)
ORDER = P["order"]


def construct(tree):
    cls = getattr(nml, tree["cls"])
    kw = {}
    for name, v in tree["kw"]:
        kw[name] = conv(v)
    return cls(**kw)


def conv(v):
    if v is None:
        return None
    if "s" in v:
        return v["s"]
    if "i" in v:
        return v["i"]
    if "f" in v:
        return float(v["f"])
    if "o" in v:
        return construct(v["o"])
    if "l" in v:
        return [construct(x) for x in v["l"]]
    raise ValueError(v)


def fstr(x):
    r = repr(x)
    if "e" in r or "E" in r or "n" in r:   # exponent / inf / nan: outside the decimal instance
        return "!" + r
    return r


def dump(o):
    cname = type(o).__name__
    out = []
    for name in ORDER[cname]:
        v = getattr(o, name)
        if name == "anytypeobjs_":
            out.append([name, {"raw": [str(x) for x in (v or [])]}])
        else:
            out.append([name, dval(v)])
    return {"cls": cname, "fields": out}


def dval(v):
    if v is None:
        return None
    if isinstance(v, bool):
        return {"s": str(v)}
    if isinstance(v, str):
        return {"s": v}
    if isinstance(v, int):
        return {"i": v}
    if isinstance(v, float):
        return {"f": fstr(v)}
    if isinstance(v, list):
        if all(hasattr(x, "member_data_items_") for x in v):
            return {"l": [dump(x) for x in v]}
        return {"raw": [str(x) for x in v]}
    if hasattr(v, "member_data_items_"):
        return {"o": dump(v)}
    return {"raw": [repr(v)]}


def xml_json(el):
    kids = [xml_json(k) for k in el if isinstance(k.tag, str)]
    tag = etree.QName(el).localname
    text = "" if kids else (el.text or "")
    return [tag, [[etree.QName(k).localname if "}" in k else k, v] for k, v in el.attrib.items()], text, kids]


def export_text(o, tag):
    f = io.StringIO()
    o.export(f, 0, name_=tag, namespacedef_="")
    return f.getvalue()


def document_cycle(case):
    """the real entry points: NeuroMLWriter.write -> NeuroMLLoader.load, three cycles"""
    import os
    import tempfile
    from neuroml.loaders import NeuroMLLoader
    from neuroml.writers import NeuroMLWriter
    global NAME_TURN
    r = {}
    d = tempfile.mkdtemp(prefix="verif_c01_")
    try:
        doc = construct(case["tree"])
        r["obj"] = dump(doc)
        texts = []
        cur = doc
        for i in range(3):
            fn = os.path.join(d, "cycle%d.nml" % i)
            before = dump(cur)
            NeuroMLWriter.write(cur, fn)
            if dump(cur) != before:
                r["write_modified_document"] = True
            texts.append(open(fn, encoding="utf-8").read())
            fn2 = os.path.join(d, "cycle%d_again.nml" % i)
            NeuroMLWriter.write(cur, fn2)
            if open(fn2, encoding="utf-8").read() != texts[-1]:
                r["second_write_differs"] = True
            cur = NeuroMLLoader.load(fn)
            r["back%d" % i] = dump(cur)
        # every public writer / loader entry point must agree with the plain path-based pair
        mism = []
        fn = os.path.join(d, "cycle0.nml")
        ref_bytes = open(fn, "rb").read()
        ref_dump = r["back0"]
        try:
            fo = os.path.join(d, "fileobj_default_close.nml")
            fh = open(fo, "w", encoding="utf-8")
            NeuroMLWriter.write(doc, fh)            # documented default: close=True
            if open(fo, "rb").read() != ref_bytes:   # read while the caller still holds fh
                mism.append("writer:file-object(default close): file content differs from the path-written file")
            fo2 = os.path.join(d, "fileobj_noclose.nml")
            fh2 = open(fo2, "w", encoding="utf-8")
            NeuroMLWriter.write(doc, fh2, close=False)
            if fh2.closed:
                mism.append("writer:file-object(close=False): the caller's handle was closed")
            else:
                fh2.close()
            if open(fo2, "rb").read() != ref_bytes:
                mism.append("writer:file-object(close=False): file content differs from the path-written file")
        except Exception as e:  # noqa
            mism.append("writer:file-object raises " + type(e).__name__ + ": " + str(e)[:120])
        try:
            from neuroml.loaders import read_neuroml2_file, read_neuroml2_string
            for name, f in (("read_neuroml2_file", lambda: read_neuroml2_file(fn)),
                            ("read_neuroml2_string", lambda: read_neuroml2_string(open(fn, encoding="utf-8").read())),
                            ("read_neuroml2_string(leading comment)", lambda: read_neuroml2_string("<!-- c -->\n" + open(fn, encoding="utf-8").read()))):
                try:
                    got = dump(f())
                    if got != ref_dump:
                        diff = [a[0] for a, b in zip(ref_dump["fields"], got["fields"]) if a != b][:4]
                        mism.append("loader:%s differs from NeuroMLLoader.load in %s" % (name, ",".join(diff)))
                except BaseException as e:  # noqa  (sys.exit inside the loaders included)
                    mism.append("loader:%s raises %s: %s" % (name, type(e).__name__, str(e)[:120]))
        except Exception as e:  # noqa
            mism.append("loader entry points: " + type(e).__name__)
        # history: one path is reused by every document of this run (written over, read again): what is read is what
        # was written last, through each loader
        try:
            shared = os.path.join(SHARED_DIR, "reused_path.nml")
            NeuroMLWriter.write(doc, shared)
            for name, f in (("NeuroMLLoader.load", lambda: NeuroMLLoader.load(shared)),
                            ("read_neuroml2_file", lambda: read_neuroml2_file(shared))):
                got = dump(f())
                if got != ref_dump:
                    mism.append("history:%s of a path that was written over returns a different document" % name)
        except BaseException as e:  # noqa
            mism.append("history: reused path raises %s: %s" % (type(e).__name__, str(e)[:120]))
        # the same document under a namespace prefix (a loaded tree carries the prefix): written twice, read back
        try:
            if NAME_TURN % 4 == 0 and "<annotation" not in texts[0]:
                NSU = "http://www.neuroml.org/schema/neuroml2"
                root0 = etree.fromstring(texts[0].encode("utf-8"))
                new = etree.Element(root0.tag, nsmap=dict([("pfx", NSU)] + [(k, v) for k, v in root0.nsmap.items() if k]))
                new.text = root0.text
                for k, v in root0.attrib.items():
                    new.set(k, v)
                for ch in list(root0):
                    new.append(ch)
                etree.cleanup_namespaces(new)
                ptext = etree.tostring(new, encoding="unicode")
                import re as _re
                # ... and the variant in which only inner (empty) elements carry a locally declared prefix
                ltext = _re.sub(r"<([A-Za-z_][\w.-]*)((?:\s[^<>]*?)?)/>", lambda m: '<lq:%s xmlns:lq="%s"%s/>' % (m.group(1), NSU, m.group(2)), texts[0])
                for ptext in ([ptext] if "<pfx:" in ptext else []) + ([ltext] if "<lq:" in ltext else []):
                    dp = read_neuroml2_string(ptext)
                    if dump(dp) != ref_dump:
                        mism.append("prefixed: the prefixed text loads to a different document")
                    p1, p2 = os.path.join(d, "pfx1.nml"), os.path.join(d, "pfx2.nml")
                    NeuroMLWriter.write(dp, p1)
                    NeuroMLWriter.write(dp, p2)
                    if open(p1, "rb").read() != open(p2, "rb").read():
                        mism.append("prefixed: a document loaded from prefixed text is written differently the second time")
                    if dump(NeuroMLLoader.load(p2)) != ref_dump:
                        mism.append("prefixed: written and read back gives a different document")
        except BaseException as e:  # noqa
            mism.append("prefixed: raises %s: %s" % (type(e).__name__, str(e)[:120]))
        # the name of the exchange file is not content: unusual but legal XML file names, one per document in turn
        try:
            names = ["net.h5.nml", "cells.HDF5.xml", "a.nml.h5.exported.xml", "with space.nml", "d\u00e9j\u00e0.nml", "UPPER.NML",
                     "no_extension", "two..dots.nml", ".hidden.nml", "h5", "x.hdf5.nml"]
            if sys.getfilesystemencoding().lower().replace("-", "") != "utf8":
                names = [x for x in names if x.isascii()]   # the OS layer, not the library, refuses such names then
            nm = names[NAME_TURN % len(names)]
            NAME_TURN += 1
            odd = os.path.join(d, nm)
            NeuroMLWriter.write(doc, odd)
            if open(odd, "rb").read() != ref_bytes:
                mism.append("file-name:%r: written bytes differ from cycle0.nml" % nm)
            for name, f in (("NeuroMLLoader.load", lambda: NeuroMLLoader.load(odd)),
                            ("read_neuroml2_file", lambda: read_neuroml2_file(odd))):
                try:
                    if dump(f()) != ref_dump:
                        mism.append("file-name:%r: %s returns a different document" % (nm, name))
                except BaseException as e:  # noqa
                    mism.append("file-name:%r: %s raises %s: %s" % (nm, name, type(e).__name__, str(e)[:100]))
        except BaseException as e:  # noqa
            mism.append("file-name probe raises %s: %s" % (type(e).__name__, str(e)[:120]))
        r["entry_mismatch"] = mism
        r["text0"] = texts[0] if len(texts[0]) < 3000 else texts[0][:3000]
        r["bytes_stable"] = texts[1] == texts[2]
        r["bytes_first_equal"] = texts[0] == texts[1]
    except Exception as e:  # noqa
        import traceback
        r["err"] = type(e).__name__ + ": " + str(e)[:300] + " @ " + traceback.format_exc()[-400:]
    finally:
        import shutil
        shutil.rmtree(d, ignore_errors=True)
    return r


if P.get("mode") == "document":
    import shutil
    import tempfile
    SHARED_DIR = tempfile.mkdtemp(prefix="verif_c01_shared_")
    NAME_TURN = 0
    try:
        out = [document_cycle(c) for c in P["cases"]]
    finally:
        shutil.rmtree(SHARED_DIR, ignore_errors=True)
    print(json.dumps({"results": out}))
    sys.exit(0)

res = []
for case in P["cases"]:
    r = {}
    try:
        o = construct(case["tree"])
        r["obj"] = dump(o)
    except Exception as e:  # noqa
        r["obj_err"] = type(e).__name__ + ": " + str(e)[:200]
        res.append(r)
        continue
    try:
        text = export_text(o, case["tag"])
        r["text"] = text if len(text) < 4000 else None
        node = etree.fromstring(text.encode("utf-8"))
        r["xml"] = xml_json(node)
    except Exception as e:  # noqa
        r["xml_err"] = type(e).__name__ + ": " + str(e)[:200]
        res.append(r)
        continue
    try:
        o2 = type(o).factory()
        o2.build(node)
        r["back"] = dump(o2)
    except Exception as e:  # noqa
        r["back_err"] = type(e).__name__ + ": " + str(e)[:200]
    # the bytes written twice are the same and exporting does not change the object
    try:
        r["obj_after"] = dump(o) == r["obj"]
        r["text_again"] = export_text(o, case["tag"]) == text
    except Exception as e:  # noqa
        r["obj_after"] = False
    res.append(r)
print(json.dumps({"results": res}))
