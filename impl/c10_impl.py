"""runs the REAL GeneratedsSuperSuper.add on generated (parent, history of calls) cases and reports, per call, the
member-wise snapshot of the parent before/after, the identity of what was returned/stored, warnings, log records and
the exception.  stdin: {"order": {cls: [field names]}, "cases": [...]}; last stdout line: JSON.
Also imported by c09_impl.py / c11_impl.py for the shared helpers (nothing runs at import)."""
import collections
import io
import json
import logging
import re
import sys
import warnings

import neuroml
import neuroml.build_time_validation as btv
import neuroml.nml.nml as nml

ORDER = {}
SEQ = (list, tuple, collections.deque)      # child collections: the model sees the sequence of components, whatever holds it
STR_OK = {}      # id(child handed to an earlier call) -> does str() work on an equal copy


def construct(tree):
    cls = getattr(nml, tree["cls"])
    kw = {}
    for name, v in tree["kw"]:
        kw[name] = conv(v)
    return cls(**kw)


def conv(v):
    if v is None:
        return None
    if "s" in v:
        return v["s"]
    if "i" in v:
        return v["i"]
    if "f" in v:
        return float(v["f"])
    if "o" in v:
        return construct(v["o"])
    if "l" in v:
        return [construct(x) for x in v["l"]]
    if "t" in v:        # the same children held in a tuple / another sequence type: the constructors keep what they are given
        return tuple(construct(x) for x in v["t"])
    if "q" in v:
        return collections.deque(construct(x) for x in v["q"])
    raise ValueError(v)


def fstr(x):
    r = repr(x)
    if "e" in r or "E" in r or "n" in r:
        return "!" + r
    return r


def dump(o):
    cname = type(o).__name__
    out = []
    for name in ORDER[cname]:
        v = getattr(o, name)
        if name == "anytypeobjs_":
            out.append([name, {"raw": [str(x) for x in (v or [])]}])
        else:
            out.append([name, dval(v)])
    return {"cls": cname, "fields": out}


def dval(v):
    if v is None:
        return None
    if isinstance(v, bool):
        return {"s": str(v)}
    if isinstance(v, str):
        return {"s": v}
    if isinstance(v, int):
        return {"i": v}
    if isinstance(v, float):
        return {"f": fstr(v)}
    if isinstance(v, SEQ):
        if all(hasattr(x, "member_data_items_") for x in v):
            return {"l": [dump(x) for x in v]}
        return {"raw": [str(x) for x in v]}
    if hasattr(v, "member_data_items_"):
        return {"o": dump(v)}
    return {"raw": [repr(v)]}


def idvec(o):
    """identity of everything the instance dict holds (lists: element-wise)"""
    out = {}
    for k, v in vars(o).items():
        if k in ("gds_collector_", "parent_object_"):
            continue
        out[k] = ("L",) + tuple(id(x) for x in v) if isinstance(v, list) else ("V", id(v))
    return out


def holds(o, child):
    out = []
    for k, v in vars(o).items():
        if isinstance(v, SEQ):
            n = sum(1 for x in v if x is child)
            if n:
                out.append([k, n])
        elif v is child:
            out.append([k, 1])
    return out


def is_valid(o):
    try:
        o.validate()
        return True
    except Exception:  # noqa
        return False


def fresh(fn):
    """run fn() in a forked copy of this process and return its (JSON) result.  Called while this process has not yet
    validated anything, the child is as good as a fresh interpreter: class-level caches filled later cannot reach it."""
    import os
    r, w = os.pipe()
    pid = os.fork()
    if pid == 0:
        try:
            os.close(r)
            try:
                out = fn()
            except BaseException as e:  # noqa
                out = {"fresh_error": type(e).__name__ + ": " + str(e)[:200]}
            data = json.dumps(out).encode()
            while data:
                n = os.write(w, data)
                data = data[n:]
        finally:
            os._exit(0)
    os.close(w)
    chunks = []
    while True:
        b = os.read(r, 1 << 16)
        if not b:
            break
        chunks.append(b)
    os.close(r)
    os.waitpid(pid, 0)
    try:
        return json.loads(b"".join(chunks).decode())
    except Exception:  # noqa
        return {"fresh_error": "no result"}


def class_oracle(cls_name, kw_tree):
    """what the factory should make of (class, keywords), judged in a fresh process: the component constructed
    directly (+ setup_nml_cell for Cell), its validate() verdict, whether str() works"""
    def work():
        r = {}
        cls = getattr(nml, cls_name)
        kw = {k: conv(v) for k, v in kw_tree}
        probe = cls(**kw)
        if cls_name == "Cell":
            probe.setup_nml_cell()
            r["cell"] = dump(probe)
        r["direct"] = dump(probe)
        r["vchild"] = is_valid(probe)
        r["str_ok"] = str_ok(probe)
        return r
    return fresh(work)


def class_attr_snapshot():
    """names in the class dictionaries of the binding classes and their runtime bases"""
    out = {}
    for n in dir(nml):
        c = getattr(nml, n, None)
        if isinstance(c, type) and (hasattr(c, "member_data_items_") or n in ("GeneratedsSuper", "GeneratedsSuperSuper")):
            out[n] = set(vars(c).keys())
    return out


def class_attr_diff(before):
    after = class_attr_snapshot()
    new = {}
    for n, keys in after.items():
        d = sorted(keys - before.get(n, set()))
        if d:
            new[n] = d
    return new


def member_cache_check():
    """the per-class caches of _get_members() (dictionaries class name -> list, hung on classes at run time): every cached list
    must hold exactly the members of that class and its ancestors (by value), and no two entries - nor an entry and a class's own
    member_data_items_ - may be the same list object"""
    bad = []
    seen = {}
    own = {}
    for n in dir(nml):
        c = getattr(nml, n, None)
        if isinstance(c, type) and isinstance(vars(c).get("member_data_items_"), list):
            own[id(vars(c)["member_data_items_"])] = n
    for n in dir(nml):
        c = getattr(nml, n, None)
        if not isinstance(c, type):
            continue
        d = vars(c).get("_GeneratedsSuperSuper__all_members_")
        if not isinstance(d, dict):
            continue
        for k, lst in d.items():
            kc = getattr(nml, k, None)
            if not isinstance(kc, type) or not isinstance(lst, list):
                bad.append("%s: entry of type %s" % (k, type(lst).__name__))
                continue
            want = sorted(m.get_name() for b in kc.__mro__ for m in (vars(b).get("member_data_items_") or [])
                          if isinstance(vars(b).get("member_data_items_"), list))
            got = sorted(m.get_name() for m in lst)
            if got != want:
                bad.append("%s: cached members differ from those of the class and its ancestors: extra %s, missing %s"
                           % (k, sorted(set(got) - set(want))[:4] + (["<duplicates>"] if len(got) != len(set(got)) else []),
                              sorted(set(want) - set(got))[:4]))
            if id(lst) in seen and seen[id(lst)] != k:
                bad.append("%s and %s share one list object" % (seen[id(lst)], k))
            seen.setdefault(id(lst), k)
            if id(lst) in own:
                bad.append("%s: the cached list is %s.member_data_items_ itself" % (k, own[id(lst)]))
    return bad[:10]


def str_ok(o):
    try:
        str(o)
        return True
    except Exception:  # noqa
        return False


def classify(e):
    msg = str(e)
    if type(e) is Exception:
        m = re.match(r"A member object of (\S+) type could not be found in NeuroML class (\S+)\.", msg)
        if m:
            return [1, [m.group(1), m.group(2)]]
        if msg.startswith("Multiple members can accept"):
            return [2, re.findall(r"^- (\S+)$", msg, re.M)]
        if msg.startswith("Hint "):
            return [3, re.findall(r"^- (\S+)$", msg, re.M)]
        return [98, [msg[:80]]]
    if isinstance(e, ValueError):
        if msg.startswith("Validation failed"):
            return [4, []]
        m = re.match(r"'(.*)' is not a permitted argument", msg)
        if m:
            return [5, [m.group(1)]]
        return [6, []]
    if isinstance(e, KeyError):
        return [8, [str(e.args[0])]]
    if isinstance(e, AttributeError) and "has no attribute" in msg and msg.startswith("module "):
        return [7, []]
    if isinstance(e, (AttributeError, TypeError)):
        return [9, []]
    return [99, [type(e).__name__]]


class LogCount(logging.Handler):
    def __init__(self):
        super().__init__()
        self.msgs = []

    def emit(self, record):
        self.msgs.append(record.getMessage())


def parse_warning(w):
    msg = str(w.message)
    m = re.match(r"(\S+) has already been assigned", msg)
    if m:
        return [1, m.group(1)]
    m = re.search(r" already exists in (\S+)\. Use `force=True`", msg)
    if m:
        return [2, m.group(1)]
    return [9, msg[:60]]


def shallow(o):
    return {k: (id(v) if not isinstance(v, (str, int, float, bool, type(None))) else repr(v)) for k, v in vars(o).items()}


def touch(o, methods):
    """call read-only helpers ([name, [args]]) on o, exceptions swallowed; report what each left in the instance dictionary"""
    left = []
    for name, args in methods:
        f = getattr(o, name, None)
        if f is None:
            continue
        d0 = shallow(o)
        try:
            with warnings.catch_warnings():
                warnings.simplefilter("ignore")
                f(*args)
        except BaseException:  # noqa
            pass
        d1 = shallow(o)
        diff = sorted(k for k in set(d0) | set(d1) if d0.get(k, "<absent>") != d1.get(k, "<absent>"))
        if diff:
            left.append([type(o).__name__, name, diff])
    return left


def filters_diff(f0):
    f1 = list(warnings.filters)
    if f1 == f0:
        return None
    return [repr(x)[:120] for x in f1 if x not in f0][:3] + ["removed: " + repr(x)[:100] for x in f0 if x not in f1][:3]


def run_pre(steps):
    """things the program does between the adds: components made through the factories (on a scratch document); reports
    whether they left warnings.filters (process-global state) changed"""
    import neuroml.utils
    f0 = list(warnings.filters)
    for st in steps:
        arg = st["cls"] if st.get("form", "str") == "str" else getattr(nml, st["cls"])
        kw = {k: conv(v) for k, v in st.get("kw", [])}
        try:
            if st["how"] == "add":
                nml.NeuroMLDocument(id="scratch").add(arg, validate=False, **kw)
            elif st["how"] == "utils":
                neuroml.utils.component_factory(arg, False, **kw)
            else:
                nml.NeuroMLDocument.component_factory(arg, validate=False, **kw)
        except Exception:  # noqa
            pass
    return filters_diff(f0)


def run_call(parent, call, objs, real_stdout, scoped=None):
    """one add() call; objs = components handed to earlier calls of this case (for re-adding the same object);
    scoped = the record list of a catch_warnings scope entered before the whole history (then no filter is installed here)"""
    r = {}
    if call.get("pre"):
        d = run_pre(call["pre"])
        if d is not None:
            r["pre_filters_changed"] = d
    ch = call["child"]
    kwargs = {}
    child = None
    if ch["kind"] == "obj":
        child = construct(ch["tree"])
    elif ch["kind"] == "same":
        child = objs[ch["index"]]
    elif ch["kind"] == "falsy":
        child = ch["value"]
    elif ch["kind"] == "cls":
        cls = getattr(nml, ch["cls"], None)
        kwargs = {k: conv(v) for k, v in ch["kw"]}
        child = ch["cls"] if ch["form"] == "str" else cls
        # oracle for the model's abstract parts: the component made the way the factory makes it, judged in a fresh
        # process (computed by main() before anything was validated here)
        o = call.get("_oracle") or {}
        if "fresh_error" in o or not o:
            r["vchild"] = False
        else:
            r["vchild"] = o["vchild"]
            r["str_ok"] = o["str_ok"]
            if "cell" in o:
                r["cell"] = o["cell"]
    objs.append(child)
    if ch["kind"] in ("obj", "same"):
        r["child"] = dump(child)
        # whether str() works is asked of a COPY: the harness itself must not put the child through a read-only helper
        if ch["kind"] == "obj":
            try:
                STR_OK[id(child)] = str_ok(construct(ch["tree"]))
            except Exception:  # noqa
                STR_OK[id(child)] = False
        r["str_ok"] = STR_OK.get(id(child), True)
    # read-only helpers called by the user between the adds: on the new child and / or on the components already stored
    left = []
    if call.get("touch") and ch["kind"] in ("obj", "same"):
        left += touch(child, call["touch"])
    if call.get("touch_stored"):
        for v in list(vars(parent).values()):
            for o in (v if isinstance(v, list) else [v]):
                if hasattr(o, "member_data_items_"):
                    left += touch(o, call["touch_stored"])
    if left:
        r["touch_left"] = left
    before = dump(parent)
    ids_before = idvec(parent)
    held_before = holds(parent, child) if ch["kind"] in ("obj", "same") else []
    handler = LogCount()
    lg = logging.getLogger("neuroml.nml.generatedssupersuper")
    lg.addHandler(handler)
    sw = btv.ENABLED
    ret = None
    cm = None
    if scoped is None:
        cm = warnings.catch_warnings(record=True)
        ws = cm.__enter__()
        warnings.simplefilter("always")
    else:
        n0 = len(scoped)
    f0 = list(warnings.filters)
    try:
        try:
            conv_ = call.get("conv", "kw")
            if conv_ == "pos":
                ret = parent.add(child, call["hint"], call["force"], call["validate"], **kwargs)
            elif conv_.startswith("alias:"):
                ret = parent.add(child, hint=call["hint"], validate=call["validate"], **{conv_.split(":", 1)[1]: call["force"]}, **kwargs)
            else:
                ret = parent.add(child, hint=call["hint"], force=call["force"], validate=call["validate"], **kwargs)
            r["code"] = [20 if ret is None else 0, []]
        except BaseException as e:  # noqa
            r["code"] = classify(e)
            tb, in_str = e.__traceback__, False
            while tb is not None:
                in_str = in_str or tb.tb_frame.f_code.co_name == "__str__"
                tb = tb.tb_next
            if in_str:
                r["code"] = [10, []]   # raised by the child's __str__ while the duplicate warning was formatted
            r["exc"] = type(e).__name__ + ": " + str(e)[:160]
    finally:
        d = filters_diff(f0)        # add() must leave the process-wide warning filters alone
        if d is not None:
            r["filters_changed"] = d
        if cm is not None:
            cm.__exit__(None, None, None)
        else:
            ws = scoped[n0:]
    lg.removeHandler(handler)
    r["switch_unchanged"] = btv.ENABLED == sw
    r["warn"] = [parse_warning(w) for w in ws]
    r["disabled"] = sum(1 for m in handler.msgs if m == "Build time validation is disabled.")
    after = dump(parent)
    ids_after = idvec(parent)
    changed = sorted(set(n for (n, a), (_, b) in zip(before["fields"], after["fields"]) if a != b)
                     | set(k for k in set(ids_before) | set(ids_after) if ids_before.get(k) != ids_after.get(k)))
    r["changed"] = changed
    r["parent_after"] = after if changed else None
    r["changed_fields"] = [[n, b] for (n, a), (_, b) in zip(before["fields"], after["fields"]) if a != b]
    if ret is not None:
        r["ret"] = dump(ret) if hasattr(ret, "member_data_items_") else {"cls": type(ret).__name__, "fields": []}
        r["ret_is_child"] = ret is child
        r["holds_ret"] = holds(parent, ret)
    r["held_before"] = held_before
    r["holds_child"] = holds(parent, child) if ch["kind"] in ("obj", "same") else []
    r["vparent"] = is_valid(parent)
    return r


def main():
    global ORDER
    P = json.load(sys.stdin)
    ORDER.update(P["order"])
    real_stdout = sys.stdout
    sys.stdout = io.StringIO()
    res = []
    initial = btv.ENABLED
    attrs0 = class_attr_snapshot()
    for case in P["cases"]:      # fresh-process oracles first, while this process is pristine
        for call in case["calls"]:
            if call["child"]["kind"] == "cls" and hasattr(nml, call["child"]["cls"]):
                call["_oracle"] = class_oracle(call["child"]["cls"], call["child"]["kw"])
    try:
        for case in P["cases"]:
            out = {"calls": []}
            try:
                (neuroml.enable_build_time_validation if case["enabled"] else neuroml.disable_build_time_validation)()
                parent = construct(case["parent"])
                out["parent"] = dump(parent)
                objs = []
                if case.get("one_warning_scope"):
                    # the warnings of the whole history are recorded in ONE scope entered before it, the "always" filter set once:
                    # a filter that a call leaves behind acts on the calls after it, as it would in a user's program
                    with warnings.catch_warnings(record=True) as rec:
                        warnings.simplefilter("always")
                        for call in case["calls"]:
                            sys.stdout = io.StringIO()
                            out["calls"].append(run_call(parent, call, objs, real_stdout, scoped=rec))
                else:
                    for call in case["calls"]:
                        sys.stdout = io.StringIO()
                        out["calls"].append(run_call(parent, call, objs, real_stdout))
            except Exception as e:  # noqa
                import traceback
                out["harness_error"] = type(e).__name__ + ": " + str(e)[:300] + " @ " + traceback.format_exc()[-600:]
            finally:
                btv.ENABLED = initial
            res.append(out)
    finally:
        sys.stdout = real_stdout
    print(json.dumps({"results": res, "new_class_attrs": class_attr_diff(attrs0)}))


if __name__ == "__main__":
    main()
