"""C14: run the REAL Cell.get_all_segments_in_group / optimise_segment_groups on generated cells.

stdin : {"cases": [{"segs": [int], "groups": [{"id": str, "members": [int], "includes": [str], "nlex": str|None}]}]}
stdout: last line = {"results": [{"resolved": [...], "all": ..., "opt": ..., "resolved_after": [...], "opt2": ...}]}
A query result is a list of ids or {"err": "NoGroup"|"NoSuchGroup"|"Recursion"|"Other:<type>"}.
A group dump is {"id","members","includes","nlex"}.
"""
import contextlib
import io
import json
import logging
import sys
import warnings

warnings.simplefilter("ignore")
logging.disable(logging.CRITICAL)
sys.setrecursionlimit(3000)

import neuroml  # noqa: E402


def build(case):
    cell = neuroml.Cell(id="c")
    morph = neuroml.Morphology(id="m")
    cell.morphology = morph
    prev = None
    for sid in case["segs"]:
        seg = neuroml.Segment(id=sid, distal=neuroml.Point3DWithDiam(x=0, y=0, z=0, diameter=1))
        if prev is None:
            seg.proximal = neuroml.Point3DWithDiam(x=0, y=0, z=0, diameter=1)
        else:
            seg.parent = neuroml.SegmentParent(segments=prev)
        prev = sid
        morph.segments.append(seg)
    for g in case["groups"]:
        sg = neuroml.SegmentGroup(id=g["id"], neuro_lex_id=g.get("nlex"))
        for m in g["members"]:
            sg.members.append(neuroml.Member(segments=m))
        for i in g["includes"]:
            sg.includes.append(neuroml.Include(segment_groups=i))
        morph.segment_groups.append(sg)
    return cell


def classify(e):
    if isinstance(e, RecursionError):
        return {"err": "Recursion"}
    if isinstance(e, ValueError) and "not found in cell" in str(e):
        return {"err": "NoSuchGroup"}
    if type(e) is Exception and str(e).startswith("No segment group"):
        return {"err": "NoGroup"}
    return {"err": "Other:%s:%s" % (type(e).__name__, str(e)[:80])}


def query(cell, gid):
    try:
        return [int(x) for x in cell.get_all_segments_in_group(gid)]
    except BaseException as e:  # noqa
        return classify(e)


def dump_groups(cell):
    return [{"id": g.id, "members": [m.segments for m in g.members],
             "includes": [i.segment_groups for i in g.includes], "nlex": g.neuro_lex_id}
            for g in cell.morphology.segment_groups]


def optimise(cell):
    try:
        cell.optimise_segment_groups()
        return dump_groups(cell)
    except BaseException as e:  # noqa
        return classify(e)


def run_case(case):
    cell = build(case)
    ids = [g["id"] for g in case["groups"]]
    out = {"resolved": [query(cell, i) for i in ids], "all": query(cell, "all")}
    out["opt"] = optimise(cell)
    if isinstance(out["opt"], list):
        out["resolved_after"] = [query(cell, i) for i in ids]
        out["all_after"] = query(cell, "all")
        out["opt2"] = optimise(cell)
    else:
        out["resolved_after"] = []
        out["all_after"] = None
        out["opt2"] = out["opt"]
    return out


def main():
    payload = json.load(sys.stdin)
    res = []
    sink = io.StringIO()
    with contextlib.redirect_stdout(sink):
        for c in payload["cases"]:
            res.append(run_case(c))
    print(json.dumps({"results": res}))


if __name__ == "__main__":
    main()
