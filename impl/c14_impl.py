"""C14: run the REAL Cell.get_all_segments_in_group / optimise_segment_groups on generated cells.

stdin : {"cases": [{"segs": [int], "groups": [{"id": str, "members": [int], "includes": [str], "nlex": str|None}]}]}
        optional "histories": [{"segs", "groups", "steps": [{"do": "optimise_all"|"optimise_one"|"move_member"|...}]}]
stdout: last line = {"results": [{"resolved": [...], "all": ..., "opt": ..., "resolved_after": [...], "opt2": ...}],
                     "histories": [[{"before": obs, "after": obs|err, "fresh": obs|err, "new_attributes": [...]}]]}
A query result is a list of ids or {"err": "NoGroup"|"NoSuchGroup"|"Recursion"|"Other:<type>"}.
A group dump is {"id","members","includes","nlex"}.
"""
import contextlib
import io
import json
import logging
import sys
import warnings

warnings.simplefilter("ignore")
logging.disable(logging.CRITICAL)
sys.setrecursionlimit(3000)

import neuroml  # noqa: E402


def build(case):
    cell = neuroml.Cell(id="c")
    morph = neuroml.Morphology(id="m")
    cell.morphology = morph
    prev = None
    for sid in case["segs"]:
        seg = neuroml.Segment(id=sid, distal=neuroml.Point3DWithDiam(x=0, y=0, z=0, diameter=1))
        if prev is None:
            seg.proximal = neuroml.Point3DWithDiam(x=0, y=0, z=0, diameter=1)
        else:
            seg.parent = neuroml.SegmentParent(segments=prev)
        prev = sid
        morph.segments.append(seg)
    for g in case["groups"]:
        sg = neuroml.SegmentGroup(id=g["id"], neuro_lex_id=g.get("nlex"))
        for m in g["members"]:
            sg.members.append(neuroml.Member(segments=m))
        for i in g["includes"]:
            sg.includes.append(neuroml.Include(segment_groups=i))
        morph.segment_groups.append(sg)
    # groups that hold ONE Python list object as their members / includes (b.members = a.members): the rows are equal,
    # the objects are the same
    for sh in case.get("shares", []):
        a, b = morph.segment_groups[sh["from"]], morph.segment_groups[sh["to"]]
        if sh["kind"] == "members":
            b.members = a.members
        else:
            b.includes = a.includes
    return cell


def other_cell(cell, idxs):
    """a second cell whose groups hold the very members lists of groups of `cell`"""
    oc = neuroml.Cell(id="other")
    oc.morphology = neuroml.Morphology(id="om")
    for k, i in enumerate(idxs):
        g = cell.morphology.segment_groups[i]
        oc.morphology.segment_groups.append(neuroml.SegmentGroup(id="o%d" % k, members=g.members))
    return oc


def ordered(cell, gid):
    """get_ordered_segments_in_groups([gid]) in its four forms: the ids listed, how many cumulative lengths, the keys of
    the two path-length tables"""
    try:
        plain = cell.get_ordered_segments_in_groups([gid])
        r = {"ids": [int(s.id) for s in plain[gid]]}
        o2, cum = cell.get_ordered_segments_in_groups([gid], include_cumulative_lengths=True)
        r["ids_cum"] = [int(s.id) for s in o2[gid]]
        r["n_cum"] = len(cum[gid])
        o3, pp, pd = cell.get_ordered_segments_in_groups([gid], include_path_lengths=True)
        r["ids_path"] = [int(s.id) for s in o3[gid]]
        r["path_keys"] = sorted(int(k) for k in pd[gid])
        o4, cum4, pp4, pd4 = cell.get_ordered_segments_in_groups(gid, include_cumulative_lengths=True, include_path_lengths=True)
        r["ids_both"] = [int(s.id) for s in o4[gid]]
        r["n_cum_both"] = len(cum4[gid])
        return r
    except BaseException as e:  # noqa
        return classify(e)


def classify(e):
    if isinstance(e, RecursionError):
        return {"err": "Recursion"}
    if isinstance(e, ValueError) and "not found in cell" in str(e):
        return {"err": "NoSuchGroup"}
    if type(e) is Exception and str(e).startswith("No segment group"):
        return {"err": "NoGroup"}
    return {"err": "Other:%s:%s" % (type(e).__name__, str(e)[:80])}


def query(cell, gid):
    try:
        return [int(x) for x in cell.get_all_segments_in_group(gid)]
    except BaseException as e:  # noqa
        return classify(e)


def dump_groups(cell):
    return [{"id": g.id, "members": [m.segments for m in g.members],
             "includes": [i.segment_groups for i in g.includes], "nlex": g.neuro_lex_id}
            for g in cell.morphology.segment_groups]


def optimise(cell):
    try:
        cell.optimise_segment_groups()
        return dump_groups(cell)
    except BaseException as e:  # noqa
        return classify(e)


def via_file(cell):
    """the same cell after NeuroMLWriter.write / read_neuroml2_file (components then carry their XML node)"""
    import os
    import tempfile
    import neuroml.loaders
    import neuroml.writers
    doc = neuroml.NeuroMLDocument(id="d")
    doc.cells.append(cell)
    fd, path = tempfile.mkstemp(suffix=".nml")
    os.close(fd)
    try:
        neuroml.writers.NeuroMLWriter.write(doc, path)
        return neuroml.loaders.read_neuroml2_file(path).cells[0]
    finally:
        os.unlink(path)


def run_case(case):
    cell = build(case)
    if case.get("via_file"):
        cell = via_file(cell)
    ids = [g["id"] for g in case["groups"]]
    oc = other_cell(cell, case["other_cell"]) if case.get("other_cell") else None
    out = {"resolved": [query(cell, i) for i in ids], "all": query(cell, "all")}
    if case.get("ordered"):
        out["ordered"] = [ordered(cell, i) for i in ids]
    if oc is not None:
        out["other_before"] = dump_groups(oc)
    if case.get("optimise_one") is not None:
        # a single group first (what it does to the groups that share a list with it), then the whole pass
        try:
            cell.optimise_segment_group(case["optimise_one"])
            out["after_one"] = dump_groups(cell)
        except BaseException as e:  # noqa
            out["after_one"] = classify(e)
    out["opt"] = optimise(cell)
    if oc is not None:
        out["other_after"] = dump_groups(oc)
    if isinstance(out["opt"], list):
        out["resolved_after"] = [query(cell, i) for i in ids]
        out["all_after"] = query(cell, "all")
        if case.get("ordered"):
            out["ordered_after"] = [ordered(cell, i) for i in ids]
        out["opt2"] = optimise(cell)
    else:
        out["resolved_after"] = []
        out["all_after"] = None
        out["opt2"] = out["opt"]
    return out


# ---------------------------------------------------------------- histories on one Cell object
def find(cell, gid):
    for g in cell.morphology.segment_groups:
        if g.id == gid:
            return g
    return None


def apply_step(cell, st):
    """edits are what user code does to the generated objects; optimising calls are the real methods"""
    k = st["do"]
    if k == "optimise_all":
        cell.optimise_segment_groups()
    elif k == "optimise_one":
        cell.optimise_segment_group(st["id"])
    elif k == "move_member":
        a, b = find(cell, st["from"]), find(cell, st["to"])
        a.members = [m for m in a.members if m.segments != st["seg"]]
        b.members.append(neuroml.Member(segments=st["seg"]))
    elif k == "add_member":
        find(cell, st["id"]).members.append(neuroml.Member(segments=st["seg"]))
    elif k == "remove_member":
        g = find(cell, st["id"])
        g.members = [m for m in g.members if m.segments != st["seg"]]
    elif k == "add_include":
        find(cell, st["id"]).includes.append(neuroml.Include(segment_groups=st["inc"]))
    elif k == "remove_include":
        g = find(cell, st["id"])
        g.includes = [i for i in g.includes if i.segment_groups != st["inc"]]
    elif k == "share_members":
        find(cell, st["to"]).members = find(cell, st["from"]).members
    elif k == "share_includes":
        find(cell, st["to"]).includes = find(cell, st["from"]).includes
    elif k == "add_group":
        sg = neuroml.SegmentGroup(id=st["id"])
        for m in st["members"]:
            sg.members.append(neuroml.Member(segments=m))
        for i in st["includes"]:
            sg.includes.append(neuroml.Include(segment_groups=i))
        cell.morphology.segment_groups.append(sg)
    else:
        raise RuntimeError("bad step")


def observe(cell):
    groups = dump_groups(cell)
    return {"groups": groups, "resolved": [query(cell, g["id"]) for g in groups], "all": query(cell, "all")}


def run_history(h):
    cell = build(h)
    keys0 = sorted(vars(cell).keys())
    mkeys0 = sorted(vars(cell.morphology).keys())
    out = []
    cur = observe(cell)
    for st in h["steps"]:
        rec = {"before": cur}
        is_opt = st["do"] in ("optimise_all", "optimise_one")
        try:
            apply_step(cell, st)
            rec["after"] = observe(cell)
        except BaseException as e:  # noqa
            rec["after"] = classify(e)
            out.append(rec)
            break
        if is_opt:
            # the same call on a freshly built cell that equals the history cell as it was before the call
            fresh = build({"segs": h["segs"], "groups": cur["groups"]})
            try:
                apply_step(fresh, st)
                rec["fresh"] = observe(fresh)
            except BaseException as e:  # noqa
                rec["fresh"] = classify(e)
            rec["new_attributes"] = sorted((set(vars(cell).keys()) - set(keys0))
                                           | (set(vars(cell.morphology).keys()) - set(mkeys0)))
        cur = rec["after"]
        out.append(rec)
    return out


def sort_probe(ids):
    """natsort exactly as optimise_segment_group uses it, on Include / Member objects"""
    import natsort
    if ids and isinstance(ids[0], int):
        objs = [neuroml.Member(segments=i) for i in ids]
        once = natsort.natsorted(objs, key=lambda x: x.segments)
        twice = natsort.natsorted(once, key=lambda x: x.segments)
        return {"once": [o.segments for o in once], "twice": [o.segments for o in twice]}
    objs = [neuroml.Include(segment_groups=i) for i in ids]
    once = natsort.natsorted(objs, key=lambda x: x.segment_groups)
    twice = natsort.natsorted(once, key=lambda x: x.segment_groups)
    return {"once": [o.segment_groups for o in once], "twice": [o.segment_groups for o in twice]}


def main():
    payload = json.load(sys.stdin)
    res, hres = [], []
    sink = io.StringIO()
    with contextlib.redirect_stdout(sink):
        for c in payload.get("cases", []):
            res.append(run_case(c))
        for h in payload.get("histories", []):
            hres.append(run_history(h))
    print(json.dumps({"results": res, "histories": hres, "sorts": [sort_probe(l) for l in payload.get("sorts", [])]}))


if __name__ == "__main__":
    main()
