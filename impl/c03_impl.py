"""Runs the REAL libNeuroML validation machinery on generated component trees (shared by checks/c02.py and c03.py).

stdin: {"order": {cls: [field names]}, "cases": [case..], "want": [...]}       stdout (last line): {"results": [...]}
case = {"tree": keyword tree, "tag": element name for a single-component export, "doc": bool (root is a document ->
        NeuroMLWriter + is_valid_neuroml2 as well), "post": [[path, member, value]] assignments made after
        construction (path = list of [member, index|null] steps from the root)}
result keys:
  obj            dump of the constructed tree (all fields)
  rec / nonrec   {"raised": exception type name | null, "msgs": [[class, kind, member|null]..]} for
                 validate(recursive=True) / validate()
  text           what the writer produced (component.export(name_=tag, namespacedef_=<writer's>) or NeuroMLWriter.write)
  xml            lxml's infoset of it, as [tag, [[attr, value]..], text, [kids]] (xsi:* attributes dropped)
  lx             libxml2 verdict on the text against the bundled XSD (plus one probe element per complex type)
  file_valid     is_valid_neuroml2(written file): true / false / "raised:<Type>"
"""
import io
import json
import os
import re
import shutil
import sys
import tempfile

from lxml import etree

XS = "{http://www.w3.org/2001/XMLSchema}"
XSI = "http://www.w3.org/2001/XMLSchema-instance"


def nml():
    import neuroml.nml.nml as m
    return m


BUILD = ["ctor"]      # how construct() creates components: the constructors, or one of the public factory paths
BUILD_MODES = ("ctor", "utils-factory-str", "utils-factory-class", "class-factory", "parent-add", "shared-objects")


_SHARED = {"active": False, "memo": {}}


def canon_tree(t):
    return [t["cls"], sorted([n, (v if not is_comp(v) else [canon_tree(x) for x in (v["l"] if "l" in v else [v["o"]])])]
                             for n, v in t["kw"] if v is not None)]


def is_comp(v):
    return v is not None and ("o" in v or "l" in v)


def construct(tree):
    """the component tree of a keyword tree.  BUILD[0]:
       ctor                  Class(**kwargs)
       utils-factory-str     neuroml.utils.component_factory("Class", **kwargs)           (validate=True, the default)
       utils-factory-class   neuroml.utils.component_factory(Class, **kwargs)
       class-factory         Class.component_factory("Class", **kwargs)
       parent-add            parent.add("Class", hint=<member>, **scalar kwargs), children added the same way
    (the exact class Cell is always built by its constructor: the factories run setup_nml_cell() on it, which adds
    default groups by design)"""
    mode = BUILD[0]
    cls = getattr(nml(), tree["cls"])
    if mode == "shared-objects":
        # equal subtrees are ONE python object held at several positions (a DAG): same values, same XML
        top = not _SHARED["active"]
        if top:
            _SHARED["active"], _SHARED["memo"] = True, {}
        try:
            key = json.dumps(canon_tree(tree))
            if key not in _SHARED["memo"]:
                _SHARED["memo"][key] = cls(**{name: conv(v) for name, v in tree["kw"]})
            return _SHARED["memo"][key]
        finally:
            if top:
                _SHARED["active"] = False
    if mode.startswith("children-as:"):
        kw = {}
        for name, v in tree["kw"]:
            kw[name] = conv(v)
            if v is not None and "l" in v and v["l"]:
                kw[name] = children_as(mode.split(":")[1], kw[name])
        return cls(**kw)
    if mode == "ctor" or tree["cls"] == "Cell":
        kw = {}
        for name, v in tree["kw"]:
            kw[name] = conv(v)
        return cls(**kw)
    if mode == "parent-add":
        import neuroml.utils
        o = neuroml.utils.component_factory(tree["cls"], validate=False, **{k: conv(v) for k, v in tree["kw"] if not is_comp(v)})
        fill_by_add(o, tree)
        return o
    kw = {name: conv(v) for name, v in tree["kw"]}
    if mode == "utils-factory-str":
        import neuroml.utils
        return neuroml.utils.component_factory(tree["cls"], **kw)
    if mode == "utils-factory-class":
        import neuroml.utils
        return neuroml.utils.component_factory(cls, **kw)
    if mode == "class-factory":
        return cls.component_factory(tree["cls"], **kw)
    raise ValueError(mode)


def accepts(o, member, cls_name):
    """add() finds its target by comparing the MemberSpec's type name with the class name; a few members are declared
    with another name than the class that is built for them (LEMS_Property ...): add() has no target for those"""
    return any(m.get_name() == member and m.get_data_type() == cls_name for m in o._get_members())


def fill_by_add(o, tree):
    kids = []
    for name, v in tree["kw"]:
        if is_comp(v):
            kids += [(name, k) for k in (v["l"] if "l" in v else [v["o"]])]
    seen = []
    for i, (member, k) in enumerate(kids):
        leaf = not any(is_comp(v) for _, v in k["kw"])
        # build-time validation of the child and of the parent when both are complete (last child, itself childless)
        val = leaf and i == len(kids) - 1
        # add() refuses a sibling equal to one already in the list unless forced; at the time of the add only the scalar
        # members of the new child exist, so siblings with equal scalars are forced
        key = json.dumps([member, k["cls"], sorted([n, v] for n, v in k["kw"] if v is not None and not is_comp(v))])
        force = key in seen
        seen.append(key)
        if not accepts(o, member, k["cls"]):
            BUILD[0] = "class-factory"
            try:
                ko = construct(k)
            finally:
                BUILD[0] = "parent-add"
            v = getattr(o, member)
            v.append(ko) if isinstance(v, list) else setattr(o, member, ko)
            continue
        if k["cls"] == "Cell":
            o.add(construct(k), hint=member, validate=False, force=force)
            continue
        ko = o.add(k["cls"], hint=member, validate=val, force=force, **{n: conv(v) for n, v in k["kw"] if not is_comp(v)})
        fill_by_add(ko, k)


def number_form(form, text):
    """the number written `text`, as a value of another numeric python type"""
    import decimal
    import fractions
    import numpy
    if form == "int":
        return int(float(text))
    if form == "numpy.int64":
        return numpy.int64(int(float(text)))
    if form in ("numpy.float32", "numpy.float16", "numpy.float64"):
        return getattr(numpy, form.split(".")[1])(float(text))
    if form == "Decimal":
        return decimal.Decimal(text)
    if form == "Fraction":
        return fractions.Fraction(float(text))
    raise ValueError(form)


def children_as(form, kids):
    """a list of children handed over in another container / as a one-shot iterable"""
    if form == "tuple":
        return tuple(kids)
    if form == "generator":
        return (k for k in kids)
    if form == "iter":
        return iter(kids)
    if form == "map":
        return map(lambda k: k, kids)
    if form == "numpy-object-array":
        import numpy
        a = numpy.empty(len(kids), dtype=object)
        for i, k in enumerate(kids):
            a[i] = k
        return a
    raise ValueError(form)


def conv(v):
    if v is None:
        return None
    if "num" in v:
        return number_form(v["num"]["form"], v["num"]["v"])
    if "s" in v:
        return v["s"]
    if "i" in v:
        return v["i"]
    if "f" in v:
        return float(v["f"])
    if "o" in v:
        return construct(v["o"])
    if "l" in v:
        return [construct(x) for x in v["l"]]
    raise ValueError(v)


def fstr(x):
    r = repr(x)
    if "e" in r or "E" in r or "n" in r:
        return "!" + r
    return r


def dump(o, order):
    cname = type(o).__name__
    out = []
    for name in order[cname]:
        v = getattr(o, name)
        if name == "anytypeobjs_":
            out.append([name, {"raw": [str(x) for x in (v or [])]}])
        else:
            out.append([name, dval(v, order)])
    return {"cls": cname, "fields": out}


def dval(v, order):
    if v is None:
        return None
    if isinstance(v, bool):
        return {"s": str(v)}
    if isinstance(v, str):
        return {"s": v}
    if isinstance(v, int):
        return {"i": v}
    if isinstance(v, float):
        return {"f": fstr(v)}
    if isinstance(v, list):
        if all(hasattr(x, "member_data_items_") for x in v):
            return {"l": [dump(x, order) for x in v]}
        return {"raw": [str(x) for x in v]}
    if hasattr(v, "member_data_items_"):
        return {"o": dump(v, order)}
    return {"raw": [repr(v)]}


KINDS = [
    ("is not of the correct base simple type (str)", "base_str"),
    ("is not of the correct base simple type (int)", "base_int"),
    ("is not of the correct base simple type (float)", "base_float"),
    ("does not match xsd enumeration restriction", "enum"),
    ("does not match xsd pattern restrictions", "pattern"),
    ("does not match xsd minInclusive restriction", "minInclusive"),
    ("does not match xsd minExclusive restriction", "minExclusive"),
    ("does not match xsd maxInclusive restriction", "maxInclusive"),
    ("does not match xsd maxExclusive restriction", "maxExclusive"),
    ("Requires integer value", "parse_integer"),
    ("Requires float value", "parse_float"),
    ("Requires double or float value", "parse_double"),
]
CARD = [(re.compile(r"Required value (\w+) is missing"), "required"),
        (re.compile(r"Number of values for (\w+) is below"), "below"),
        (re.compile(r"Number of values for (\w+) is above"), "above")]


def classify(msg):
    m = re.match(r"(\w+)", msg)
    cls = m.group(1) if m else "?"
    for rx, k in CARD:
        mm = rx.search(msg)
        if mm:
            return [cls, k, mm.group(1)]
    for text, k in KINDS:
        if text in msg:
            return [cls, k, None]
    return [cls, "other:" + msg[:80], None]


_REC = {}


def install_recorder():
    """validate() creates its collector from the module global GdsCollector: record the instance to read the
    messages as a list (the ValueError text is only parsed as a fall-back)"""
    import neuroml.nml.generatedssupersuper as gss

    class Rec(gss.GdsCollector):
        def __init__(self, *a, **k):
            super().__init__(*a, **k)
            _REC["last"] = self
    gss.GdsCollector = Rec


def run_validate(o, recursive):
    _REC.pop("last", None)
    try:
        o.validate(recursive=recursive) if recursive else o.validate()
        out = {"raised": None, "msgs": []}
    except ValueError as e:
        out = {"raised": "ValueError", "msgs": [classify(l) for l in str(e).split("\n- ")[1:]], "text": str(e)[:600]}
    except Exception as e:  # noqa
        return {"raised": type(e).__name__, "msgs": [], "text": str(e)[:300]}
    if "last" in _REC:
        out["msgs"] = [classify(m) for m in _REC["last"].get_messages()]
    return out


_ND = {}


def writer_namespacedef():
    """the namespace definitions NeuroMLWriter.write puts on the root element: recorded from the real writer by handing
    it an object whose export() only notes the namespacedef_ it is given"""
    if "nd" not in _ND:
        from neuroml.writers import NeuroMLWriter

        class Rec(object):
            def export(self, outfile, level, name_=None, namespacedef_="", **kw):
                _ND["nd"] = namespacedef_
                _ND["name"] = name_
        NeuroMLWriter.write(Rec(), io.StringIO(), close=False)
    return _ND["nd"]


_SCHEMA = {}


def probe_schema():
    """the bundled XSD of the current version plus  <xs:element name="probe_T" type="T"/>  for every complex type"""
    if "s" not in _SCHEMA:
        import neuroml
        path = os.path.join(os.path.dirname(neuroml.__file__), "nml", "NeuroML_%s.xsd" % neuroml.current_neuroml_version)
        doc = etree.parse(path)
        root = doc.getroot()
        for ct in root.findall(XS + "complexType"):
            e = etree.SubElement(root, XS + "element")
            e.set("name", "probe_" + ct.get("name"))
            e.set("type", ct.get("name"))
        _SCHEMA["s"] = etree.XMLSchema(doc)
        _SCHEMA["path"] = path
    return _SCHEMA["s"]


def lx_validate_text(text):
    try:
        node = etree.fromstring(text.encode("utf-8"))
    except Exception as e:  # noqa
        return {"wellformed": False, "valid": False, "err": str(e)[:200]}, None
    s = probe_schema()
    ok = s.validate(node)
    return {"wellformed": True, "valid": bool(ok), "err": None if ok else str(s.error_log.last_error)[:300]}, node


def xml_json(el):
    kids = [xml_json(k) for k in el if isinstance(k.tag, str)]
    tag = etree.QName(el).localname
    text = "" if kids else (el.text or "")
    attrs = []
    for k, v in el.attrib.items():
        q = etree.QName(k)
        if q.namespace == XSI:
            continue
        attrs.append([q.localname, v])
    return [tag, attrs, text, kids]


def sub(o, path):
    for member, idx in path:
        o = getattr(o, member)
        if idx is not None:
            o = o[idx]
    return o


def writer_entry_points(o, tmp, ref_text):
    """every public way of writing a document must leave the bytes NeuroMLWriter.write(doc, <path>) leaves"""
    from neuroml.writers import NeuroMLWriter
    mism = []
    keep = []                       # the caller still holds its handles when the files are read
    try:
        fn = os.path.join(tmp, "entry_default_close.nml")
        fh = open(fn, "w")
        keep.append(fh)
        NeuroMLWriter.write(o, fh)                  # documented default: close=True
        got = open(fn).read()
        if got != ref_text:
            mism.append(["open file object, default close=True", "file holds %d characters of the %d written through a path; well-formed: %s" % (
                len(got), len(ref_text), lx_validate_text(got)[0]["wellformed"])])
    except Exception as e:  # noqa
        mism.append(["open file object, default close=True", "raises " + type(e).__name__ + ": " + str(e)[:120]])
    try:
        fn = os.path.join(tmp, "entry_noclose.nml")
        fh = open(fn, "w")
        keep.append(fh)
        NeuroMLWriter.write(o, fh, close=False)
        if fh.closed:
            mism.append(["open file object, close=False", "the caller's handle was closed"])
        else:
            fh.close()
        got = open(fn).read()
        if got != ref_text:
            mism.append(["open file object, close=False (caller closes)", "file holds %d characters of %d; well-formed: %s" % (
                len(got), len(ref_text), lx_validate_text(got)[0]["wellformed"])])
    except Exception as e:  # noqa
        mism.append(["open file object, close=False", "raises " + type(e).__name__ + ": " + str(e)[:120]])
    try:
        f = io.StringIO()
        NeuroMLWriter.write(o, f, close=False)
        if f.getvalue() != ref_text:
            mism.append(["StringIO, close=False", "text differs from the path-written file"])
        f = io.StringIO()
        nd = writer_namespacedef()
        o.export(f, 0, name_=_ND.get("name") or "neuroml", namespacedef_=nd)
        if f.getvalue() != ref_text:
            mism.append(["component.export to a StringIO (writer's namespace definitions)", "text differs from the path-written file"])
    except Exception as e:  # noqa
        mism.append(["StringIO", "raises " + type(e).__name__ + ": " + str(e)[:120]])
    for fh in keep:
        try:
            fh.close()
        except Exception:  # noqa
            pass
    return mism


NMLNS = "http://www.neuroml.org/schema/neuroml2"


def prefixed_texts(text):
    """the written XML of a document, rewritten with namespace prefixes (same infoset): the whole document under one
    prefix; a locally declared prefix on every other empty inner element, two different prefixes in turn"""
    outs = []
    if "<annotation" in text:          # raw wildcard content keeps prefixes as text
        return outs
    root = etree.fromstring(text.encode("utf-8"))
    new = etree.Element(root.tag, nsmap=dict([("pfx", NMLNS)] + [(k, v) for k, v in root.nsmap.items() if k]))
    new.text = root.text
    for k, v in root.attrib.items():
        new.set(k, v)
    for ch in list(root):
        new.append(ch)
    etree.cleanup_namespaces(new)
    pt = etree.tostring(new, encoding="unicode")
    if "<pfx:" in pt:
        outs.append(("whole document under the prefix pfx", pt))
    cnt = [0]

    def loc(m):
        cnt[0] += 1
        if cnt[0] > 2 and cnt[0] % 3 == 0:
            return m.group(0)
        return '<q%d:%s xmlns:q%d="%s"%s/>' % (cnt[0] % 2, m.group(1), cnt[0] % 2, NMLNS, m.group(2))
    lt = re.sub(r"<([A-Za-z_][\w.-]*)((?:\s[^<>]*?)?)/>", loc, text)
    if cnt[0]:
        outs.append(("prefixes q0/q1 declared locally on inner empty elements (the root unprefixed)", lt))
    return outs


def prefixed_loaded(text, order, tmp, ref_dump):
    """build mode loaded-from-prefixed-text: trees obtained by LOADING prefixed text are conforming trees too: validate
    accepts them and the writer's output for them is well-formed and schema-valid"""
    from neuroml.loaders import NeuroMLLoader, read_neuroml2_string
    from neuroml.writers import NeuroMLWriter
    out = []
    for i, (label, pt) in enumerate(prefixed_texts(text)):
        v = {"variant": label}
        try:
            v["input_lx"], _ = lx_validate_text(pt)
            if i % 2 == 0:
                doc = read_neuroml2_string(pt)
                v["loader"] = "read_neuroml2_string"
            else:
                fn = os.path.join(tmp, "prefixed_in.nml")
                open(fn, "w").write(pt)
                doc = NeuroMLLoader.load(fn)
                v["loader"] = "NeuroMLLoader.load"
            v["same_tree"] = dump(doc, order) == ref_dump
            v["rec"] = run_validate(doc, True)
            fo = os.path.join(tmp, "prefixed_out.nml")
            NeuroMLWriter.write(doc, fo)
            wt = open(fo).read()
            v["lx"], _ = lx_validate_text(wt)
            if not v["lx"]["valid"]:
                v["written"] = wt[:1500]
                v["prefixed_text"] = pt[:1500]
        except BaseException as e:  # noqa
            v["err"] = type(e).__name__ + ": " + str(e)[:200]
        out.append(v)
    return out


def run_case(case, order, tmp, want):
    r = {}
    want = case.get("want", want)
    BUILD[0] = case.get("build", "ctor")
    try:
        o = construct(case["tree"])
        for path, member, value in case.get("post", []):
            setattr(sub(o, path), member, conv(value))
        r["obj"] = dump(o, order)
    except Exception as e:  # noqa
        r["obj_err"] = type(e).__name__ + ": " + str(e)[:200]
        return r
    finally:
        BUILD[0] = "ctor"
    if case.get("switch"):
        try:
            return run_case_checks(case, order, tmp, want, r, o)
        finally:
            import neuroml
            neuroml.enable_build_time_validation()
    return run_case_checks(case, order, tmp, want, r, o)


def switch(op):
    """the documented global switch for the validation done by component_factory()/add()"""
    import neuroml
    neuroml.disable_build_time_validation() if op == "disable" else neuroml.enable_build_time_validation()


def run_case_checks(case, order, tmp, want, r, o):
    for op in case.get("switch", []):
        switch(op)
    if "rec" in want:
        r["rec"] = run_validate(o, True)
    if "nonrec" in want:
        r["nonrec"] = run_validate(o, False)
    if "text" in want:
        try:
            f = io.StringIO()
            if case.get("doc"):
                from neuroml.writers import NeuroMLWriter
                NeuroMLWriter.write(o, f, close=False)
            else:
                o.export(f, 0, name_=case["tag"], namespacedef_=writer_namespacedef())
            text = f.getvalue()
            r["text"] = text if len(text) < 6000 else text[:6000]
            r["lx"], node = lx_validate_text(text)
            if node is not None and "xml" in want:
                r["xml"] = xml_json(node)
        except Exception as e:  # noqa
            r["text_err"] = type(e).__name__ + ": " + str(e)[:200]
    if "file" in want and case.get("doc"):
        fn = os.path.join(tmp, "case.nml")
        try:
            from neuroml.writers import NeuroMLWriter
            NeuroMLWriter.write(o, fn)
            ptxt = open(fn).read()
            r["path_lx"], _ = lx_validate_text(ptxt)
            r["entry_mismatch"] = writer_entry_points(o, tmp, ptxt)
            if "prefixed" in want and r["path_lx"]["valid"]:
                r["prefixed"] = prefixed_loaded(ptxt, order, tmp, r["obj"])
            from neuroml.utils import is_valid_neuroml2
            try:
                r["file_valid"] = bool(is_valid_neuroml2(fn))
            except Exception as e:  # noqa
                r["file_valid"] = "raised:" + type(e).__name__
            r["file_validate"] = call_validate_neuroml2(fn)
        except Exception as e:  # noqa
            r["file_err"] = type(e).__name__ + ": " + str(e)[:200]
    return r


def call_validate_neuroml2(fn):
    from neuroml.utils import validate_neuroml2
    try:
        validate_neuroml2(fn)
        return "no exception"
    except ValueError:
        return "ValueError"
    except BaseException as e:  # noqa
        return "raised:" + type(e).__name__


PADS = [("leading space", " %s"), ("trailing space", "%s "), ("trailing tab (&#9;)", "%s\t"), ("leading newline (&#10;)", "\n%s"),
        ("trailing literal newline (normalised to a space by the XML parser)", "%s\n")]


def padded_case(case, tmp):
    """a conforming document written by the real writer; then ONE attribute value of the file is padded with white space
    (nothing else changes); libxml2 against the bundled XSD is the oracle, the file wrappers must agree with it"""
    from neuroml import loaders
    from neuroml.utils import is_valid_neuroml2
    from neuroml.writers import NeuroMLWriter
    r = {"variants": []}
    try:
        fn = os.path.join(tmp, "padded_base.nml")
        NeuroMLWriter.write(construct(case["tree"]), fn)
        text = open(fn).read()
        r["base_lx"], root = lx_validate_text(text)
        if root is None or not r["base_lx"]["valid"]:
            return r
        r["base_is_valid"] = bool(is_valid_neuroml2(fn))
        host = None
        for e in root.iter():
            if isinstance(e.tag, str) and etree.QName(e).localname == case["tag"] and e.get(case["attr"]) == case["good"]:
                host = e
                break
        if host is None:
            r["err"] = "host element not found"
            return r
        for label, fmt in PADS:
            v = {"pad": label}
            host.set(case["attr"], fmt % case["good"])
            out = etree.tostring(root, xml_declaration=True, encoding="UTF-8").decode("utf-8")
            if "literal" in label:
                out = out.replace(case["good"] + "&#10;", case["good"] + "\n")
            v["lx"], _ = lx_validate_text(out)
            pf = os.path.join(tmp, "padded.nml")
            open(pf, "w").write(out)
            v["snippet"] = next((l.strip()[:200] for l in out.splitlines() if case["good"] in l and case["attr"] + "=" in l), "")
            try:
                v["is_valid"] = bool(is_valid_neuroml2(pf))
            except BaseException as e:  # noqa
                v["is_valid"] = "raised:" + type(e).__name__
            v["validate"] = call_validate_neuroml2(pf)
            try:
                doc = loaders.read_neuroml2_file(pf)
                v["loaded_rec"] = run_validate(doc, True)["raised"]
            except BaseException as e:  # noqa
                v["loaded_rec"] = "load raised:" + type(e).__name__
            r["variants"].append(v)
    except Exception as e:  # noqa
        r["err"] = type(e).__name__ + ": " + str(e)[:300]
    return r


def file_ops(d, ops, order):
    """run is_valid_neuroml2 / validate_neuroml2 / load on files of directory d, in this process, in the given order"""
    from neuroml.utils import is_valid_neuroml2, validate_neuroml2
    out = []
    install_recorder()
    for fn, name in ops:
        path = os.path.join(d, name)
        try:
            if fn == "switch":
                switch(name)
                out.append(None)
            elif fn == "is_valid":
                out.append(bool(is_valid_neuroml2(path)))
            elif fn == "validate":
                try:
                    validate_neuroml2(path)
                    out.append("no exception")
                except ValueError:
                    out.append("ValueError")
            elif fn == "load":
                from neuroml import loaders
                doc = loaders.read_neuroml2_file(path, include_includes=True, verbose=False, optimized=True, already_included=[])
                out.append({"obj": dump(doc, order), "rec": run_validate(doc, True), "nonrec": run_validate(doc, False)})
        except BaseException as e:  # noqa  (the loader calls sys.exit() on a missing file)
            out.append("raised:" + type(e).__name__)
    return out


def sub_ops(d, ops, order_file):
    """the same in a fresh python process"""
    import subprocess
    p = subprocess.run([sys.executable, os.path.abspath(__file__), "--ops", d, json.dumps(ops), order_file],
                       capture_output=True, text=True, timeout=300)
    lines = [l for l in p.stdout.splitlines() if l.startswith("@@")]
    if p.returncode != 0 or not lines:
        return ["subprocess failed: " + p.stderr[-300:]] * len(ops)
    return json.loads(lines[-1][2:])


def file_history(P):
    """verdicts of is_valid_neuroml2 / validate_neuroml2 over files with includes: sequences of calls in ONE process
    against the verdict each file gets in a fresh process (one fresh process per file: is_valid, validate, then the load
    whose dump feeds the model); all processes of all scenarios share one pool"""
    from concurrent.futures import ThreadPoolExecutor
    from neuroml.writers import NeuroMLWriter
    res, dirs, jobs = [], [], []
    try:
        for k, sc in enumerate(P["scenarios"]):
            d = tempfile.mkdtemp(prefix="verif_c03_files_")
            dirs.append(d)
            try:
                for name, tree in sc["files"].items():
                    NeuroMLWriter.write(construct(tree), os.path.join(d, name))
                json.dump(P["order"], open(os.path.join(d, "order.json"), "w"))
                res.append({"sequences": [None] * len(sc["sequences"]), "fresh": {}, "loaded": {}})
                jobs += [(k, "seq", i, seq) for i, seq in enumerate(sc["sequences"])]
                jobs += [(k, "fresh", f, [["is_valid", f], ["validate", f], ["load", f]]) for f in sorted(sc["files"])]
            except Exception as e:  # noqa
                res.append({"err": type(e).__name__ + ": " + str(e)[:300]})
        with ThreadPoolExecutor(max_workers=10) as ex:
            outs = list(ex.map(lambda j: sub_ops(dirs[j[0]], j[3], os.path.join(dirs[j[0]], "order.json")), jobs))
        for (k, kind, key, ops), o in zip(jobs, outs):
            r = res[k]
            if kind == "seq":
                r["sequences"][key] = [[fn, f, v] for (fn, f), v in zip(ops, o)]
            else:
                r["fresh"][key] = {"is_valid": o[0], "validate": o[1]}
                r["loaded"][key] = o[2]
    finally:
        for d in dirs:
            shutil.rmtree(d, ignore_errors=True)
    print(json.dumps({"results": res}))


def main():
    if len(sys.argv) > 1 and sys.argv[1] == "--ops":
        real_stdout = sys.stdout
        sys.stdout = io.StringIO()
        try:
            out = file_ops(sys.argv[2], json.loads(sys.argv[3]), json.load(open(sys.argv[4])))
        finally:
            sys.stdout = real_stdout
        print("@@" + json.dumps(out))
        return
    P = json.load(sys.stdin)
    if P.get("mode") == "filehistory":
        return file_history(P)
    if P.get("mode") == "padded":
        tmp = tempfile.mkdtemp(prefix="verif_c03_pad_")
        install_recorder()
        real_stdout = sys.stdout
        sys.stdout = io.StringIO()
        try:
            res = [padded_case(c, tmp) for c in P["cases"]]
        finally:
            sys.stdout = real_stdout
            shutil.rmtree(tmp, ignore_errors=True)
        print(json.dumps({"results": res}))
        return
    order = P["order"]
    want = P.get("want", ["rec", "nonrec"])
    tmp = tempfile.mkdtemp(prefix="verif_c03_")
    res = []
    install_recorder()
    # the library prints "It's valid!" etc.; keep stdout clean for the JSON line
    real_stdout = sys.stdout
    sys.stdout = io.StringIO()
    try:
        for case in P["cases"]:
            res.append(run_case(case, order, tmp, want))
    finally:
        sys.stdout = real_stdout
        shutil.rmtree(tmp, ignore_errors=True)
    print(json.dumps({"results": res}))


if __name__ == "__main__":
    main()
