"""C19: run the REAL libNeuroML accessors / summary / XML parser (PYTHONPATH = repo under test).

stdin: {"acc":  [{"cls", "method", "mode": "set"|"ctor", "attrs": {name: V}, "arg": V|absent}, ...],
        "docs": [{"networks": [NET, ...], "xml": bool}, ...],
        "hsfi": [[{"pre_segment_id", "post_segment_id", "pre_fraction_along", "post_fraction_along"}, ...], ...],
        "accseq": [{"cls", "steps": [{"method", "attrs", "arg"?}, ...]}],       # ONE object, attributes changed in place between calls
        "dochist": [{"networks": [...], "add": {"pop_size", "instances", "conns", "inputs"}}]}   # summary, grow in place, summary
  V = {"t":"none"} | {"t":"str","v":s} | {"t":"int","v":n} | {"t":"float","v":hex} | {"t":"list","n":k}
stdout (last line): {"acc": [{"seen": {name: V}, "res": {"ok": V} | {"err": cls}}, ...],
                     "docs": [{"summary": text, "events": [...] | null, "error": str|null, "xml_error": str|null}, ...], "hsfi": [bool, ...]}
"""
import contextlib
import io
import json
import os
import shutil
import sys
import tempfile

import neuroml


def dec(v):
    t = v["t"]
    if t == "none":
        return None
    if t == "str":
        return v["v"]
    if t == "int":
        return int(v["v"])
    if t == "float":
        return float.fromhex(v["v"])
    if t == "list":
        return [object()] * v["n"]
    raise ValueError(t)


def enc(x):
    if x is None:
        return {"t": "none"}
    if isinstance(x, bool):
        return {"t": "other", "v": repr(x)}
    if isinstance(x, str):
        return {"t": "str", "v": x}
    if isinstance(x, int):
        return {"t": "int", "v": x}
    if isinstance(x, float):
        return {"t": "float", "v": x.hex()}
    if isinstance(x, list):
        return {"t": "list", "n": len(x)}
    return {"t": "other", "v": repr(x)[:80]}


def do_acc(c):
    sink = io.StringIO()
    with contextlib.redirect_stdout(sink):
        if c["cls"] == "NeuroMLXMLParser":
            from neuroml.hdf5.NeuroMLXMLParser import NeuroMLXMLParser
            obj = NeuroMLXMLParser.__new__(NeuroMLXMLParser)
        else:
            cls = getattr(neuroml, c["cls"])
            if c.get("mode") == "ctor":
                obj = cls(**{k: dec(v) for k, v in c["attrs"].items()})
            else:
                obj = cls()
                for k, v in c["attrs"].items():
                    setattr(obj, k, dec(v))
        seen = {k: enc(getattr(obj, k, None)) for k in c["attrs"]}
        try:
            if "arg" in c:
                r = getattr(obj, c["method"])(dec(c["arg"]))
            else:
                r = getattr(obj, c["method"])()
            res = {"ok": enc(r)}
        except BaseException as e:  # noqa: BLE001 - includes SystemExit from exit(1)
            res = {"err": type(e).__name__}
    return {"seen": seen, "res": res}


# ------------------------------------------------------------------ documents
def conn_kwargs(c, new):
    if new:
        kw = dict(id=c["id"], pre_cell=c["pre"], post_cell=c["post"])
        for k, a in (("pre_seg", "pre_segment"), ("post_seg", "post_segment"), ("pre_fract", "pre_fraction_along"),
                     ("post_fract", "post_fraction_along")):
            if c.get(k) is not None:
                kw[a] = c[k]
    else:
        kw = dict(id=c["id"], pre_cell_id=c["pre"], post_cell_id=c["post"])
        for k, a in (("pre_seg", "pre_segment_id"), ("post_seg", "post_segment_id"), ("pre_fract", "pre_fraction_along"),
                     ("post_fract", "post_fraction_along")):
            if c.get(k) is not None:
                kw[a] = c[k]
    return kw


def build_doc(d):
    doc = neuroml.NeuroMLDocument(id=d.get("id", "doc"))
    doc.iaf_cells.append(neuroml.IafCell(id="iaf", leak_reversal="-50mV", thresh="-55mV", reset="-70mV", C="0.2nF",
                                         leak_conductance="0.01uS"))
    doc.exp_one_synapses.append(neuroml.ExpOneSynapse(id="syn", gbase="1nS", erev="0mV", tau_decay="2ms"))
    doc.gap_junctions.append(neuroml.GapJunction(id="gj", conductance="10pS"))
    doc.silent_synapses.append(neuroml.SilentSynapse(id="silent"))
    doc.graded_synapses.append(neuroml.GradedSynapse(id="gs", conductance="5pS", delta="5mV", Vth="-55mV", k="0.025per_ms",
                                                     erev="0mV"))
    doc.pulse_generators.append(neuroml.PulseGenerator(id="pg", delay="0ms", duration="10ms", amplitude="0.1nA"))
    for n in d["networks"]:
        net = neuroml.Network(id=n["id"])
        doc.networks.append(net)
        for p in n["pops"]:
            pop = neuroml.Population(id=p["id"], component="iaf")
            if p.get("size") is not None:
                pop.size = p["size"]
            if p.get("instances"):
                pop.type = "populationList"
                for i in range(p["instances"]):
                    pop.instances.append(neuroml.Instance(id=i, location=neuroml.Location(x=i, y=0, z=0)))
            net.populations.append(pop)
        for pr in n["projs"]:
            proj = neuroml.Projection(id=pr["id"], presynaptic_population=pr["pre"], postsynaptic_population=pr["post"], synapse="syn")
            for c in pr["conns"]:
                proj.connections.append(neuroml.Connection(**conn_kwargs(c, False)))
            for c in pr["conn_wds"]:
                proj.connection_wds.append(neuroml.ConnectionWD(weight=c["weight"], delay=c["delay"], **conn_kwargs(c, False)))
            net.projections.append(proj)
        for pr in n["eprojs"]:
            proj = neuroml.ElectricalProjection(id=pr["id"], presynaptic_population=pr["pre"], postsynaptic_population=pr["post"])
            for c in pr["ecs"]:
                proj.electrical_connections.append(neuroml.ElectricalConnection(synapse="gj", **conn_kwargs(c, True)))
            for c in pr["ecis"]:
                proj.electrical_connection_instances.append(neuroml.ElectricalConnectionInstance(synapse="gj", **conn_kwargs(c, True)))
            for c in pr["eciws"]:
                kw = conn_kwargs(c, True)
                if c.get("weight") is not None:
                    kw["weight"] = c["weight"]
                proj.electrical_connection_instance_ws.append(neuroml.ElectricalConnectionInstanceW(synapse="gj", **kw))
            net.electrical_projections.append(proj)
        for pr in n["cprojs"]:
            proj = neuroml.ContinuousProjection(id=pr["id"], presynaptic_population=pr["pre"], postsynaptic_population=pr["post"])
            for c in pr["ccs"]:
                proj.continuous_connections.append(neuroml.ContinuousConnection(pre_component="silent", post_component="gs",
                                                                                **conn_kwargs(c, True)))
            for c in pr["ccis"]:
                proj.continuous_connection_instances.append(neuroml.ContinuousConnectionInstance(
                    pre_component="silent", post_component="gs", **conn_kwargs(c, True)))
            for c in pr["cciws"]:
                kw = conn_kwargs(c, True)
                if c.get("weight") is not None:
                    kw["weight"] = c["weight"]
                proj.continuous_connection_instance_ws.append(neuroml.ContinuousConnectionInstanceW(
                    pre_component="silent", post_component="gs", **kw))
            net.continuous_projections.append(proj)
        for il in n["input_lists"]:
            l = neuroml.InputList(id=il["id"], component="pg", populations=il["population"])
            for i in il["inputs"]:
                kw = dict(id=i["id"], target=i["target"], destination="synapses")
                if i.get("seg") is not None:
                    kw["segment_id"] = i["seg"]
                if i.get("fract") is not None:
                    kw["fraction_along"] = i["fract"]
                l.input.append(neuroml.Input(**kw))
            for i in il["input_ws"]:
                kw = dict(id=i["id"], target=i["target"], destination="synapses", weight=i["weight"])
                if i.get("seg") is not None:
                    kw["segment_id"] = i["seg"]
                if i.get("fract") is not None:
                    kw["fraction_along"] = i["fract"]
                l.input_ws.append(neuroml.InputW(**kw))
            net.input_lists.append(l)
        for e in n["explicit_inputs"]:
            net.explicit_inputs.append(neuroml.ExplicitInput(target=e["target"], input="pg"))
        for s in n["synaptic_connections"]:
            net.synaptic_connections.append(neuroml.SynapticConnection(from_=s["from"], to=s["to"], synapse="syn"))
    return doc


def record_events(path):
    from neuroml.hdf5.DefaultNetworkHandler import DefaultNetworkHandler
    from neuroml.hdf5.NeuroMLXMLParser import NeuroMLXMLParser
    ev = []

    class Rec(DefaultNetworkHandler):
        def handle_network(self, network_id, notes, temperature=None):
            ev.append(["network", network_id])

        def handle_population(self, population_id, component, size=-1, component_obj=None, properties={}, notes=None):
            ev.append(["population", population_id, component, size])

        def handle_location(self, id, population_id, component, x, y, z):
            pass

        def handle_projection(self, projName, prePop, postPop, synapse, hasWeights=False, hasDelays=False, type="projection",
                              synapse_obj=None, pre_synapse_obj=None):
            ev.append(["projection", projName, prePop, postPop, type])

        def handle_connection(self, projName, id, prePop, postPop, synapseType, preCellId, postCellId, preSegId=0, preFract=0.5,
                              postSegId=0, postFract=0.5, delay=0, weight=1):
            ev.append(["connection", projName, id, preCellId, postCellId, preSegId, float(preFract), postSegId, float(postFract),
                       float(delay), float(weight)])

        def handle_input_list(self, inputListId, population_id, component, size, input_comp_obj=None):
            ev.append(["input_list", inputListId, population_id, component, size])

        def handle_single_input(self, inputListId, id, cellId, segId=0, fract=0.5, weight=1):
            ev.append(["input", inputListId, id, cellId, segId, float(fract), float(weight)])

    p = NeuroMLXMLParser(Rec())
    p.parse(path)
    return ev


def rebuilt_tuples(path):
    """XML -> NeuroMLXMLParser events -> NetworkBuilder objects -> what the accessors of the rebuilt objects say"""
    from neuroml.hdf5.NetworkBuilder import NetworkBuilder
    from neuroml.hdf5.NeuroMLXMLParser import NeuroMLXMLParser
    b = NetworkBuilder()
    NeuroMLXMLParser(b).parse(path)
    doc = b.get_nml_doc()
    conns, inputs = [], []
    for net in doc.networks:
        for pr in net.projections:
            for c in pr.connections:
                conns.append([pr.id, int(c.id), c.get_pre_cell_id(), c.get_post_cell_id(), c.get_pre_segment_id(),
                              float(c.get_pre_fraction_along()), c.get_post_segment_id(), float(c.get_post_fraction_along()), 0.0, 1.0])
            for c in pr.connection_wds:
                conns.append([pr.id, int(c.id), c.get_pre_cell_id(), c.get_post_cell_id(), c.get_pre_segment_id(),
                              float(c.get_pre_fraction_along()), c.get_post_segment_id(), float(c.get_post_fraction_along()),
                              float(c.get_delay_in_ms()), float(c.weight)])
        for il in net.input_lists:
            for i in il.input:
                inputs.append([il.id, int(i.id), i.get_target_cell_id(), i.get_segment_id(), float(i.get_fraction_along()), 1.0])
            for i in il.input_ws:
                inputs.append([il.id, int(i.id), i.get_target_cell_id(), i.get_segment_id(), float(i.get_fraction_along()),
                               float(i.get_weight())])
    return {"connections": conns, "inputs": inputs, "summary": doc.summary()}


def do_doc(d, tmp):
    out = {"summary": None, "events": None, "error": None, "xml_error": None}
    sink = io.StringIO()
    doc = None
    try:
        with contextlib.redirect_stdout(sink):
            doc = build_doc(d)
            out["summary"] = doc.summary()
    except BaseException as e:  # noqa: BLE001
        out["error"] = "%s: %s" % (type(e).__name__, str(e)[:300])
    if doc is not None and d.get("xml"):
        try:
            with contextlib.redirect_stdout(sink):
                import neuroml.writers as writers
                path = os.path.join(tmp, "doc.nml")
                writers.NeuroMLWriter.write(doc, path)
                out["events"] = record_events(path)
                if d.get("builder"):
                    out["rebuilt"] = rebuilt_tuples(path)
        except BaseException as e:  # noqa: BLE001
            out["xml_error"] = "%s: %s" % (type(e).__name__, str(e)[:300])
    return out


def new_obj(cname):
    if cname == "NeuroMLXMLParser":
        from neuroml.hdf5.NeuroMLXMLParser import NeuroMLXMLParser
        return NeuroMLXMLParser.__new__(NeuroMLXMLParser)
    return getattr(neuroml, cname)()


def do_accseq(q):
    """ONE object of the class; each step sets some attributes in place and calls an accessor"""
    sink = io.StringIO()
    out = []
    with contextlib.redirect_stdout(sink):
        obj = new_obj(q["cls"])
        for st in q["steps"]:
            for k, v in st["attrs"].items():
                setattr(obj, k, dec(v))
            try:
                r = getattr(obj, st["method"])(dec(st["arg"])) if "arg" in st else getattr(obj, st["method"])()
                out.append({"ok": enc(r)})
            except BaseException as e:  # noqa: BLE001
                out.append({"err": type(e).__name__})
    return out


def do_dochist(d):
    """summary() of a document, then the SAME document grown in place, then summary() again; also get_size of one
    population before and after instances are appended"""
    sink = io.StringIO()
    out = {"before": None, "after": None, "sizes": None, "error": None}
    try:
        with contextlib.redirect_stdout(sink):
            doc = build_doc(d)
            out["before"] = doc.summary()
            sizes = []
            for net in doc.networks:
                pop = neuroml.Population(id="added_pop", component="iaf", size=d["add"]["pop_size"])
                sizes.append(pop.get_size())
                net.populations.append(pop)
                for i in range(d["add"]["instances"]):
                    pop.instances.append(neuroml.Instance(id=i, location=neuroml.Location(x=i, y=0, z=0)))
                sizes.append(pop.get_size())
                for proj in net.projections:
                    for j in range(d["add"]["conns"]):
                        proj.connections.append(neuroml.Connection(id=1000 + j, pre_cell_id="../added_pop/0/iaf",
                                                                   post_cell_id="../added_pop/1/iaf"))
                for proj in net.electrical_projections:
                    for j in range(d["add"]["conns"]):
                        proj.electrical_connection_instance_ws.append(neuroml.ElectricalConnectionInstanceW(
                            id=1000 + j, pre_cell="../added_pop/0/iaf", post_cell="../added_pop/1/iaf", synapse="gj", weight=1.0))
                for il in net.input_lists:
                    for j in range(d["add"]["inputs"]):
                        il.input_ws.append(neuroml.InputW(id=2000 + j, target="../added_pop/0/iaf", destination="synapses", weight=1.0))
            out["sizes"] = sizes
            out["after"] = doc.summary()
    except BaseException as e:  # noqa: BLE001
        out["error"] = "%s: %s" % (type(e).__name__, str(e)[:300])
    return out


def index_form(form, i):
    """the same index in the shapes in which callers hand it to the handler API (HDF5 table rows, numpy scalars, floats)"""
    import numpy
    return {"int": int, "numpy.int64": numpy.int64, "numpy.int32": numpy.int32, "float": float, "numpy.float64": numpy.float64,
            "numpy.float32": numpy.float32}[form](i)


def do_builder_api(q):
    """NetworkBuilder driven directly through the handler API (what NeuroMLHdf5Parser / NeuroMLXMLParser do), the cell indices
    given in form q["form"]; then what the accessors of the built objects say"""
    from neuroml.hdf5.NetworkBuilder import NetworkBuilder
    out = {"connections": None, "inputs": None, "summary": None, "error": None}
    sink = io.StringIO()
    try:
        with contextlib.redirect_stdout(sink):
            b = NetworkBuilder()
            b.handle_document_start("doc", None)
            b.handle_network("net", None)
            b.handle_population("plain", "iaf", 50)
            b.handle_population("listed", "iaf", 50)
            for i in range(50):
                b.handle_location(i, "listed", "iaf", float(i), 0.0, 0.0)
            f = q["form"]
            for pid, pre, post in (("pp", "plain", "plain"), ("ll", "listed", "listed"), ("pl", "plain", "listed")):
                b.handle_projection(pid, pre, post, "syn")
                for c in q["conns"]:
                    kw = {}
                    if c.get("wd"):
                        kw = {"delay": c["delay"], "weight": c["weight"]}
                    b.handle_connection(pid, c["id"], pre, post, "syn", index_form(f, c["pre"]), index_form(f, c["post"]),
                                        preSegId=c["pre_seg"], preFract=c["pre_fract"], postSegId=c["post_seg"], postFract=c["post_fract"], **kw)
            for lid, pop in (("il_plain", "plain"), ("il_listed", "listed")):
                b.handle_input_list(lid, pop, "pg", len(q["inputs"]))
                for i in q["inputs"]:
                    b.handle_single_input(lid, i["id"], index_form(f, i["cell"]), segId=i["seg"], fract=i["fract"], weight=i["weight"])
            doc = b.get_nml_doc()
            conns, inputs = [], []
            for pr in doc.networks[0].projections:
                for c in list(pr.connections) + list(pr.connection_wds):
                    conns.append([pr.id, int(c.id), enc(c.get_pre_cell_id()), enc(c.get_post_cell_id()), c.get_pre_segment_id(),
                                  float(c.get_pre_fraction_along()), c.get_post_segment_id(), float(c.get_post_fraction_along())])
            for il in doc.networks[0].input_lists:
                for i in list(il.input) + list(il.input_ws):
                    inputs.append([il.id, int(i.id), enc(i.get_target_cell_id()), i.get_segment_id(), float(i.get_fraction_along())])
            out["connections"], out["inputs"] = conns, inputs
            out["summary"] = doc.summary()
    except BaseException as e:  # noqa: BLE001
        out["error"] = "%s: %s" % (type(e).__name__, str(e)[:300])
    return out


class _C:
    pass


def do_hsfi(conns):
    from neuroml.utils import has_segment_fraction_info
    objs = []
    for c in conns:
        o = _C()
        o.pre_segment_id, o.post_segment_id = c["pre_segment_id"], c["post_segment_id"]
        o.pre_fraction_along, o.post_fraction_along = c["pre_fraction_along"], c["post_fraction_along"]
        objs.append(o)
    return bool(has_segment_fraction_info(objs))


def main():
    req = json.loads(sys.stdin.read() or "{}")
    tmp = tempfile.mkdtemp(prefix="c19_")
    try:
        res = {"acc": [do_acc(c) for c in req.get("acc", [])],
               "docs": [do_doc(d, tmp) for d in req.get("docs", [])],
               "hsfi": [do_hsfi(c) for c in req.get("hsfi", [])],
               "accseq": [do_accseq(q) for q in req.get("accseq", [])],
               "dochist": [do_dochist(d) for d in req.get("dochist", [])],
               "builder_api": [do_builder_api(q) for q in req.get("builder_api", [])]}
    finally:
        shutil.rmtree(tmp, ignore_errors=True)
    sys.stdout.write("\n" + json.dumps(res) + "\n")


if __name__ == "__main__":
    main()
