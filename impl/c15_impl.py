"""C15: drive the REAL cell builder (Cell.add_segment, add_unbranched_segments, add_segment_group,
add_unbranched_segment_group, reorder/optimise_segment_groups, set_* property helpers) with
generated operation sequences and report what the cell looks like after every operation.

stdin : {"cases": [{"init": "factory"|"bare", "ops": [op, ...]}]}
 op   : {"op":"seg","prox":bool,"seg_id":int|null,"name":str|null,"parent":int|null (position in
         morphology.segments),"frac":int (quarters),"group":str|null,"conv":bool,"ty":str|null,
         "reorder":bool,"optimise":bool}
        {"op":"unbranched","npoints":int,"parent","frac","group","conv","ty","reorder","optimise"}
        {"op":"group","id":str,"nlex":str|null}   {"op":"ugroup","id":str}
        {"op":"reorder"}   {"op":"optimise"}
        {"op":"prop","kind":str,"v":int,"group":str}
stdout: last line {"results":[{"trace":[{"state":..}|{"err":..}], "final": {...}|null}]}
A sequence stops at the first operation that raises.
"""
import contextlib
import io
import json
import logging
import os
import sys
import tempfile
import warnings

warnings.simplefilter("ignore")
logging.disable(logging.CRITICAL)
sys.setrecursionlimit(3000)

import neuroml  # noqa: E402
import neuroml.utils  # noqa: E402
import neuroml.writers  # noqa: E402
from lxml import etree  # noqa: E402

VALUES = {
    "SpikeThresh": ["0mV", "-20 mV", "10.5mV"],
    "InitMembPotential": ["-65mV", "-70.0 mV", "-0.06V"],
    "SpecificCapacitance": ["1 uF_per_cm2", "0.9uF_per_cm2", "1.0 F_per_m2"],
    "Resistivity": ["0.1 kohm_cm", "100 ohm_cm", "1 ohm_m"],
}
BAD_VALUES = ["abc", "5", "1 xyz"]  # v = 100 + index
EREVS = ["0.0 mV", "-70 mV"]        # channel density: v = 100 * k + 10 * ion + index of the erev (9 = anything else)
IONS = ["non_specific", "na"]
SETTERS = {"SpikeThresh": "set_spike_thresh", "InitMembPotential": "set_init_memb_potential",
           "SpecificCapacitance": "set_specific_capacitance", "Resistivity": "set_resistivity"}


def value_of(kind, v):
    return BAD_VALUES[v - 100] if v >= 100 else VALUES[kind][v]


def index_of(kind, s):
    if s in BAD_VALUES:
        return 100 + BAD_VALUES.index(s)
    return VALUES[kind].index(s) if s in VALUES[kind] else -1


_schema = None


def schema():
    global _schema
    if _schema is None:
        d = os.path.dirname(neuroml.__file__)
        path = os.path.join(d, "nml", "NeuroML_%s.xsd" % neuroml.current_neuroml_version)
        _schema = etree.XMLSchema(etree.parse(path))
    return _schema


def classify(e):
    m = str(e)
    if isinstance(e, RecursionError):
        return "Recursion"
    if isinstance(e, IndexError):
        return "Index"
    if isinstance(e, ValueError):
        if "already exists" in m and "segment with provided id" in m:
            return "DupId"
        if "Validation failed" in m:
            return "Validation"
        if "Please provide a seg_type" in m:
            return "NoSegType"
        if "Invalid segment type" in m:
            return "BadSegType"
        if "Segment group with id" in m and "not found in cell" in m:
            return "NoSuchGroup"
    if type(e) is Exception:
        if "without specifying a parent" in m:
            return "NoParent"
        if m.startswith("No segment group"):
            return "NoGroup"
    return "Other:%s:%s" % (type(e).__name__, m[:100])


def dump(cell):
    segs = []
    for s in cell.morphology.segments:
        par = s.parent.segments if s.parent is not None else None
        fr = None
        if s.parent is not None:
            fr = float(s.parent.fraction_along) * 4
            fr = int(fr) if fr == int(fr) else fr
        segs.append([s.id, par, fr, s.proximal is not None, s.name])
    groups = [{"id": g.id, "members": [m.segments for m in g.members],
               "includes": [i.segment_groups for i in g.includes], "nlex": g.neuro_lex_id}
              for g in cell.morphology.segment_groups]
    bp = cell.biophysical_properties
    mp = bp.membrane_properties if bp is not None else None       # an empty container is not written,
    ip = bp.intracellular_properties if bp is not None else None  # so it is None after a reload
    m = lambda name: getattr(mp, name) if mp is not None else []  # noqa: E731
    props = {
        "SpikeThresh": [[index_of("SpikeThresh", p.value), p.segment_groups] for p in m("spike_threshes")],
        "InitMembPotential": [[index_of("InitMembPotential", p.value), p.segment_groups] for p in m("init_memb_potentials")],
        "SpecificCapacitance": [[index_of("SpecificCapacitance", p.value), p.segment_groups] for p in m("specific_capacitances")],
        "Resistivity": [[index_of("Resistivity", p.value), p.segment_groups] for p in (ip.resistivities if ip is not None else [])],
        "ChannelDens": [[100 * int(p.id[2:]) + 10 * (IONS.index(p.ion) if p.ion in IONS else 9)
                         + (EREVS.index(p.erev) if p.erev in EREVS else 9), p.segment_groups]
                        for p in m("channel_densities")],
    }
    return {"segs": segs, "groups": groups, "props": props}


def frac_of(op):
    """0 and 1 are also passed as Python ints (a legal way to write them) when the op says so"""
    if op.get("frac_int") and op["frac"] in (0, 4):
        return op["frac"] // 4
    return op["frac"] / 4.0


def flag(op, v):
    """the three flags in the form the op asks for: Python bool, numpy.bool_, or 1 / 0 (all have the same truth value)"""
    form = op.get("flag_form", "bool")
    if form == "numpy":
        import numpy
        return numpy.bool_(v)
    if form == "int":
        return 1 if v else 0
    return bool(v)


def drop(kw, op):
    """optional arguments the op says to leave out (the generator only lists arguments whose value is the
    documented default, so leaving them out must change nothing)"""
    for name in op.get("omit", []):
        kw.pop(name, None)
    return kw


# ---- the finished cell as a component tree, in the dump format of impl/gds_impl.py (field order from the tables)
def tree_dump(o, order):
    cname = type(o).__name__
    out = []
    for name in order[cname]:
        v = getattr(o, name)
        if name == "anytypeobjs_":
            out.append([name, {"raw": [str(x) for x in (v or [])]}])
        else:
            out.append([name, tree_val(v, order)])
    return {"cls": cname, "fields": out}


def tree_val(v, order):
    if v is None:
        return None
    if isinstance(v, bool):
        return {"s": str(v)}
    if isinstance(v, str):
        return {"s": v}
    if isinstance(v, int):
        return {"i": v}
    if isinstance(v, float):
        r = repr(v)
        return {"f": ("!" + r) if ("e" in r or "E" in r or "n" in r) else r}
    if isinstance(v, list):
        if all(hasattr(x, "member_data_items_") for x in v):
            return {"l": [tree_dump(x, order) for x in v]}
        return {"raw": [str(x) for x in v]}
    if hasattr(v, "member_data_items_"):
        return {"o": tree_dump(v, order)}
    return {"raw": [repr(v)]}


def apply(cell, op, doc=None):
    k = op["op"]
    segs = cell.morphology.segments
    if k == "seg":
        x = len(segs)
        kw = dict(seg_id=op["seg_id"], name=op["name"],
                  parent=segs[op["parent"]] if op["parent"] is not None else None,
                  fraction_along=frac_of(op), group_id=op["group"], use_convention=flag(op, op["conv"]),
                  seg_type=op["ty"], reorder_segment_groups=flag(op, op["reorder"]),
                  optimise_segment_groups=flag(op, op["optimise"]))
        if op.get("pt"):
            # coordinates / diameters of extreme magnitude (the model has no geometry: these cells are outside the tree tie)
            px, pd = float(op["pt"]["x"]), float(op["pt"]["d"])
            cell.add_segment([px, 0, 0, pd] if op["prox"] else None, [x + 1, px, -px, pd], **drop(kw, op))
        else:
            cell.add_segment([x, 0, 0, 1] if op["prox"] else None, [x + 1, 0, 0, 1], **drop(kw, op))
    elif k == "unbranched":
        x = len(segs)
        pts = [[x + j, 0, 0, 1] for j in range(op["npoints"])]
        kw = dict(parent=segs[op["parent"]] if op["parent"] is not None else None,
                  fraction_along=frac_of(op), group_id=op["group"],
                  use_convention=flag(op, op["conv"]), seg_type=op["ty"],
                  reorder_segment_groups=flag(op, op["reorder"]), optimise_segment_groups=flag(op, op["optimise"]))
        cell.add_unbranched_segments(pts, **drop(kw, op))
    elif k == "group":
        cell.add_segment_group(op["id"], **drop(dict(neuro_lex_id=op["nlex"]), op))
    elif k == "chan":
        kw = dict(erev=EREVS[op["erev"]], group_id=op["group"] if op["group"] is not None else "all",
                  ion=op.get("ion", "non_specific"), ion_chan_def_file=op.get("file", ""))
        cell.add_channel_density(doc, "cd%d" % op["k"], "pas", "1 mS_per_cm2", **drop(kw, op))
    elif k == "ugroup":
        cell.add_unbranched_segment_group(op["id"])
    elif k == "reorder":
        cell.reorder_segment_groups()
    elif k == "optimise":
        cell.optimise_segment_groups()
    elif k == "prop":
        val = value_of(op["kind"], op["v"])
        if op["kind"] not in SETTERS:
            raise RuntimeError("bad prop kind")
        if op.get("via") == "generic":
            # the generic entry points; a group that is left out is the constructor default 'all'
            kw = {"value": val}
            if op["group"] is not None:
                kw["segment_groups"] = op["group"]
            if op["kind"] == "Resistivity":
                cell.add_intracellular_property("Resistivity", **kw)
            else:
                cell.add_membrane_property(op["kind"], **kw)
        elif op["group"] is None:
            getattr(cell, SETTERS[op["kind"]])(val)
        else:
            getattr(cell, SETTERS[op["kind"]])(val, group_id=op["group"])
    else:
        raise RuntimeError("bad op")


def query(cell, gid):
    try:
        return [int(x) for x in cell.get_all_segments_in_group(gid)]
    except BaseException as e:  # noqa
        return {"err": classify(e)}


def verdicts(cell, doc=None):
    out = {}
    try:
        cell.validate(recursive=True)
        out["validate"] = True
    except ValueError as e:
        out["validate"] = False
        out["validate_msg"] = str(e)[:400]
    except BaseException as e:  # noqa
        out["validate"] = False
        out["validate_msg"] = "raised " + classify(e)
    try:
        if doc is None:
            doc = neuroml.NeuroMLDocument(id="d")
            doc.cells.append(cell)
        fd, path = tempfile.mkstemp(suffix=".nml")
        os.close(fd)
        try:
            neuroml.writers.NeuroMLWriter.write(doc, path)
            tree = etree.parse(path)
        finally:
            os.unlink(path)
        sch = schema()
        ok = sch.validate(tree)
        out["xsd"] = bool(ok)
        if not ok:
            out["xsd_msg"] = str(sch.error_log)[:400]
    except BaseException as e:  # noqa
        out["xsd"] = False
        out["xsd_msg"] = "raised " + classify(e)
    return out


def reload(doc):
    """write the document, read it back: building continues on a cell that came from a file"""
    import neuroml.loaders
    fd, path = tempfile.mkstemp(suffix=".nml")
    os.close(fd)
    try:
        neuroml.writers.NeuroMLWriter.write(doc, path)
        new = neuroml.loaders.read_neuroml2_file(path)
    finally:
        os.unlink(path)
    return new, new.cells[0]


TREE_ORDER = None


def run_case(case):
    if case["init"] == "factory":
        cell = neuroml.utils.component_factory("Cell", id="c")
    elif case["init"] == "custom":
        # every container made by the user, none with the id the builder would have chosen
        cell = neuroml.Cell(id="c", morphology=neuroml.Morphology(id="morph_x"),
                            biophysical_properties=neuroml.BiophysicalProperties(
                                id="bio_x", membrane_properties=neuroml.MembraneProperties(),
                                intracellular_properties=neuroml.IntracellularProperties()))
    else:
        cell = neuroml.Cell(id="c")
        cell.setup_nml_cell(use_convention=False)
    doc = neuroml.NeuroMLDocument(id="d")
    doc.cells.append(cell)
    trace = []
    failed = False
    keys0 = set(vars(cell).keys()) | set("morphology." + k for k in vars(cell.morphology).keys())
    for op in case["ops"]:
        try:
            if op["op"] == "reload":
                doc, cell = reload(doc)
                keys0 = set(vars(cell).keys()) | set("morphology." + k for k in vars(cell.morphology).keys())
            else:
                apply(cell, op, doc)
            trace.append({"state": dump(cell)})
        except BaseException as e:  # noqa
            trace.append({"err": classify(e)})
            failed = True
            break
    final = None
    if not failed:
        final = {}
        try:
            cell.reorder_segment_groups()
            cell.optimise_segment_groups()
            final["state"] = dump(cell)
            final["resolved"] = {g: query(cell, g) for g in ["all", "soma_group", "axon_group", "dendrite_group"]}
            final["resolved_user"] = {g.id: query(cell, g.id) for g in cell.morphology.segment_groups}
            final.update(verdicts(cell, doc))
            if case.get("tree") and TREE_ORDER:
                try:
                    final["tree"] = tree_dump(cell, TREE_ORDER)
                except BaseException as e:  # noqa
                    final["tree"] = {"err": "%s: %s" % (type(e).__name__, str(e)[:200])}
            # ids in use are asked for again (last, so that a wrongly accepted one disturbs nothing above)
            ids = [s.id for s in cell.morphology.segments]
            probes = []
            for z in (list(dict.fromkeys([0] * (0 in ids) + [max(ids), min(ids), ids[0], ids[-1], ids[len(ids) // 2]] + ids))[:12] if ids else []):
                try:
                    cell.add_segment(prox=None, dist=[0, 0, 0, 1], seg_id=z, parent=cell.morphology.segments[0],
                                     use_convention=False, optimise_segment_groups=False)
                    probes.append([z, {"returned": True}])
                except BaseException as e:  # noqa
                    probes.append([z, {"err": classify(e)}])
            final["probes"] = probes
            keys1 = set(vars(cell).keys()) | set("morphology." + k for k in vars(cell.morphology).keys())
            final["new_attributes"] = sorted(keys1 - keys0)
        except BaseException as e:  # noqa
            final["err"] = classify(e)
    return {"trace": trace, "final": final}


def main():
    global TREE_ORDER
    payload = json.load(sys.stdin)
    TREE_ORDER = payload.get("tree_order")
    res = []
    sink = io.StringIO()
    with contextlib.redirect_stdout(sink):
        for c in payload["cases"]:
            res.append(run_case(c))
    print(json.dumps({"results": res}))


if __name__ == "__main__":
    main()
