"""C06 implementation runner: materialises generated include graphs in a scratch directory and runs the
REAL loaders on them (read_neuroml2_file / read_neuroml2_string with include_includes=True).

stdin : {"cases": [case...], "recursion_limit": int, "guard_s": float}
case  : {"files": [{"path": [seg..], "kind": "xml"|"h5", "comps": [comp..], "incs": [href..],      (xml)
                    "nets": [comp..], "emb": null | {"comps": [...], "incs": [...]}}],            (h5)
         "dirs": [[seg..]..], "cwd": [seg..], "cwds": [[seg..]..]   (further working directories),
         "entry": {"file": [seg..], "style": "abs"|"rel"} | {"string": {"comps","incs"}, "base": null|[seg..],
                   "base_style": "abs"|"rel"},
         "al": [[seg..]..], "names": [member list names]}
comp  : {"list": member, "idk": "n"|"0"|"s", "id": str, "tag": int};  href: {"abs": bool, "segs": [str..]}
stdout (last line): {"results": [ {"runs": [run per cwd], "oracle": {...}} ]}
run   : {"outcome": done|exit|badext|h5open|parse|recursion|timeout|other, "lists": {name: [[idk,id,tag]..]},
         "extra_lists": [...], "incs_left": n, "already": [[seg..]|str ..], "loads": [[seg..]..], "detail": str}
The oracle is computed here with the os.path functions on the materialised tree, from the property text only
(reachable files; union of their top-level components), independently of the Coq model.
"""
import json
import os
import shutil
import signal
import sys
import tempfile

import neuroml
import neuroml.loaders as L
import neuroml.writers as W

NS = 'xmlns="http://www.neuroml.org/schema/neuroml2"'

def build_kinds():
    """every list member of NeuroMLDocument except includes:
    member -> (xml element, class name, where the tag goes, has an id member, has a name member)"""
    items = neuroml.NeuroMLDocument.member_data_items_
    items = items.values() if isinstance(items, dict) else items
    kinds = {}
    for m in items:
        name = m.get_name()
        if not m.get_container() or name == "includes":
            continue
        cls = getattr(neuroml, m.get_data_type(), None)
        if cls is None:
            continue
        el = (m.get_child_attrs() or {}).get("name") or name
        o = cls()
        if name == "networks":
            where = "notes"  # the only thing of a network the HDF5 format keeps besides the id
        elif hasattr(o, "metaid"):
            where = "meta"
        elif name == "ComponentType":
            where = "desc"
        else:
            where = "none"
        kinds[name] = (el, m.get_data_type(), where, hasattr(o, "id"), hasattr(o, "name") and not hasattr(o, "id"))
    return kinds


KINDS = build_kinds()


class Guard(BaseException):
    pass


def _alarm(signum, frame):
    raise Guard()


def comp_xml(c):
    el, _, where, has_id, has_name = KINDS[c["list"]]
    tag = "t%d" % c["tag"]
    if where == "desc":
        return '<%s name="%s" description="%s"/>' % (el, c["id"], tag)
    ida = ' id="%s"' % c["id"] if (has_id and c["idk"] == "s") else ""
    if where == "notes":
        return "<%s%s><notes>%s</notes></%s>" % (el, ida, tag, el)
    if where == "meta":
        return '<%s%s metaid="%s"/>' % (el, ida, tag)
    return "<%s%s/>" % (el, ida)


def href_str(root, h):
    s = "/".join(h["segs"])
    return (root + "/" + s) if h["abs"] else s


def xml_text(root, docid, comps, incs):
    # includes first, then the components grouped as the schema orders them is not needed: the parser is
    # not validating and files each child by its element name
    body = "".join('<include href="%s"/>' % href_str(root, h) for h in incs)
    body += "".join(comp_xml(c) for c in comps)
    return '<neuroml %s id="%s">%s</neuroml>' % (NS, docid, body)


def comp_obj(c):
    _, cls, where, has_id, has_name = KINDS[c["list"]]
    k = getattr(neuroml, cls)
    tag = "t%d" % c["tag"]
    if where == "desc":
        return k(name=c["id"], description=tag)
    o = k(id=c["id"] if c["idk"] == "s" else None) if has_id else k()
    if where == "notes":
        o.notes = tag
    elif where == "meta":
        o.metaid = tag
    return o


def write_h5(root, path, f):
    doc = neuroml.NeuroMLDocument(id="h5doc")
    for c in f["nets"]:
        doc.networks.append(comp_obj(c))
    emb = f.get("emb")
    if emb is not None:
        for h in emb["incs"]:
            doc.includes.append(neuroml.IncludeType(href=href_str(root, h)))
        for c in emb["comps"]:
            getattr(doc, c["list"]).append(comp_obj(c))
    W.NeuroMLHdf5Writer.write(doc, path, embed_xml=emb is not None)


def materialise(root, case):
    for d in case["dirs"]:
        os.makedirs(os.path.join(root, *d), exist_ok=True)
    for i, f in enumerate(case["files"]):
        p = os.path.join(root, *f["path"])
        os.makedirs(os.path.dirname(p), exist_ok=True)
        if f["kind"] == "xml":
            with open(p, "w") as fh:
                fh.write(xml_text(root, "f%d" % i, f["comps"], f["incs"]))
        else:
            write_h5(root, p, f)


def tag_of(name, o):
    where = KINDS.get(name, (None, None, "meta"))[2]
    if where == "none":
        return -1
    s = {"desc": getattr(o, "description", None), "notes": getattr(o, "notes", None),
         "meta": getattr(o, "metaid", None)}[where]
    try:
        return int(str(s).strip()[1:])
    except Exception:
        return -1


def ident(o):
    if not hasattr(o, "id"):
        return ["n", getattr(o, "name", "") or ""]
    if o.id is None:
        return ["0", ""]
    return ["s", o.id]


def lists_of(doc, names):
    out, extra = {}, []
    for k, v in sorted(vars(doc).items()):
        if isinstance(v, list) and not k.endswith("_") and k != "includes":
            row = [ident(o) + [tag_of(k, o)] for o in v]
            if k in names:
                out[k] = row
            elif row:
                extra.append(k)
    for n in names:
        out.setdefault(n, [])
    return out, extra


def rel(root, p):
    p = str(p)
    if p == root:
        return []
    if p.startswith(root + "/"):
        return p[len(root) + 1:].split("/")
    return p


def classify(e):
    seen, todo = set(), [e]
    rec = False
    while todo:
        x = todo.pop()
        if id(x) in seen or not isinstance(x, BaseException):
            continue
        seen.add(id(x))
        if isinstance(x, RecursionError) or "maximum recursion depth" in str(x):
            rec = True
        todo += [x.__cause__, x.__context__] + list(getattr(x, "args", ()) or ())
    if rec:
        return "recursion"
    if isinstance(e, SystemExit):
        return "exit"
    n = type(e).__name__
    if "Unrecognised extension" in str(e):
        return "badext"
    if n in ("HDF5ExtError", "OSError", "IOError", "FileNotFoundError", "NoSuchNodeError") or isinstance(e, OSError):
        return "h5open"
    if "Not a valid NeuroML 2 doc" in str(e):
        return "parse"
    return "other"


LOADS = []
_orig_xml = L.NeuroMLLoader.load
_orig_h5 = L.NeuroMLHdf5Loader.load


def _xml_load(cls, src, *a, **k):
    LOADS.append(os.path.abspath(src))
    return _orig_xml(src, *a, **k)


def _h5_load(cls, src, *a, **k):
    LOADS.append(os.path.abspath(src))
    return _orig_h5(src, *a, **k)


L.NeuroMLLoader.load = classmethod(_xml_load)
L.NeuroMLHdf5Loader.load = classmethod(_h5_load)


def fresh_default_lists():
    """C07 (another property) is about mutable default lists surviving between calls; every case here starts
    from the state of a fresh process"""
    for fn in (L.read_neuroml2_string, L._read_neuroml2, L.read_neuroml2_file):
        for d in fn.__defaults__ or ():
            if isinstance(d, list):
                del d[:]


def run_once(root, case, cwd, opt, guard_s, ei=0):
    """one call; with case["default_args"] no already_included list is passed and the calls of one (cwd, optimized) group -
    case["entries"] - follow each other in the state the process is in (only the first starts from a fresh one)"""
    dflt = bool(case.get("default_args"))
    if ei == 0 or not dflt:
        fresh_default_lists()
    kw = {} if dflt else None
    del LOADS[:]
    os.chdir(os.path.join(root, *cwd))
    al = [os.path.join(root, *p) if p else root for p in case["al"]]
    ent = case["entry"]
    res = {"outcome": "done", "lists": {}, "extra_lists": [], "incs_left": 0, "detail": "", "cwd": cwd, "opt": bool(opt), "ei": ei}
    signal.signal(signal.SIGALRM, _alarm)
    signal.setitimer(signal.ITIMER_REAL, guard_s)
    try:
        if "file" in ent:
            p = os.path.join(root, *ent["file"])
            if ent.get("style") in ("rel", "rel_dot"):
                p = os.path.relpath(p, os.getcwd())
                if ent.get("style") == "rel_dot":  # the same file, spelt with ./ , a doubled slash and dir/..
                    head, tail = os.path.split(p)
                    p = "./" + (head + "//" if head else "") + tail
                    sub = sorted(d for d in os.listdir(".") if os.path.isdir(d))
                    if sub:
                        p = sub[0] + "/../" + p
            doc = (L.read_neuroml2_file(p, include_includes=True, optimized=bool(opt)) if dflt else
                   L.read_neuroml2_file(p, include_includes=True, already_included=al, optimized=bool(opt)))
        else:
            b = ent.get("base")
            if b is not None:
                b = os.path.join(root, *b) if b else root
                if ent.get("base_style") == "rel":
                    b = os.path.relpath(b, os.getcwd())
            text = xml_text(root, "entry", ent["string"]["comps"], ent["string"]["incs"])
            doc = (L.read_neuroml2_string(text, include_includes=True, base_path=b, optimized=bool(opt)) if dflt else
                   L.read_neuroml2_string(text, include_includes=True, already_included=al, base_path=b, optimized=bool(opt)))
        signal.setitimer(signal.ITIMER_REAL, 0)
        res["lists"], res["extra_lists"] = lists_of(doc, case["names"])
        res["incs_left"] = len(doc.includes)
    except Guard:
        res["outcome"] = "timeout"
    except BaseException as e:  # SystemExit included
        signal.setitimer(signal.ITIMER_REAL, 0)
        res["outcome"] = classify(e)
        res["detail"] = ("%s: %s" % (type(e).__name__, e))[:300]
    finally:
        signal.setitimer(signal.ITIMER_REAL, 0)
    res["loads"] = [rel(root, p) for p in LOADS]
    # with default arguments the list cannot be seen; for an empty initial list it is the list of files opened (checked on
    # every other run)
    res["already"] = res["loads"] if dflt else [rel(root, p) for p in al]
    return res


def oracle(root, case, cwd):
    """from the property text: files reachable through hrefs (working directory first, else the including
    file's directory), union of their components; computed with os.path on the materialised tree"""
    os.chdir(os.path.join(root, *cwd))
    files = {os.path.join(root, *f["path"]): f for f in case["files"]}
    premarked = set(os.path.join(root, *p) if p else root for p in case["al"])
    state = {"ok": True, "from_cwd": False}

    def targets(base, hs):
        out = []
        for h in hs:
            s = href_str(root, h)
            if os.path.exists(s):
                if not h["abs"]:
                    state["from_cwd"] = True
                out.append(os.path.abspath(s))
            else:
                out.append(os.path.abspath(os.path.join(base, s)))
        return out

    ent = case["entry"]
    comps, order, seen = [], [], set()
    if "file" in ent:
        entry_file = os.path.join(root, *ent["file"])
        todo = [entry_file]
    else:
        entry_file = None
        b = ent.get("base")
        b = os.getcwd() if b is None else (os.path.join(root, *b) if b else root)
        comps += list(ent["string"]["comps"])
        todo = targets(b, ent["string"]["incs"])[::-1]
    while todo:
        p = todo.pop()
        if p in seen or (p in premarked and p != entry_file):
            continue
        seen.add(p)
        f = files.get(p)
        if p == entry_file:
            okext, wants_h5 = True, p.endswith(".h5") or p.endswith(".hdf5")
        else:
            okext, wants_h5 = p.endswith((".nml", ".xml", ".nml.h5")), p.endswith(".nml.h5")
        if f is None or not okext or wants_h5 != (f["kind"] == "h5"):
            state["ok"] = False
            continue
        order.append(p)
        if f["kind"] == "xml":
            hs, cs = f["incs"], list(f["comps"])
        else:
            emb = f.get("emb") or {"incs": [], "comps": []}
            hs, cs = emb["incs"], list(f["nets"]) + list(emb["comps"])
        comps += cs
        todo += targets(os.path.dirname(p), hs)[::-1]
    return {"ok": state["ok"], "reach": sorted(rel(root, p) for p in order), "comps": comps,
            "href_exists_from_cwd": state["from_cwd"]}


def describe():
    """which member lists can be generated: one element must survive XML parsing and XML export + parsing"""
    import io
    from neuroml.nml.nml import parseString
    out, bad = [], []
    for name, (el, cls, where, has_id, has_name) in sorted(KINDS.items()):
        c = {"list": name, "idk": "s" if has_id else "n", "id": "x", "tag": 7}
        try:
            d1 = parseString(xml_text("", "d", [c], []), silence=True)
            doc = neuroml.NeuroMLDocument(id="d")
            getattr(doc, name).append(comp_obj(c))
            sf = io.StringIO()
            W.NeuroMLWriter.write(doc, sf, close=False)
            d2 = parseString(sf.getvalue(), silence=True)
            want = [(["s", "x"] if has_id else ["n", "x" if has_name else ""]) + [7 if where != "none" else -1]]
            for d in (d1, d2):
                got, extra = lists_of(d, [name])
                assert got[name] == want and not extra, (got, extra)
            out.append({"list": name, "has_id": has_id, "has_name": has_name, "tagged": where != "none"})
        except Exception as e:
            bad.append([name, ("%s: %s" % (type(e).__name__, e))[:120]])
    return {"lists": out, "unusable": bad}


def main():
    req = json.load(sys.stdin)
    if req.get("describe"):
        print()
        print(json.dumps(describe()))
        return
    sys.setrecursionlimit(int(req.get("recursion_limit", 400)))
    guard_s = float(req.get("guard_s", 20))
    top = os.path.realpath(tempfile.mkdtemp(prefix="c06_"))
    home = os.getcwd()
    out = []
    try:
        for i, case in enumerate(req["cases"]):
            root = os.path.join(top, "k%d" % i)
            os.makedirs(root)
            try:
                materialise(root, case)
                runs, orcs = [], []
                entries = case.get("entries") or [case["entry"]]
                for cwd in [case["cwd"]] + list(case.get("cwds", [])):
                    for opt in case.get("opts", [False]):
                        for ei, ent in enumerate(entries):
                            vc = dict(case, entry=ent)
                            cwd_e = ent.get("cwd", cwd)  # a call of a history may have a working directory of its own
                            runs.append(run_once(root, vc, cwd_e, opt, guard_s, ei))
                            orcs.append(oracle(root, vc, cwd_e))
                out.append({"runs": runs, "oracles": orcs})
            finally:
                os.chdir(home)
                shutil.rmtree(root, ignore_errors=True)
    finally:
        os.chdir(home)
        shutil.rmtree(top, ignore_errors=True)
    sys.stdout.flush()
    print()
    print(json.dumps({"results": out}))


if __name__ == "__main__":
    main()
