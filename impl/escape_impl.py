"""runs the REAL text layer of the generated bindings (neuroml/nml/nml.py of the tree under test) for the
correspondence with coq/Model/Escape.v and for the property predicate "a string is read back verbatim".

stdin : {"strings": [str], "raw_attr": [str], "raw_text": [str], "ints": [int], "raw_ints": [str], "floats": [str]}
stdout: one JSON document (last line)
  strings[i]  -> {"qa": quote_attrib(s), "qx": quote_xml(s),
                  "pa": value lxml gives for  <a v=QA/>   (null = not well-formed),
                  "px": text lxml gives for   <a>QX</a>   (null = not well-formed / not pure character data),
                  "back_attr": what _buildAttributes would store, "back_text": what _buildChildren would store}
  raw_attr[i] -> parsed value or null;   raw_text[i] -> parsed text or null
  ints[i]     -> {"fmt": gds_format_integer(z), "back": gds_parse_integer(fmt)}
  raw_ints[i] -> gds_parse_integer(text) or null when it raises
  floats[i]   -> {"fmt": gds_format_float(x), "back15": "%.15f" % gds_parse_float(fmt), "x15": "%.15f" % x}
The parser is the one the loaders use (nml.parsexmlstring_ -> lxml ETCompatXMLParser); a second parse with a plain
lxml XMLParser (comments / processing instructions kept) decides whether the content is pure character data.
"""
import json
import sys

from lxml import etree

import neuroml.nml.nml as nml

GS = nml.GeneratedsSuper()


def parse_attr(quoted):
    doc = b"<a v=" + quoted.encode("utf-8") + b"/>"
    try:
        root = nml.parsexmlstring_(doc)
    except Exception:
        return None
    return nml.find_attr_value_("v", root)


def parse_text(content):
    doc = b"<a>" + content.encode("utf-8") + b"</a>"
    try:
        root = nml.parsexmlstring_(doc)
        plain = etree.fromstring(doc, parser=etree.XMLParser(remove_comments=False, remove_pis=False))
    except Exception:
        return None, None
    if len(root) or len(plain) or root.attrib:
        return None, None
    return (root.text or ""), root


def main():
    P = json.load(sys.stdin)
    out = {"strings": [], "raw_attr": [], "raw_text": [], "ints": [], "raw_ints": [], "floats": []}
    for s in P.get("strings", []):
        r = {}
        try:
            r["qa"] = GS.gds_encode(GS.gds_format_string(nml.quote_attrib(s), input_name="v"))
            r["qx"] = GS.gds_encode(GS.gds_format_string(nml.quote_xml(s), input_name="a"))
        except Exception as e:  # the writer itself raises
            r["err"] = "%s: %s" % (type(e).__name__, e)
            out["strings"].append(r)
            continue
        r["pa"] = parse_attr(r["qa"])
        r["back_attr"] = r["pa"]
        px, root = parse_text(r["qx"])
        r["px"] = px
        if root is not None:
            v = root.text
            v = GS.gds_parse_string(v, root, "a")
            v = GS.gds_validate_string(v, root, "a")
            r["back_text"] = v
        else:
            r["back_text"] = None
        out["strings"].append(r)
    for q in P.get("raw_attr", []):
        out["raw_attr"].append(parse_attr(q))
    for q in P.get("raw_text", []):
        out["raw_text"].append(parse_text(q)[0])
    for z in P.get("ints", []):
        f = GS.gds_format_integer(z)
        try:
            b = GS.gds_parse_integer(f)
        except Exception as e:
            b = None
        out["ints"].append({"fmt": f, "back": b})
    for t in P.get("raw_ints", []):
        try:
            out["raw_ints"].append(GS.gds_parse_integer(t))
        except BaseException:
            out["raw_ints"].append(None)
    for t in P.get("floats", []):
        x = float(t)
        f = GS.gds_format_float(x)
        try:
            b = GS.gds_parse_float(f)
            b15 = "%.15f" % b
        except Exception:
            b15 = None
        out["floats"].append({"fmt": f, "back15": b15, "x15": "%.15f" % x})
    print(json.dumps(out))


if __name__ == "__main__":
    main()
