"""C02: runs the real constructors / validate / writer on conforming trees (through c03_impl.run_case) and, for the
correspondence of Model/Xsd.v with libxml2, mutates the XML the real writer produced.

stdin: {"order":..., "cases":[{"tree","tag","doc","mut": null | {"kind","seed"}}..], "want":[..]}
For a case with "mut" the text written by the real code is parsed, one mutation is applied to the lxml tree
(attribute renamed / attribute value replaced / adjacent children of different tags swapped / child dropped / child
duplicated), and the result carries  mxml (infoset of the mutated element)  and  mlx (libxml2's verdict on it)."""
import io
import json
import os
import random
import shutil
import sys
import tempfile

from lxml import etree

import c03_impl as base


def elements(root):
    return [e for e in root.iter() if isinstance(e.tag, str)]


def mutate(root, kind, rng):
    els = elements(root)
    if kind == "attr-renamed":
        c = [e for e in els if any("}" not in a for a in e.attrib)]
        if not c:
            return None
        e = rng.choice(c)
        a = rng.choice([a for a in e.attrib if "}" not in a])
        v = e.attrib.pop(a)
        e.set(a + "X", v)
        return "%s/@%s" % (etree.QName(e).localname, a)
    if kind == "attr-value":
        c = [e for e in els if any("}" not in a for a in e.attrib)]
        if not c:
            return None
        e = rng.choice(c)
        a = rng.choice([a for a in e.attrib if "}" not in a])
        e.set(a, rng.choice(["bad id!", "-3", "", "1.5", "x"]))
        return "%s/@%s" % (etree.QName(e).localname, a)
    if kind == "kids-swapped":
        c = []
        for e in els:
            ks = [k for k in e if isinstance(k.tag, str)]
            for i in range(len(ks) - 1):
                if ks[i].tag != ks[i + 1].tag:
                    c.append((e, ks[i], ks[i + 1]))
        if not c:
            return None
        e, a, b = rng.choice(c)
        e.remove(b)
        a.addprevious(b)
        return "%s: %s<->%s" % (etree.QName(e).localname, etree.QName(a).localname, etree.QName(b).localname)
    if kind == "kid-dropped":
        c = [(e, k) for e in els for k in e if isinstance(k.tag, str)]
        if not c:
            return None
        e, k = rng.choice(c)
        e.remove(k)
        return "%s/%s" % (etree.QName(e).localname, etree.QName(k).localname)
    if kind == "kid-duplicated":
        c = [(e, k) for e in els for k in e if isinstance(k.tag, str)]
        if not c:
            return None
        e, k = rng.choice(c)
        import copy
        k.addnext(copy.deepcopy(k))
        return "%s/%s" % (etree.QName(e).localname, etree.QName(k).localname)
    raise ValueError(kind)


def float_fuzz(P):
    """exercise the two hypotheses of C02_valid about CPython float formatting with the REAL formatters:
       H1  float(gds_format_double(f)) == f
       H2  g = float(gds_format_float(f)) is finite and never crosses a decimal bound d with <= 15 fractional digits:
           not f < d  ->  not g < d ;  not d < f  ->  not d < g"""
    import math
    import neuroml.nml.nml as m
    G = m.GeneratedsSuper()
    rng = random.Random(P["seed"])
    bounds = [0.0, 1.0, -1.0, 0.5, 0.1, 0.25, 1e-15, 123.456, 0.999999999999999, 1e-3, 7.0, -0.3]
    bad = []
    n = 0
    for i in range(P["n"]):
        k = rng.random()
        if k < 0.3:
            f = rng.choice(bounds) + rng.choice([0.0, 1e-16, -1e-16, 2e-16, 5e-16, -5e-16, 1e-15, -1e-15, 1e-17])
        elif k < 0.6:
            f = rng.uniform(-2, 2) * 10.0 ** rng.randint(-20, 20)
        elif k < 0.8:
            f = rng.uniform(0, 1)
        else:
            f = float(rng.randint(-10 ** 6, 10 ** 6)) / rng.choice([1, 2, 4, 8, 1000])
        n += 1
        try:
            if float(G.gds_format_double(f)) != f:
                bad.append(["H1", repr(f), G.gds_format_double(f)])
            g = float(G.gds_format_float(f))
            if not math.isfinite(g):
                bad.append(["H2-finite", repr(f), G.gds_format_float(f)])
            for d in bounds:
                if (not f < d and g < d) or (not d < f and d < g):
                    bad.append(["H2", repr(f), G.gds_format_float(f), repr(d)])
        except Exception as e:  # noqa
            bad.append(["raised", repr(f), type(e).__name__ + ": " + str(e)[:100]])
    print(json.dumps({"n": n, "bad": bad[:20]}))


def history_case(case, order):
    """validate() must be a function of the tree: the same objects validated again, violated, validated, restored and
    validated again; every step records the dumped tree and what validate reported, plus a freshly built equal tree"""
    r = {"steps": []}
    try:
        o = base.construct(case["tree"])
        node = base.sub(o, case["path"])

        def snap(label):
            r["steps"].append({"label": label, "obj": base.dump(o, order), "rec": base.run_validate(o, True),
                               "nonrec": base.run_validate(o, False), "node_nonrec": base.run_validate(node, False)})
        snap("fresh")
        snap("again")
        orig = getattr(node, case["member"])
        setattr(node, case["member"], base.conv(case["bad"]))
        snap("violated")
        setattr(node, case["member"], orig)
        snap("restored")
        snap("restored-again")
        o2 = base.construct(case["tree"])
        r["rebuilt"] = {"obj": base.dump(o2, order), "rec": base.run_validate(o2, True)}
        f = io.StringIO()
        o.export(f, 0, name_=case["tag"], namespacedef_=base.writer_namespacedef())
        r["lx"], _ = base.lx_validate_text(f.getvalue())
    except Exception as e:  # noqa
        r["err"] = type(e).__name__ + ": " + str(e)[:300]
    return r


def add_history():
    """add(<type name>, validate=True, ...) failing, then succeeding on the same parent; the parent validates"""
    import neuroml
    out = {}
    try:
        doc = neuroml.NeuroMLDocument(id="doc")
        kw = dict(leak_reversal="-60mV", thresh="-50mV", reset="-65mV", C="1nF", leak_conductance="0.05uS")
        try:
            doc.add("IafCell", id="bad id!", validate=True, **kw)
            out["bad_add"] = "accepted"
        except ValueError:
            out["bad_add"] = "ValueError"
        out["cells_after_bad_add"] = len(doc.iaf_cells)
        try:
            doc.add("IafCell", id="good", validate=True, **kw)
            out["good_add"] = "accepted"
        except Exception as e:  # noqa
            out["good_add"] = type(e).__name__ + ": " + str(e)[:200]
        out["cells_after_good_add"] = len(doc.iaf_cells)
        out["doc"] = base.run_validate(doc, True)
        out["doc_again"] = base.run_validate(doc, True)
    except Exception as e:  # noqa
        out["err"] = type(e).__name__ + ": " + str(e)[:300]
    return out


class FailingFile(object):
    """a file object whose k-th write() raises OSError (disk full)"""
    def __init__(self, k):
        self.k, self.n, self.parts = k, 0, []

    def write(self, s):
        self.n += 1
        if self.n >= self.k:
            raise OSError(28, "No space left on device (injected)")
        self.parts.append(s)

    def close(self):
        pass


def find_single_child(o, depth=0):
    """(holder, member name) of some component-valued, non-list member below o"""
    import neuroml.nml.generatedssupersuper as gss
    for c in type(o).__mro__:
        for m in vars(c).get("member_data_items_", []):
            v = getattr(o, m.get_name(), None)
            if isinstance(v, gss.GeneratedsSuperSuper) and depth >= 1:
                return o, m.get_name()
            for k in (v if isinstance(v, list) else [v]):
                if isinstance(k, gss.GeneratedsSuperSuper):
                    r = find_single_child(k, depth + 1)
                    if r:
                        return r
    return None


def first_child(o):
    import neuroml.nml.generatedssupersuper as gss
    for c in type(o).__mro__:
        for m in vars(c).get("member_data_items_", []):
            v = getattr(o, m.get_name(), None)
            for k in (v if isinstance(v, list) else [v]):
                if isinstance(k, gss.GeneratedsSuperSuper):
                    return k
    return None


def write_text(doc, d, name):
    from neuroml.writers import NeuroMLWriter
    fn = os.path.join(d, name)
    NeuroMLWriter.write(doc, fn)
    return open(fn).read()


def export_text(comp, tag):
    f = io.StringIO()
    comp.export(f, 0, name_=tag, namespacedef_=base.writer_namespacedef())
    return f.getvalue()


def fresh_text(P):
    """what a fresh process writes for one document / exports for one component"""
    tmp = tempfile.mkdtemp(prefix="verif_c02_fresh_")
    try:
        o = base.construct(P["tree"])
        return write_text(o, tmp, "fresh.nml") if P["doc"] else export_text(o, P["tag"])
    finally:
        shutil.rmtree(tmp, ignore_errors=True)


def write_history(P):
    """writes of conforming documents / exports of conforming components in ONE process, with failing writes in
    between; every successful output is compared (by the caller) with what a fresh process produces"""
    import subprocess
    from concurrent.futures import ThreadPoolExecutor
    from neuroml.writers import NeuroMLWriter
    docs, comps = P["docs"], P["components"]
    tmp = tempfile.mkdtemp(prefix="verif_c02_wh_")
    out = {"ops": []}

    def fresh(item):
        fn = os.path.join(tmp, "fresh_%d.json" % item[0])
        json.dump(item[1], open(fn, "w"))
        p = subprocess.run([sys.executable, os.path.abspath(__file__), "--fresh", fn], capture_output=True, text=True, timeout=300)
        lines = [l for l in p.stdout.splitlines() if l.startswith("@@")]
        return json.loads(lines[-1][2:]) if p.returncode == 0 and lines else {"err": p.stderr[-300:]}
    items = [(i, {"tree": t, "doc": True}) for i, t in enumerate(docs)] + \
            [(len(docs) + i, {"tree": c["tree"], "tag": c["tag"], "doc": False}) for i, c in enumerate(comps)]
    try:
        with ThreadPoolExecutor(max_workers=8) as ex:
            fr = list(ex.map(fresh, items))
        out["fresh_docs"] = fr[:len(docs)]
        out["fresh_comps"] = fr[len(docs):]
        n = [0]

        def op(kind, idx, fn):
            n[0] += 1
            rec = {"op": kind, "index": idx}
            try:
                rec["text"] = fn()
                rec["raised"] = None
            except Exception as e:  # noqa
                rec["raised"] = type(e).__name__
            out["ops"].append(rec)

        def ok_doc(i):
            op("write", i, lambda: write_text(base.construct(docs[i]), tmp, "w%d.nml" % n[0]))

        def ok_comp(i):
            op("export", i, lambda: export_text(base.construct(comps[i]["tree"]), comps[i]["tag"]))

        def fail_nonchild(i):
            def f():
                o = base.construct(docs[i])
                r = find_single_child(o)
                if r:
                    setattr(r[0], r[1], "m0")            # a string where a component is expected
                else:
                    k = first_child(o)
                    k.export = None                       # not callable
                return write_text(o, tmp, "f%d.nml" % n[0])
            op("failing-write:non-component-child", i, f)

        def fail_childraise(i):
            def f():
                o = base.construct(docs[i])
                k = first_child(o)
                kk = first_child(k) or k

                def boom(*a, **kw):
                    raise RuntimeError("injected failure in a child export")
                kk.export = boom
                return write_text(o, tmp, "f%d.nml" % n[0])
            op("failing-write:child-export-raises", i, f)

        def fail_io(i, k):
            def f():
                NeuroMLWriter.write(base.construct(docs[i]), FailingFile(k), close=False)
                return ""
            op("failing-write:io-error-at-write-%d" % k, i, f)
        nd = len(docs)
        ok_doc(0)
        ok_comp(0)
        fail_nonchild(1 % nd)
        ok_doc(0)
        ok_doc(2 % nd)
        ok_comp(0)
        fail_childraise(2 % nd)
        ok_doc(1 % nd)
        ok_comp(len(comps) - 1)
        fail_io(1 % nd, 1)
        ok_doc(1 % nd)
        fail_io(2 % nd, 7)
        ok_doc(0)
        ok_comp(0)
        for j in range(3, nd):
            fail_nonchild(j)
            ok_doc(j)
            ok_doc(0)
        for r in out["ops"]:
            if r.get("text"):
                r["lx"], _ = base.lx_validate_text(r["text"])
    except Exception as e:  # noqa
        out["err"] = type(e).__name__ + ": " + str(e)[:300]
    finally:
        shutil.rmtree(tmp, ignore_errors=True)
    print(json.dumps(out))


def main():
    if len(sys.argv) > 2 and sys.argv[1] == "--fresh":
        real_stdout = sys.stdout
        sys.stdout = io.StringIO()
        try:
            try:
                r = {"text": fresh_text(json.load(open(sys.argv[2])))}
            except Exception as e:  # noqa
                r = {"err": type(e).__name__ + ": " + str(e)[:300]}
        finally:
            sys.stdout = real_stdout
        print("@@" + json.dumps(r))
        return
    P = json.load(sys.stdin)
    if P.get("mode") == "writehistory":
        return write_history(P)
    if P.get("mode") == "history":
        base.install_recorder()
        real_stdout = sys.stdout
        sys.stdout = io.StringIO()
        try:
            res = [history_case(c, P["order"]) for c in P["cases"]]
            addh = add_history()
        finally:
            sys.stdout = real_stdout
        print(json.dumps({"results": res, "add": addh}))
        return
    if P.get("mode") == "floatfuzz":
        return float_fuzz(P)
    if P.get("mode") == "writerinfo":
        import neuroml
        nd = base.writer_namespacedef()
        print(json.dumps({"namespacedef": nd, "root_name": base._ND.get("name"), "version": neuroml.current_neuroml_version}))
        return
    order = P["order"]
    want = P.get("want", ["rec", "text", "xml"])
    tmp = tempfile.mkdtemp(prefix="verif_c02_")
    res = []
    base.install_recorder()
    real_stdout = sys.stdout
    sys.stdout = io.StringIO()
    try:
        for case in P["cases"]:
            r = base.run_case(case, order, tmp, want)
            m = case.get("mut")
            if m and r.get("text") and r.get("lx", {}).get("wellformed") and len(r["text"]) < 6000:
                try:
                    root = etree.fromstring(r["text"].encode("utf-8"))
                    what = mutate(root, m["kind"], random.Random(m["seed"]))
                    if what is not None:
                        s = base.probe_schema()
                        ok = s.validate(root)
                        r["mlx"] = {"valid": bool(ok), "err": None if ok else str(s.error_log.last_error)[:300], "what": what}
                        r["mxml"] = base.xml_json(root)
                except Exception as e:  # noqa
                    r["mut_err"] = type(e).__name__ + ": " + str(e)[:200]
            res.append(r)
    finally:
        sys.stdout = real_stdout
        shutil.rmtree(tmp, ignore_errors=True)
    print(json.dumps({"results": res}))


if __name__ == "__main__":
    main()
