"""C04 on the REAL code: presentation-preserving rewritings of written XML must load to identical documents.
stdin: {"order":…, "tables": {cls: {"ea":[[py,xml,kind,guard_default_text|null]], "ek":[[py,tag,kind,cls]]}}, "cases":[trees], "files":[paths], "seed":n}"""
import io
import json
import re
import os
import random
import shutil
import sys
import tempfile

from lxml import etree

sys.argv = sys.argv[:1]
P = json.load(sys.stdin)
sys.stdin = io.StringIO(json.dumps({"order": P["order"], "cases": []}))
import gds_impl  # noqa  (reuses construct/dump; runs with an empty case list)

from neuroml.loaders import NeuroMLLoader  # noqa
from neuroml.writers import NeuroMLWriter  # noqa

TAB = P["tables"]
rng = random.Random(P.get("seed", 0))
NS = "http://www.neuroml.org/schema/neuroml2"


def annotate(el, dumped):
    """walk the element tree in parallel with the dumped object tree: class of every element"""
    out = {id(el): dumped["cls"]}
    fields = dict((n, v) for n, v in dumped["fields"])
    kids = [k for k in el if isinstance(k.tag, str)]
    pos = 0
    for py, tag, kind, cls in TAB[dumped["cls"]]["ek"]:
        v = fields.get(py)
        if kind == "obj" and v is not None:
            out.update(annotate(kids[pos], v["o"]))
            pos += 1
        elif kind == "objlist" and v:
            for o in v["l"]:
                out.update(annotate(kids[pos], o))
                pos += 1
        elif kind == "text" and v is not None:
            pos += 1
    return out


def respell(kind, s):
    choice = rng.randrange(4)
    if kind == "int":
        if s.startswith("-"):
            return "-00" + s[1:] if choice else s
        return ["+" + s, "00" + s, s, "+0" + s][choice]
    if kind in ("float", "double"):
        neg = s.startswith("-")
        body = s[1:] if neg else s
        if "e" in body.lower() or "n" in body.lower():
            return s
        alt = [body + "0" if "." in body else body + ".0", "0" + body, body + "e0", (body + "00E+00") if "." in body else body + ".00E+00"][choice]
        return ("-" if neg else ("+" if choice == 1 else "")) + alt
    return s


def variants(text, dumped):
    """(name, rewritten text) – all must load to the same document"""
    parser = etree.XMLParser(remove_blank_text=False)
    outs = []

    def fresh():
        return etree.fromstring(text.encode("utf-8"), parser)

    def in_raw(el):
        # raw wildcard content (annotation subtrees) is kept verbatim by the bindings: whitespace there is content
        while el is not None:
            if isinstance(el.tag, str) and etree.QName(el).localname == "annotation":
                return True
            el = el.getparent()
        return False

    # 1. attribute order (raw wildcard content under <annotation> is kept as text by the bindings and compared as
    #    text by the dump, so it is left alone: the same convention as for the whitespace rewriters below)
    root = fresh()
    for el in root.iter():
        if isinstance(el.tag, str) and len(el.attrib) > 1 and not in_raw(el):
            items = list(el.attrib.items())
            rng.shuffle(items)
            for k in list(el.attrib):
                del el.attrib[k]
            for k, v in items:
                el.set(k, v)
    outs.append(("attribute-order", etree.tostring(root, encoding="unicode")))
    def in_raw(el):
        # raw wildcard content (annotation subtrees) is kept verbatim by the bindings: whitespace there is content
        while el is not None:
            if isinstance(el.tag, str) and etree.QName(el).localname == "annotation":
                return True
            el = el.getparent()
        return False

    # 2. comments + whitespace between elements (never inside leaf text or raw annotation content)
    root = fresh()
    for el in list(root.iter()):
        if not isinstance(el.tag, str) or in_raw(el):
            continue
        if len(el) > 0:
            el.text = "\n\t  " if rng.random() < 0.5 else None
            el.insert(rng.randrange(len(el) + 1), etree.Comment(" presentation only <not> & data "))
            for k in el:
                k.tail = rng.choice(["\n", "  \n\n   ", None, "\t"])
    outs.append(("comments-whitespace", etree.tostring(root, encoding="unicode")))
    # 3. fully compact (outside raw annotation content)
    root = fresh()
    for el in list(root.iter()):
        if not isinstance(el.tag, str) or in_raw(el):
            continue
        if len(el) > 0:
            if el.text is not None and not el.text.strip():
                el.text = None
            for k in el:
                if k.tail is not None and not k.tail.strip() and not (isinstance(k.tag, str) and etree.QName(k).localname == "annotation"):
                    k.tail = None
    outs.append(("compact", etree.tostring(root, encoding="unicode")))
    if dumped is not None:
        root = fresh()
        cls_of = annotate(root, dumped)
        # 4. defaults written explicitly
        n_def = 0
        root4 = root
        for el in root4.iter():
            c = cls_of.get(id(el))
            if c is None:
                continue
            for py, xml, kind, dflt in TAB[c]["ea"]:
                if dflt is not None and xml not in el.attrib:
                    el.set(xml, dflt)
                    n_def += 1
        if n_def:
            outs.append(("explicit-defaults", etree.tostring(root4, encoding="unicode")))
        # 5. equivalent spellings of numbers
        root = fresh()
        cls_of = annotate(root, dumped)
        n_sp = 0
        for el in root.iter():
            c = cls_of.get(id(el))
            if c is None:
                continue
            for py, xml, kind, dflt in TAB[c]["ea"]:
                if kind in ("int", "float", "double") and xml in el.attrib:
                    new = respell(kind, el.attrib[xml])
                    if new != el.attrib[xml]:
                        el.set(xml, new)
                        n_sp += 1
        if n_sp:
            outs.append(("number-spelling", etree.tostring(root, encoding="unicode")))
    # 7. namespace prefixes: the whole document under a prefix, and a prefix declared locally on some leaf elements
    #    (raw annotation content is kept as serialised text, prefixes included, so documents with annotations are skipped)
    if "<annotation" not in text:
        root = fresh()
        new = etree.Element(root.tag, nsmap=dict([("n", NS)] + [(k, v) for k, v in root.nsmap.items() if k]))
        new.text = root.text
        for k, v in root.attrib.items():
            new.set(k, v)
        for ch in list(root):
            new.append(ch)
        etree.cleanup_namespaces(new)
        pt = etree.tostring(new, encoding="unicode")
        if "<n:" in pt:
            outs.append(("namespace-prefix", pt))
        cnt = [0]

        def loc(m):
            if (cnt[0] >= 2 and rng.random() < 0.5) or m.group(1).startswith("?"):
                return m.group(0)
            cnt[0] += 1
            return '<q%d:%s xmlns:q%d="%s"%s/>' % (cnt[0] % 2, m.group(1), cnt[0] % 2, NS, m.group(2))
        lt = re.sub(r"<([A-Za-z_][\w.-]*)((?:\s[^<>]*?)?)/>", loc, text)
        if cnt[0]:
            outs.append(("namespace-prefix-local", lt))
    # 6. XML declaration + single quotes are exercised through "compact"/lxml serialisation; add a declaration
    if not text.lstrip().startswith("<?xml"):
        outs.append(("xml-declaration", '<?xml version="1.0" encoding="UTF-8"?>\n<!-- leading comment -->\n' + text))
    return outs


def load_dump(path):
    return gds_impl.dump(NeuroMLLoader.load(path))


FRESH = [0]
res = []
d = tempfile.mkdtemp(prefix="verif_c04_")
try:
    jobs = [("tree", c) for c in P["cases"]] + [("file", f) for f in P.get("files", [])]
    for kind, item in jobs:
        r = {"kind": kind, "variants": []}
        try:
            if kind == "tree":
                doc = gds_impl.construct(item["tree"])
                fn = os.path.join(d, "orig.nml")
                NeuroMLWriter.write(doc, fn)
                base = load_dump(fn)
                dumped = base
            else:
                fn = item
                base = load_dump(fn)
                dumped = None
            text = open(fn).read()
            r["size"] = len(text)
            if kind == "file":
                # load/write cycles on a shipped example: document and bytes must stabilise
                cur = NeuroMLLoader.load(fn)
                texts, dumps = [], []
                for i in range(3):
                    cf = os.path.join(d, "cyc%d.nml" % i)
                    NeuroMLWriter.write(cur, cf)
                    texts.append(open(cf).read())
                    cur = NeuroMLLoader.load(cf)
                    dumps.append(gds_impl.dump(cur))
                r["cycle"] = {"doc_fixed": dumps[0] == dumps[1] == dumps[2] == base, "bytes_stable": texts[1] == texts[2],
                              "has_annotation": "<annotation" in text, "lens": [len(t) for t in texts]}
            for name, vt in variants(text, dumped):
                vf = os.path.join(d, "variant.nml")
                open(vf, "w").write(vt)
                try:
                    got = load_dump(vf)
                    same = got == base
                    entry = {"name": name, "same": same}
                    if not same:
                        diff = [(a[0]) for a, b in zip(base["fields"], got["fields"]) if a != b][:4]
                        entry["diff"] = diff
                        entry["text"] = vt[:1500]
                    r["variants"].append(entry)
                    if name.startswith("namespace-prefix") and same:
                        # a document loaded from prefixed text must itself be a load/write fixed point
                        cur = NeuroMLLoader.load(vf)
                        texts, dumps = [], []
                        for i in range(2):
                            cf = os.path.join(d, "pcyc%d.nml" % i)
                            NeuroMLWriter.write(cur, cf)
                            texts.append(open(cf).read())
                            cur = NeuroMLLoader.load(cf)
                            dumps.append(gds_impl.dump(cur))
                        ok = dumps[0] == dumps[1] == base and texts[0] == texts[1]
                        # the bytes written do not depend on the interpreter's hash seed (set/dict iteration order)
                        if ok and name == "namespace-prefix-local" and FRESH[0] < 3:
                            FRESH[0] += 1
                            import subprocess
                            for hs in ("1", "7"):
                                of = os.path.join(d, "fresh_%s.nml" % hs)
                                env = dict(os.environ); env["PYTHONHASHSEED"] = hs
                                code = ("import sys\nfrom neuroml.loaders import NeuroMLLoader\nfrom neuroml.writers import NeuroMLWriter\n"
                                        "NeuroMLWriter.write(NeuroMLLoader.load(sys.argv[1]), sys.argv[2])\n")
                                pr = subprocess.run([sys.executable, "-c", code, vf, of], env=env, capture_output=True, text=True, timeout=300)
                                if pr.returncode != 0 or open(of).read() != texts[0]:
                                    ok = False
                                    e3 = {"name": name + ":fresh-process-bytes", "same": False,
                                          "diff": ["the same document is written to different bytes by an interpreter started with PYTHONHASHSEED=%s" % hs],
                                          "text": vt[:1500]}
                                    r["variants"].append(e3)
                                    break
                            ok = True
                        e2 = {"name": name + ":write-reload", "same": ok}
                        if not ok:
                            e2["diff"] = ["document differs after write/reload" if dumps[0] != base else "bytes not stable"]
                            e2["text"] = vt[:1500]
                        r["variants"].append(e2)
                except Exception as e:  # noqa
                    r["variants"].append({"name": name, "same": False, "err": type(e).__name__ + ": " + str(e)[:300], "text": vt[:1500]})
        except Exception as e:  # noqa
            import traceback
            r["err"] = type(e).__name__ + ": " + str(e)[:300] + traceback.format_exc()[-500:]
        res.append(r)
    # raw document texts: load -> write -> load must be a fixed point
    probes = []
    for name, text in P.get("texts", []):
        pr = {"name": name}
        try:
            f0 = os.path.join(d, "probe0.nml")
            open(f0, "w").write(text)
            d0 = NeuroMLLoader.load(f0)
            dump0 = gds_impl.dump(d0)
            f1 = os.path.join(d, "probe1.nml")
            NeuroMLWriter.write(d0, f1)
            dump1 = load_dump(f1)
            pr["fixed"] = dump0 == dump1
            if not pr["fixed"]:
                pr["diff"] = [[a, b] for a, b in zip(json.dumps(dump0).split('"'), json.dumps(dump1).split('"')) if a != b][:3]
        except Exception as e:  # noqa
            pr["err"] = type(e).__name__ + ": " + str(e)[:200]
        probes.append(pr)
    # an internal general entity is presentation: the document loads like the one with the entity written out
    try:
        from neuroml.loaders import read_neuroml2_string
        cell = '<izhikevichCell id="iz1" v0="-70mV" thresh="30mV" a="0.02" b="0.2" c="-50" d="2"/>'
        body = '<neuroml xmlns="%s" id="ent"><notes>made by %s in 2020</notes><property tag="lab" value="%s"/>%s</neuroml>'
        te = '<?xml version="1.0"?>\n<!DOCTYPE neuroml [<!ENTITY lab "Smith Lab"> ]>\n' + body % (NS, "&lab;", "&lab; (x)", cell)
        tx = body % (NS, "Smith Lab", "Smith Lab (x)", cell)
        fe, fx = os.path.join(d, "ent.nml"), os.path.join(d, "ent_expanded.nml")
        open(fe, "w").write(te)
        open(fx, "w").write(tx)
        da, db, dc = load_dump(fe), load_dump(fx), gds_impl.dump(read_neuroml2_string(te))
        probes.append({"name": "internal-general-entity", "fixed": da == db == dc,
                       "diff": [json.dumps(x)[:300] for x in (da, db, dc)] if not (da == db == dc) else None})
    except Exception as e:  # noqa
        probes.append({"name": "internal-general-entity", "err": type(e).__name__ + ": " + str(e)[:200]})
    # history: what is written for one loaded document does not depend on which document was loaded last
    try:
        from neuroml.loaders import read_neuroml2_string
        cellp = '<n:izhikevichCell id="iz1" v0="-70mV" thresh="30mV" a="0.02" b="0.2" c="-50" d="2"/>'
        tp = '<n:neuroml xmlns:n="%s" id="pdoc"><n:notes>prefixed</n:notes>%s</n:neuroml>' % (NS, cellp)
        tu = '<neuroml xmlns="%s" id="udoc"><notes>plain</notes>%s</neuroml>' % (NS, cellp.replace("n:", ""))
        dp = read_neuroml2_string(tp)
        f1 = os.path.join(d, "hist_p1.nml")
        NeuroMLWriter.write(dp, f1)
        b1 = open(f1, "rb").read()
        du = read_neuroml2_string(tu)
        f2 = os.path.join(d, "hist_p2.nml")
        NeuroMLWriter.write(dp, f2)
        fu = os.path.join(d, "hist_u.nml")
        NeuroMLWriter.write(du, fu)
        ok = open(f2, "rb").read() == b1 and load_dump(f2) == gds_impl.dump(dp) and load_dump(fu) == gds_impl.dump(du)
        du2 = read_neuroml2_string(tu)
        dp2 = read_neuroml2_string(tp)
        NeuroMLWriter.write(du2, fu)
        ok = ok and load_dump(fu) == gds_impl.dump(du2) and b"n:" not in open(fu, "rb").read()
        probes.append({"name": "write-after-another-document-was-loaded", "fixed": ok})
    except Exception as e:  # noqa
        probes.append({"name": "write-after-another-document-was-loaded", "err": type(e).__name__ + ": " + str(e)[:200]})
    # scale: a document larger than 10 MB with comments (inside text, between elements) loads like the same document without them
    try:
        half = "x" * 2650000
        cell = '<izhikevichCell id="iz1" v0="-70mV" thresh="30mV" a="0.02" b="0.2" c="-50" d="2"/>'
        t0 = '<neuroml xmlns="%s" id="big"><notes>%s%s</notes><property tag="t" value="%s%s"/>%s</neuroml>' % (NS, half, half, half, half, cell)
        t1 = ('<neuroml xmlns="%s" id="big"><notes>%s<!-- presentation only -->%s</notes><!-- between --><property tag="t" value="%s%s"/>%s<!-- end --></neuroml>'
              % (NS, half, half, half, half, cell))
        fb0, fb1 = os.path.join(d, "big0.nml"), os.path.join(d, "big1.nml")
        open(fb0, "w").write(t0)
        open(fb1, "w").write(t1)
        from neuroml.loaders import read_neuroml2_string
        da, db = load_dump(fb0), load_dump(fb1)
        dc = gds_impl.dump(read_neuroml2_string(t1))
        probes.append({"name": "document-over-10MB-with-comments", "fixed": da == db == dc,
                       "diff": [len(json.dumps(x)) for x in (da, db, dc)]})
    except Exception as e:  # noqa
        probes.append({"name": "document-over-10MB-with-comments", "err": type(e).__name__ + ": " + str(e)[:200]})
    # the same file (with an include) loaded repeatedly in one process must give the same document every time
    try:
        from neuroml.loaders import read_neuroml2_file
        inc = os.path.join(d, "inc.cell.nml")
        open(inc, "w").write('<neuroml xmlns="%s" id="inc"><izhikevichCell id="iz1" v0="-70mV" thresh="30mV" a="0.02" b="0.2" c="-50" d="2"/></neuroml>' % NS)
        main = os.path.join(d, "main.nml")
        open(main, "w").write('<neuroml xmlns="%s" id="main"><include href="inc.cell.nml"/><pulseGenerator id="pg" delay="1ms" duration="2ms" amplitude="1nA"/></neuroml>' % NS)
        dumps = []
        for i in range(3):
            dumps.append(gds_impl.dump(read_neuroml2_file(main, include_includes=True)))
        probes.append({"name": "same-file-with-include-loaded-three-times", "fixed": dumps[0] == dumps[1] == dumps[2],
                       "diff": [len(json.dumps(x)) for x in dumps]})
    except Exception as e:  # noqa
        probes.append({"name": "same-file-with-include-loaded-three-times", "err": type(e).__name__ + ": " + str(e)[:200]})
finally:
    shutil.rmtree(d, ignore_errors=True)
print(json.dumps({"results": res, "probes": probes}))
