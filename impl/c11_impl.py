"""runs the REAL introspection of the bindings: info(), parentinfo(), inspect.signature of every constructor, and
get_by_id on generated documents / networks.  stdin: {"order":..., "classes":[...], "idcases":[...]}; last stdout line: JSON."""
import inspect
import io
import json
import sys

import neuroml.nml.nml as nml

import c10_impl as H


def ro(required):
    return "R" if required else "O"


def introspect(classes):
    out = []
    for c in classes:
        r = {"cls": c}
        try:
            cls = getattr(nml, c)
            o = cls()
            d = o.info(show_contents=True, return_format="dict")
            r["info"] = sorted("%s|%s|%s" % (n, v["type"], ro(v["required"])) for n, v in d.items())
            r["info_bool"] = all(isinstance(v["required"], bool) for v in d.values())
            r["list"] = list(o.info(return_format="list"))
            r["list_from_dict"] = list(o.info(show_contents=True, return_format="list"))
            p = o.parentinfo(return_format="dict")
            r["parents"] = sorted("%s|%s|%s|%s" % (pc, n, v["type"], ro(v["required"])) for pc, ms in p.items() for n, v in ms.items())
            r["parent_list"] = sorted(o.parentinfo(return_format="list"))
            sig = inspect.signature(cls.__init__)
            names = []
            for n, prm in sig.parameters.items():
                if n == "self" or n == "gds_collector_" or prm.kind == inspect.Parameter.VAR_KEYWORD:
                    continue
                names.append(n)
            r["sig"] = names
            r["has_kwargs"] = any(prm.kind == inspect.Parameter.VAR_KEYWORD for prm in sig.parameters.values())
            # the keywords the constructor accepts AND uses: each is stored under an attribute of the same name
            r["unused_kw"] = [n for n in names if not hasattr(o, n)]
        except Exception as e:  # noqa
            import traceback
            r["error"] = type(e).__name__ + ": " + str(e)[:200] + " @ " + traceback.format_exc()[-500:]
        out.append(r)
    return out


RESERVED = {"cls", "component_type", "validate", "self"}


def derived_keys(names, exhaustive):
    """keywords that resemble member names without being one: every proper prefix / suffix / infix (length >= 1) of some member
    names (quick: first, last, longest, shortest; thorough: all), single letters, two names joined by ',' / ', ' / '', and the
    whole sorted list joined.  Deterministic."""
    names = list(names)
    if not names:
        return []
    pick = names if exhaustive else list(dict.fromkeys([names[0], names[-1], max(names, key=len), min(names, key=len)]))
    out = []
    for n in pick:
        for i in range(len(n)):
            for j in range(i + 1, len(n) + 1):
                if j - i < len(n):
                    out.append(n[i:j])
    out += list("abcdefghijklmnopqrstuvwxyz_ ,")
    for a, b in zip(names, names[1:] + names[:1]):
        out += [a + "," + b, a + ", " + b, a + b]
        if not exhaustive:
            break
    out += [", ".join(sorted(names)), ",".join(names), ", ".join(sorted(names))[1:-1]]
    bad = set(names) | RESERVED
    return [k for k in dict.fromkeys(out) if k and k not in bad]


def acceptance(classes, table_names, exhaustive):
    """the factory against info(): every member info() reports is accepted as a keyword, every derived non-member keyword is
    refused - string and class form, class method and neuroml.utils wrapper (validation off: only the argument check matters)"""
    import neuroml
    import neuroml.utils
    out = []
    neuroml.disable_build_time_validation()
    try:
        for c in classes:
            r = {"cls": c, "members_refused": [], "nonmembers_accepted": [], "n_members": 0, "n_nonmembers": 0}
            try:
                cls = getattr(nml, c)
                sys.stdout = io.StringIO()
                info = list(cls().info(return_format="list"))
                names = list(dict.fromkeys(list(table_names.get(c, [])) + info))

                def attempt(key, i):
                    sys.stdout = io.StringIO()
                    arg = c if i % 2 == 0 else cls
                    try:
                        if i % 4 < 2:
                            nml.NeuroMLDocument.component_factory(arg, validate=False, **{key: None})
                        else:
                            neuroml.utils.component_factory(arg, False, **{key: None})
                        return None
                    except ValueError as e:
                        m = str(e)
                        return "ValueError: " + (m[:60] if "is not a permitted argument" not in m[:60] else m[:60]) + (
                            " .. is not a permitted argument" if "is not a permitted argument" in m and "is not a permitted argument" not in m[:60] else "")
                    except Exception as e:  # noqa
                        return type(e).__name__ + ": " + str(e)[:60]
                for n in info:
                    for i in (0, 1, 2, 3):
                        r["n_members"] += 1
                        e = attempt(n, i)
                        if e is not None and "is not a permitted argument" in e:
                            r["members_refused"].append([n, i, e])
                for i, k in enumerate(derived_keys(names, exhaustive)):
                    r["n_nonmembers"] += 1
                    e = attempt(k, i)
                    if e is None or "is not a permitted argument" not in e:
                        r["nonmembers_accepted"].append([k, i, e])
                r["nonmembers_accepted_count"] = len(r["nonmembers_accepted"])
                r["nonmembers_accepted"] = r["nonmembers_accepted"][:12]
            except Exception as e:  # noqa
                r["error"] = type(e).__name__ + ": " + str(e)[:200]
            out.append(r)
    finally:
        neuroml.enable_build_time_validation()
    return out


def module_classes():
    """what parentinfo iterates over: names in dir(module) bound to plain classes"""
    out = []
    for ac in dir(nml):
        cc = getattr(nml, ac, None)
        if type(cc) is type:
            out.append(ac)
    return out


def brute(obj, i):
    """the component get_by_id has to return, by a plain scan of the document as it is now (own list members, in order)"""
    for ms in type(obj).member_data_items_:
        v = getattr(obj, ms.get_name(), None)
        if isinstance(v, H.SEQ):
            for m in v:
                if hasattr(m, "id") and m.id == i:
                    return m
    return None


def mutate(obj, step):
    lst = getattr(obj, step["member"])
    if step["op"] == "remove":
        del lst[step["index"]]
    elif step["op"] == "rename":
        lst[step["index"]].id = step["id"]
    elif step["op"] == "replace":
        lst[step["index"]] = H.construct(step["tree"])
    elif step["op"] == "append":
        lst.append(H.construct(step["tree"]))
    else:
        raise ValueError(step["op"])


def run_idcase(case, real_stdout):
    """one document/network and a history of get_by_id look ups and edits on it"""
    res = {"lookups": [], "states": []}
    obj = H.construct(case["tree"])
    for kv in case.get("set", []):      # raw attribute assignments (values the constructors would not produce)
        setattr(obj, kv[0], kv[1])
    res["obj"] = H.dump(obj)
    res["states"].append(res["obj"])
    steps = case.get("steps") or [{"op": "lookup", "id": i} for i in case["ids"]]
    for step in steps:
        if step["op"] != "lookup":
            mutate(obj, step)
            res["states"].append(H.dump(obj))
            res["lookups"].append({"mutated": step["op"], "state": len(res["states"]) - 1})
            continue
        i = step["id"]
        r = {"wc": obj.warn_count, "state": len(res["states"]) - 1}
        keys_before = set(vars(obj).keys())
        try:
            expected = brute(obj, i)
        except Exception:  # noqa
            expected = None
        buf = io.StringIO()
        sys.stdout = buf
        try:
            x = obj.get_by_id(i)
            if x is None:
                r["res"] = 0
            else:
                r["res"] = 1
                r["found"] = H.dump(x) if hasattr(x, "member_data_items_") else None
                r["found_id"] = getattr(x, "id", None)
                r["where"] = H.holds(obj, x)
                r["is_expected"] = x is expected
        except Exception as e:  # noqa
            r["res"] = 2
            r["exc"] = type(e).__name__ + ": " + str(e)[:160]
        sys.stdout = real_stdout
        text = buf.getvalue()
        r["msg"] = 1 if "asking for an element with no id" in text else 2 if " not found in <" in text else 3 if "Suppressing further warnings" in text else 0
        r["wc_after"] = obj.warn_count
        r["expected_exists"] = expected is not None
        r["new_keys"] = sorted(set(vars(obj).keys()) - keys_before - {"warn_count"})
        r["doc_unchanged"] = H.dump(obj) == res["states"][-1]
        res["lookups"].append(r)
    return res


def main():
    P = json.load(sys.stdin)
    H.ORDER.update(P["order"])
    real_stdout = sys.stdout
    sys.stdout = io.StringIO()
    out = {}
    try:
        out["classes"] = introspect(P.get("classes", []))
        out["module_classes"] = module_classes()
        if "acceptance" in P:
            out["acceptance"] = acceptance(P.get("classes", []), P["acceptance"]["names"], P["acceptance"]["exhaustive"])
            sys.stdout = io.StringIO()
        ids = []
        for case in P.get("idcases", []):
            try:
                ids.append(run_idcase(case, real_stdout))
            except Exception as e:  # noqa
                import traceback
                ids.append({"harness_error": type(e).__name__ + ": " + str(e)[:300] + " @ " + traceback.format_exc()[-500:]})
            sys.stdout = io.StringIO()
        out["idcases"] = ids
    finally:
        sys.stdout = real_stdout
    print(json.dumps(out))


if __name__ == "__main__":
    main()
