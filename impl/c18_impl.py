"""C18: run the REAL neuroml.arraymorph / ArrayMorphWriter / ArrayMorphLoader on generated inputs.

stdin : {"to_root": [...], "views": [...], "docs": [...], "morphs": [...]}
stdout: one JSON document on the last line with the implementation's outputs (same order) and, for the file
        cases, the property predicate evaluated here with numpy array equality.
"""
import json
import os
import shutil
import signal
import struct
import sys
import tempfile
import warnings

warnings.simplefilter("ignore")

import numpy as np  # noqa: E402
import tables  # noqa: E402

import neuroml  # noqa: E402
import neuroml.arraymorph as am  # noqa: E402
import neuroml.loaders as loaders  # noqa: E402
import neuroml.writers as writers  # noqa: E402


class _Timeout(Exception):
    pass


class _Skipped(Exception):
    pass


def _alarm(signum, frame):
    raise _Timeout()


signal.signal(signal.SIGALRM, _alarm)


TIMEOUTS = [0]
MAX_TIMEOUTS = 8


def guarded(f, seconds=1.0):
    """run f under an alarm; after MAX_TIMEOUTS timeouts the remaining guarded calls are not run at all
    (reported as "Skipped") so that a looping implementation cannot stall the check"""
    if TIMEOUTS[0] >= MAX_TIMEOUTS:
        raise _Skipped()
    signal.setitimer(signal.ITIMER_REAL, seconds)
    try:
        return f()
    except _Timeout:
        TIMEOUTS[0] += 1
        raise
    finally:
        signal.setitimer(signal.ITIMER_REAL, 0)


def exc_name(e):
    if isinstance(e, _Timeout):
        return "Timeout"
    if isinstance(e, _Skipped):
        return "Skipped"
    return type(e).__name__


def make_morph(d):
    """build the morphology from lists or, with d["nd"], from numpy ndarrays (both are 'arrays given by the caller')"""
    n = len(d["conn"])
    verts = d.get("verts")
    if verts is None:
        verts = [[i, 0, 0, 1] for i in range(n)]
    conn = d["conn"]
    mask = d.get("mask")
    if d.get("nd"):
        verts, conn = np.array(verts), np.array(conn)
        if mask is not None:
            mask = np.array(mask)
    how = d.get("assign")
    if how:
        # the arrays arrive AFTER construction (what ArrayMorphLoader does); the mask follows the constructor's rule
        eff = np.array(mask) if mask is not None and np.any(mask) else np.zeros(n, dtype="bool")
        if how == "all":
            m = am.ArrayMorphology()
            m.id = d.get("id")
            m.physical_mask = eff
            m.vertices = np.array(verts)
            m.connectivity = np.array(conn)
        else:  # "mask": built through the constructor without a mask, the mask is assigned afterwards
            m = am.ArrayMorphology(vertices=verts, connectivity=conn, id=d.get("id"))
            m.physical_mask = eff
        return m
    return am.ArrayMorphology(vertices=verts, connectivity=conn, id=d.get("id"), physical_mask=mask)


def fbits(x):
    """injective code of a float64 value, so that end points and reloaded arrays are compared BIT FOR BIT with the
    arrays given (0.0 / -0.0, denormals, huge values, integer-valued and integer-dtype entries):
    multiples of 1/16 below 2**40 (except -0.0) -> the even number 2*(16*x); everything else -> the odd number
    4*(IEEE-754 bit pattern as signed 64-bit) + 3.  (Compact, because Coq parses small numerals much faster.)"""
    x = float(x)
    bits = struct.unpack("<q", struct.pack("<d", x))[0]
    if x == x and abs(x) < 2.0 ** 40 and bits != -(2 ** 63):
        k = x * 16.0
        if k == int(k):
            return 2 * int(k)
    return 4 * bits + 3


def vbits(a):
    a = np.asarray(a)
    return [[fbits(x) for x in row] for row in a.reshape(-1, 4)] if a.size else []


def ints(a):
    return [int(x) for x in np.asarray(a).ravel()]


# ------------------------------------------------------------------ to_root
def run_to_root(c):
    out = {}
    try:
        m = make_morph({"conn": c["conn"]})
        for idx in [c["index"]] + list(c.get("then", [])):
            guarded(lambda: m.to_root(idx))
        out["r"] = "ok"
        out["conn"] = ints(m.connectivity)
        # the same information through the accessors (views must agree with the array)
        n = len(m)
        out["parent_ids"] = [int(m.parent_id(v)) for v in range(n)]
        out["children"] = [ints(m.children(v)[0]) for v in range(n)]
        try:
            out["root_index"] = int(m.root_index)
        except IndexError:
            out["root_index"] = None
    except Exception as e:  # noqa: BLE001
        out["r"] = exc_name(e)
    return out


# ------------------------------------------------------------------ segment view / conversion
def seg_json(s):
    p, d = s.proximal, s.distal
    return [int(s.id), [fbits(p.x), fbits(p.y), fbits(p.z), fbits(p.diameter)],
            [fbits(d.x), fbits(d.y), fbits(d.z), fbits(d.diameter)],
            None if s.parent is None else int(s.parent.segments)]


def run_view(c):
    out = {}
    try:
        m = make_morph(c)
    except Exception as e:  # noqa: BLE001
        return {"r": exc_name(e)}
    out["r"] = "ok"
    out["len"] = len(m.segments)
    segs = []
    for k in range(len(m.segments)):
        try:
            segs.append(seg_json(m.segments[k]))
        except IndexError:
            segs.append(None)
    out["segs"] = segs
    out.update(probe_json(m, segs))
    # a fresh object: segments[] caches what it instantiated
    m2 = make_morph(c)
    try:
        nm = m2.to_neuroml_morphology(id="conv")
        out["conv"] = [seg_json(s) for s in nm.segments]
        out["conv_type"] = type(nm).__name__
    except IndexError:
        out["conv"] = "IndexError"
    return out


# ------------------------------------------------------------------ file round trip
def arrays_of(m):
    return (np.asarray(m.vertices), np.asarray(m.connectivity), np.asarray(m.physical_mask))


def same_arrays(a, b):
    # numpy equality, equal shapes, and (same dtype) identical bytes: -0.0 must not come back as 0.0
    return all(x.shape == y.shape and np.array_equal(x, y) and (x.dtype != y.dtype or x.tobytes() == y.tobytes())
               for x, y in zip(a, b))


def morph_json(m, views=False):
    v, c, k = arrays_of(m)
    extra = {}
    if views:
        # the segment view and the conversion of a morphology that came out of ArrayMorphLoader
        try:
            extra = {"len": len(m.segments), "view": view_json(m)}
            extra.update(probe_json(m, extra["view"]))
            extra["conv"] = conv_json(m)
        except Exception as e:  # noqa: BLE001
            extra = {"len": None, "view": None, "conv": None, "view_error": exc_name(e)}
    return {**extra, "verts": vbits(v),
            "conn": ints(c), "mask": [bool(x) for x in k.ravel()],
            "shapes": [list(v.shape), list(c.shape), list(k.shape)],
            "dtypes": [str(v.dtype), str(c.dtype), str(k.dtype)],
            "id": m.id if isinstance(m.id, (str, type(None))) else "<%s> %s" % (type(m.id).__name__, repr(m.id)[:60])}


def close_all():
    try:
        tables.file._open_files.close_all()
    except Exception:  # noqa: BLE001
        pass


def roundtrip(data, written, tmp, tag, path=None, cleanup=True):
    """write `data`, load it back; `written` = the ArrayMorphology objects the file must contain"""
    path = path or os.path.join(tmp, tag + ".h5")
    out = {}
    before = [tuple(np.array(x, copy=True) for x in arrays_of(m)) for m in written]
    try:
        writers.ArrayMorphWriter.write(data, path)
    except Exception as e:  # noqa: BLE001
        if cleanup:
            close_all()
        out["r"] = exc_name(e)
        out["stage"] = "write"
        out["msg"] = str(e)[:200]
        return out
    try:
        doc = loaders.ArrayMorphLoader.load(path)
    except Exception as e:  # noqa: BLE001
        close_all()
        out["r"] = "LoadError"
        out["stage"] = "load"
        out["msg"] = (type(e).__name__ + ": " + str(e))[:200]
        return out
    out["r"] = "ok"
    loaded = list(doc.morphology)
    out["loaded"] = [morph_json(m, views=True) for m in loaded]
    out["loaded_types"] = sorted(set(type(m).__name__ for m in loaded))
    # property predicate: identical vertex, connectivity and mask arrays for every morphology
    # (multiset: the loader does not restore names); numpy equality incl. shape
    left = [arrays_of(m) for m in loaded]
    ok = len(left) == len(before)
    missing = []
    for i, b in enumerate(before):
        j = next((j for j, a in enumerate(left) if same_arrays(a, b)), None)
        if j is None:
            ok = False
            missing.append(i)
        else:
            left.pop(j)
    out["np_equal"] = bool(ok and not left)
    out["missing"] = missing
    out["n_written"] = len(before)
    out["n_loaded"] = len(loaded)
    # the writer must not change the arrays it was given
    out["inputs_unchanged"] = all(same_arrays(arrays_of(m), b) for m, b in zip(written, before))
    return out


def run_doc(c, tmp, tag):
    doc = neuroml.NeuroMLDocument(id="doc")
    written = []
    try:
        for cd in c["cells"]:
            cell = neuroml.Cell(id=cd["id"])
            cell.morphology = make_morph(cd["m"])
            doc.cells.append(cell)
            written.append(cell.morphology)
        for md in c["morphs"]:
            m = make_morph(md)
            doc.morphology.append(m)
            written.append(m)
    except Exception as e:  # noqa: BLE001
        return {"r": "build:" + exc_name(e)}
    return roundtrip(doc, written, tmp, tag)


def run_morph(c, tmp, tag):
    try:
        m = make_morph(c)
    except Exception as e:  # noqa: BLE001
        return {"r": "build:" + exc_name(e)}
    return roundtrip(m, [m], tmp, tag)


def build_doc(c):
    doc = neuroml.NeuroMLDocument(id="doc")
    written = []
    for cd in c["cells"]:
        cell = neuroml.Cell(id=cd["id"])
        cell.morphology = make_morph(cd["m"])
        doc.cells.append(cell)
        written.append(cell.morphology)
    for md in c["morphs"]:
        m = make_morph(md)
        doc.morphology.append(m)
        written.append(m)
    return doc, written


def run_history(c, tmp, tag):
    """several write(data, path) calls on ONE path, each followed by a load"""
    path = os.path.join(tmp, tag + "_history.h5")
    if c.get("preexisting") == "garbage":
        with open(path, "wb") as f:
            f.write(b"not an hdf5 file")
    res = []
    for step in c["steps"]:
        if "bad" in step:
            # an object the writer does not support; whatever it does with it (raise, or write nothing), the path must
            # stay usable: the next valid write + load on the same path has to round-trip.  No clean-up in between.
            obj = {"cell": neuroml.Cell(id="c"), "morphology": neuroml.Morphology(id="m"), "none": None,
                   "list": [1, 2, 3], "string": "data", "segment": neuroml.Segment(id=0)}[step["bad"]]
            try:
                writers.ArrayMorphWriter.write(obj, path)
                res.append({"r": "accepted", "bad": step["bad"]})
            except Exception as e:  # noqa: BLE001
                res.append({"r": "raises:" + exc_name(e), "bad": step["bad"], "msg": str(e)[:160]})
            try:
                res[-1]["open_handles_after"] = len(tables.file._open_files.filenames)
            except Exception:  # noqa: BLE001
                res[-1]["open_handles_after"] = None
            continue
        try:
            if "doc" in step:
                data, written = build_doc(step["doc"])
            else:
                data = make_morph(step["morph"])
                written = [data]
        except Exception as e:  # noqa: BLE001
            res.append({"r": "build:" + exc_name(e)})
            continue
        res.append(roundtrip(data, written, tmp, tag, path=path, cleanup=False))
    close_all()
    return {"steps": res}


# ------------------------------------------------------------------ frame: two morphologies sharing their inputs
def view_json(m):
    segs = []
    for k in range(len(m.segments)):
        try:
            segs.append(seg_json(m.segments[k]))
        except IndexError:
            segs.append(None)
    return segs


def probe_json(m, segs_before):
    """negative clause: which indices outside 0..len-1 does the view answer?  Probe -1, -2, -(n-1), -n, -(n+1), n-1, n,
    len, len+1; afterwards len, the segments 0..len-1 and the instantiated cache must be what they were (plus exactly
    the answered probes)."""
    n = int(m.num_vertices)
    L = len(m.segments)
    ks = []
    for k in (-1, -2, -(n - 1), -n, -(n + 1), n - 1, n, L, L + 1):
        if not (0 <= k < L) and k not in ks:
            ks.append(k)
    probes = []
    for k in ks:
        try:
            probes.append([k, seg_json(m.segments[k])])
        except IndexError:
            probes.append([k, None])
        except Exception as e:  # noqa: BLE001
            probes.append([k, "exc:" + exc_name(e)])
    answered = [k for k, r in probes if isinstance(r, list)]
    try:
        len_after = len(m.segments)
        after = view_json(m)
    except Exception as e:  # noqa: BLE001
        len_after, after = None, "exc:" + exc_name(e)
    keys = sorted(int(k) for k in m.segments.instantiated_segments.keys())
    return {"probes": probes, "len_after_probes": len_after, "segs_same_after_probes": after == segs_before,
            "cache_keys": keys,
            "cache_expected": sorted(set([k for k in range(L) if segs_before[k] is not None] + answered))}


def conv_json(m):
    try:
        return [seg_json(s) for s in m.to_neuroml_morphology(id="conv").segments]
    except IndexError:
        return "IndexError"


def run_frame(c, tmp, tag):
    """A and B are built from the SAME caller arrays (lists or ndarrays), or B from A's arrays (the idiom of the
    library's tests).  After every operation on one of them the other one and the caller's arrays must be unchanged."""
    v_ref = vbits(c["verts"])
    c_ref = list(c["conn"])
    if c["src"] == "ndarray":
        vin, cin = np.array(c["verts"]), np.array(c["conn"])
    else:
        vin, cin = [list(r) for r in c["verts"]], list(c["conn"])
    out = {}
    try:
        A = am.ArrayMorphology(vertices=vin, connectivity=cin, id="A")
        if c["share"] == "from_morph":
            B = am.ArrayMorphology(A.vertices, A.connectivity, id="B")
        else:
            B = am.ArrayMorphology(vertices=vin, connectivity=cin, id="B")
    except Exception as e:  # noqa: BLE001
        return {"r": "build:" + exc_name(e)}
    ms = {"A": A, "B": B}

    def snap():
        return {"A.connectivity": ints(A.connectivity), "B.connectivity": ints(B.connectivity),
                "A.vertices": vbits(A.vertices),
                "B.vertices": vbits(B.vertices),
                "caller.connectivity": ints(cin), "caller.vertices": vbits(vin)}

    frame = []
    err = None
    for k, (who, op, arg) in enumerate(c["ops"]):
        before = snap()
        m = ms[who]
        try:
            if op == "to_root":
                guarded(lambda: m.to_root(arg))
            elif op == "convert":
                m.to_neuroml_morphology(id="x")
            elif op == "write_load":
                roundtrip(m, [m], tmp, "%s_%d" % (tag, k))
        except Exception as e:  # noqa: BLE001
            err = exc_name(e)
            break
        after = snap()
        for key in before:
            mine = key.startswith(who + ".") and op == "to_root" and key.endswith("connectivity")
            if not mine and before[key] != after[key]:
                frame.append({"op_index": k, "op": [who, op, arg], "changed": key, "before": before[key], "after": after[key]})
    if err is not None:
        return {"r": err}
    out["r"] = "ok"
    out["connA"], out["connB"] = ints(A.connectivity), ints(B.connectivity)
    out["caller_conn"] = ints(cin)
    out["caller_unchanged"] = bool(ints(cin) == c_ref and vbits(vin) == v_ref)
    out["frame"] = frame
    # first (uncached) access to the segment views, then the conversions, then the file format
    out["viewA"], out["viewB"] = view_json(A), view_json(B)
    out["convA"], out["convB"] = conv_json(A), conv_json(B)
    fa, fb = roundtrip(A, [A], tmp, tag + "_A"), roundtrip(B, [B], tmp, tag + "_B")
    out["fileA"] = {k: fa.get(k) for k in ("r", "np_equal", "inputs_unchanged")}
    out["fileB"] = {k: fb.get(k) for k in ("r", "np_equal", "inputs_unchanged")}
    final = snap()
    for key, val in (("A.connectivity", out["connA"]), ("B.connectivity", out["connB"]), ("caller.connectivity", out["caller_conn"])):
        if final[key] != val:
            frame.append({"op_index": len(c["ops"]), "op": ["*", "views/conversions/write/load", None], "changed": key,
                          "before": val, "after": final[key]})
    out["loadedA_conn"] = fa["loaded"][0]["conn"] if fa.get("r") == "ok" and fa["loaded"] else None
    out["loadedB_conn"] = fb["loaded"][0]["conn"] if fb.get("r") == "ok" and fb["loaded"] else None
    return out


# ------------------------------------------------------------------ scale: one large morphology, judged here against the arrays
def run_large(c):
    n = c["n"]
    conn = [-1] + [(v - 1 if v % 2 == 1 or v == 2 else v - 2) for v in range(1, n)]      # comb: even spine, odd teeth
    conn[1] = 0
    verts = [[v, v % 7, -v, 1 + v % 5] for v in range(n)]
    m = am.ArrayMorphology(vertices=np.array(verts, dtype=float), connectivity=np.array(conn), id="large")
    out = {"n": n, "conn_head": conn[:8]}

    def good(s, v):
        return (int(s.id) == v and [s.proximal.x, s.proximal.y, s.proximal.z, s.proximal.diameter] == verts[v]
                and [s.distal.x, s.distal.y, s.distal.z, s.distal.diameter] == verts[conn[v]])

    L = len(m.segments)
    out["len"] = L
    bad = []
    ok_count = 0
    for k in range(L):
        try:
            s = m.segments[k]
            if good(s, k + 1):
                ok_count += 1
            elif len(bad) < 5:
                bad.append({"index": k, "observed_id": int(s.id)})
        except Exception as e:  # noqa: BLE001
            if len(bad) < 5:
                bad.append({"index": k, "raised": exc_name(e)})
    out["indexed_ok"] = ok_count
    out["first_bad_indices"] = bad
    m2 = am.ArrayMorphology(vertices=np.array(verts, dtype=float), connectivity=np.array(conn))
    it = 0
    try:
        for _s in m2.segments:          # the iteration protocol (no __iter__: __getitem__ until IndexError)
            it += 1
            if it > 2 * n:
                break
    except Exception as e:  # noqa: BLE001
        out["iteration_error"] = exc_name(e)
    out["iteration_count"] = it
    refused = {}
    for k in (L, L + 1, -1, -(n + 1)):
        try:
            m2.segments[k]
            refused[str(k)] = False
        except IndexError:
            refused[str(k)] = True
    out["refused"] = refused
    try:
        cs = m2.to_neuroml_morphology(id="c").segments
        out["conv_count"] = len(cs)
        out["conv_ok"] = sum(1 for i, s in enumerate(cs) if good(s, i + 1))
    except Exception as e:  # noqa: BLE001
        out["conv_count"] = None
        out["conv_error"] = exc_name(e)
    return out


# ------------------------------------------------------------------ form of the file name
def run_paths(tmp):
    import pathlib
    doc_c = {"cells": [{"id": "c1", "m": {"verts": [[0, 0, 0, 1], [1, 2, 3, 0.5]], "conn": [-1, 0], "mask": None, "id": None}}],
             "morphs": [{"verts": [[5, 0, 0, 1], [6, 0, -0.0, 2], [7, 1, 1, 0.0]], "conn": [-1, 0, 0], "mask": None, "id": "m1"}]}
    base = os.path.join(tmp, "path forms")
    os.makedirs(os.path.join(base, "sub", "deeper"))
    forms = [("bare name (relative to cwd)", "bare.h5"), ("relative with a directory part", os.path.join("sub", "rel.h5")),
             ("relative, two directories", os.path.join("sub", "deeper", "rel2.h5")), ("./name", "./dot.h5"),
             ("absolute", os.path.join(base, "abs.h5")), ("name with spaces", "with two spaces.h5"),
             ("non-ASCII name", "na\u00efve_\u00fc\u03b1.h5"), ("no extension", "noext"), ("../ component", "sub/../up.h5")]
    # pathlib.Path only where PyTables itself (below libNeuroML) takes one
    try:
        probe = os.path.join(base, "probe.h5")
        with tables.open_file(pathlib.Path(probe), mode="w"):
            pass
        forms.append(("pathlib.Path", pathlib.Path("aspath.h5")))
    except Exception:  # noqa: BLE001
        pass
    res = []
    old = os.getcwd()
    os.chdir(base)
    try:
        for name, form in forms:
            try:
                data, written = build_doc(doc_c)
                r = roundtrip(data, written, tmp, "p", path=form)
            except Exception as e:  # noqa: BLE001
                close_all()
                r = {"r": "driver:" + exc_name(e), "msg": str(e)[:160]}
            res.append({"form": name, "path": str(form), "r": r.get("r"), "stage": r.get("stage"), "msg": r.get("msg"),
                        "np_equal": r.get("np_equal"), "n_loaded": r.get("n_loaded")})
    finally:
        os.chdir(old)
    return res


# ------------------------------------------------------------------ repetition: loading the same file again
def run_reload(c, tmp, tag):
    path = os.path.join(tmp, tag + "_reload.h5")
    out = {}
    try:
        data, written = build_doc(c["doc"])
        writers.ArrayMorphWriter.write(data, path)
        ref = [tuple(np.array(x, copy=True) for x in arrays_of(m)) for m in written]
        d1 = loaders.ArrayMorphLoader.load(path)
        first = [arrays_of(m) for m in d1.morphology]
        out["first_load_equal"] = len(first) == len(ref) and all(any(same_arrays(a, b) for a in first) for b in ref)
        # use the first result: re-root every morphology in place, touch a vertex
        for m in d1.morphology:
            if len(m.connectivity) > 1:
                m.to_root(len(m.connectivity) - 1)
            if np.asarray(m.vertices).size:
                m.vertices[0][0] = m.vertices[0][0] + 1000.0
        d2 = loaders.ArrayMorphLoader.load(path)
        second = [arrays_of(m) for m in d2.morphology]
        out["second_load_equal"] = len(second) == len(ref) and all(any(same_arrays(a, b) for a in second) for b in ref)
        out["second_load_connectivity"] = [ints(a[1]) for a in second]
        out["written_connectivity"] = [ints(b[1]) for b in ref]
        out["same_document_object"] = d1 is d2
        out["shared_morphology_objects"] = sum(1 for a in d1.morphology for b in d2.morphology if a is b)
        out["shared_arrays"] = sum(1 for a in first for b in second for x, y in zip(a, b)
                                   if x.size and y.size and np.shares_memory(x, y))
        d3 = loaders.ArrayMorphLoader.load(path)
        third = [arrays_of(m) for m in d3.morphology]
        out["third_load_equal"] = len(third) == len(ref) and all(any(same_arrays(a, b) for a in third) for b in ref)
        out["r"] = "ok"
    except Exception as e:  # noqa: BLE001
        close_all()
        out["r"] = exc_name(e)
        out["msg"] = str(e)[:160]
    return out


def main():
    payload = json.loads(sys.stdin.read() or "{}")
    tmp = tempfile.mkdtemp(prefix="c18_")
    try:
        res = {
            "to_root": [run_to_root(c) for c in payload.get("to_root", [])],
            "views": [run_view(c) for c in payload.get("views", [])],
            "docs": [run_doc(c, tmp, "d%d" % i) for i, c in enumerate(payload.get("docs", []))],
            "morphs": [run_morph(c, tmp, "m%d" % i) for i, c in enumerate(payload.get("morphs", []))],
            "frames": [run_frame(c, tmp, "f%d" % i) for i, c in enumerate(payload.get("frames", []))],
            "histories": [run_history(c, tmp, "h%d" % i) for i, c in enumerate(payload.get("histories", []))],
            "large": [run_large(c) for c in payload.get("large", [])],
            "paths": run_paths(tmp) if payload.get("paths") else [],
            "reloads": [run_reload(c, tmp, "r%d" % i) for i, c in enumerate(payload.get("reloads", []))],
        }
    finally:
        shutil.rmtree(tmp, ignore_errors=True)
    print(json.dumps(res, default=lambda x: "<%s>" % type(x).__name__))


if __name__ == "__main__":
    main()
