"""runs the REAL component_factory (class method, neuroml.utils wrapper) inside sessions that toggle the global
build-time-validation switch (helpers of neuroml/__init__.py or direct assignment), with an explicit validate() on
whatever was handed back.  stdin: {"order":..., "sessions":[{"ops":[...]}]}; last stdout line: JSON."""
import io
import json
import logging
import sys
import warnings

import neuroml
import neuroml.build_time_validation as btv
import neuroml.nml.nml as nml
import neuroml.utils

import c10_impl as H


def explicit_validate(o):
    try:
        o.validate()
        return True, None
    except ValueError as e:
        return False, "ValueError"
    except Exception as e:  # noqa
        return False, type(e).__name__


def run_factory(op):
    r = {}
    cls = getattr(nml, op["cls"], None)
    kw = {k: H.conv(v) for k, v in op["kw"]}
    r["kw_dump"] = [[k, H.dval(v)] for k, v in kw.items()]
    # oracle for the abstract parts of the model: the same class constructed directly with the same keywords
    try:
        probe = cls(**kw)
        if op["cls"] == "Cell":
            probe.setup_nml_cell()
            r["cell"] = H.dump(probe)
        r["direct"] = H.dump(probe)
        r["vchild"] = H.is_valid(probe)
    except Exception as e:  # noqa
        r["vchild"] = False
        r["direct_exc"] = type(e).__name__
    arg = op["cls"] if op["form"] == "str" else cls
    handler = H.LogCount()
    lg = logging.getLogger("neuroml.nml.generatedssupersuper")
    lg.addHandler(handler)
    sw = btv.ENABLED
    ret = None
    with warnings.catch_warnings(record=True):
        warnings.simplefilter("always")
        try:
            if op["via"] == "utils":
                ret = neuroml.utils.component_factory(arg, op["validate"], **kw)
            else:
                host = getattr(nml, op.get("host", "NeuroMLDocument"))
                ret = host.component_factory(arg, validate=op["validate"], **kw)
            r["code"] = [0, []]
        except BaseException as e:  # noqa
            r["code"] = H.classify(e)
            r["exc"] = type(e).__name__ + ": " + str(e)[:160]
            r["exc_type"] = type(e).__name__
    lg.removeHandler(handler)
    r["switch_unchanged"] = btv.ENABLED == sw
    r["disabled"] = sum(1 for m in handler.msgs if m == "Build time validation is disabled.")
    if ret is not None:
        r["ret"] = H.dump(ret)
        r["ret_cls"] = type(ret).__name__
        r["ret_valid"], r["ret_validate_exc"] = explicit_validate(ret)
    return r


def main():
    P = json.load(sys.stdin)
    H.ORDER.update(P["order"])
    real_stdout = sys.stdout
    sys.stdout = io.StringIO()
    initial = btv.ENABLED
    out = []
    try:
        for sess in P["sessions"]:
            res = []
            try:
                for op in sess["ops"]:
                    sys.stdout = io.StringIO()
                    r = {}
                    if op["op"] == "enable":
                        neuroml.enable_build_time_validation()
                    elif op["op"] == "disable":
                        neuroml.disable_build_time_validation()
                    elif op["op"] == "set":
                        btv.ENABLED = bool(op["value"])
                    elif op["op"] == "factory":
                        r = run_factory(op)
                    r["switch"] = btv.ENABLED
                    r["getter"] = neuroml.get_build_time_validation()
                    res.append(r)
            except Exception as e:  # noqa
                import traceback
                res.append({"harness_error": type(e).__name__ + ": " + str(e)[:300] + " @ " + traceback.format_exc()[-600:]})
            finally:
                btv.ENABLED = initial
            out.append(res)
    finally:
        sys.stdout = real_stdout
    print(json.dumps({"results": out, "initial": initial}))


if __name__ == "__main__":
    main()
