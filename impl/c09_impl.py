"""runs the REAL component_factory (class method, neuroml.utils wrapper) inside sessions that toggle the global
build-time-validation switch (helpers of neuroml/__init__.py or direct assignment), with an explicit validate() on
whatever was handed back.  stdin: {"order":..., "sessions":[{"ops":[...]}]}; last stdout line: JSON."""
import io
import json
import logging
import sys
import threading
import types
import warnings
from concurrent.futures import ThreadPoolExecutor

import neuroml
import neuroml.build_time_validation as btv
import neuroml.nml.nml as nml
import neuroml.utils

import c10_impl as H


def explicit_validate(o):
    try:
        o.validate()
        return True, None
    except ValueError as e:
        return False, "ValueError"
    except Exception as e:  # noqa
        return False, type(e).__name__


def run_factory(op):
    r = {}
    cls = getattr(nml, op["cls"], None)
    kw = {k: H.conv(v) for k, v in op["kw"]}
    r["kw_dump"] = [[k, H.dval(v)] for k, v in kw.items()]
    # oracle for the abstract parts of the model: the same class constructed directly with the same keywords and
    # validated in a FRESH process (computed by main() before this process validated anything)
    o = op.get("_oracle") or {"fresh_error": "no oracle"}
    if "fresh_error" in o:
        r["vchild"] = False
        r["direct_exc"] = o["fresh_error"].split(":")[0]
    else:
        r["vchild"] = o["vchild"]
        r["direct"] = o["direct"]
        if "cell" in o:
            r["cell"] = o["cell"]
    arg = op["cls"] if op["form"] == "str" else cls
    handler = H.LogCount()
    lg = logging.getLogger("neuroml.nml.generatedssupersuper")
    lg.addHandler(handler)
    sw = btv.ENABLED
    ret = None
    with warnings.catch_warnings(record=True):
        warnings.simplefilter("always")
        try:
            if op["via"] == "utils":
                ret = neuroml.utils.component_factory(arg, op["validate"], **kw)
            else:
                host = getattr(nml, op.get("host", "NeuroMLDocument"))
                ret = host.component_factory(arg, validate=op["validate"], **kw)
            r["code"] = [0, []]
        except BaseException as e:  # noqa
            r["code"] = H.classify(e)
            r["exc"] = type(e).__name__ + ": " + str(e)[:160]
            r["exc_type"] = type(e).__name__
    lg.removeHandler(handler)
    r["switch_unchanged"] = btv.ENABLED == sw
    r["disabled"] = sum(1 for m in handler.msgs if m == "Build time validation is disabled.")
    if ret is not None:
        r["ret"] = H.dump(ret)
        r["ret_cls"] = type(ret).__name__
        r["ret_valid_in_process"], r["ret_validate_exc"] = explicit_validate(ret)
        # the verdict that counts is that of a process whose class-level state cannot have been touched by earlier calls:
        # the returned component equals the directly constructed one, whose fresh-process verdict is known
        if "direct" in r and r["ret"] == r["direct"]:
            r["ret_valid"] = bool(r["ret_valid_in_process"]) and bool(r["vchild"])
            r["ret_valid_fresh"] = r["vchild"]
        else:
            r["ret_valid"] = r["ret_valid_in_process"]
    return r


def run_add(op):
    """parent.add(<class or name>, **kwargs) on a freshly constructed parent: the factory path inside add"""
    r = {}
    parent = getattr(nml, op["parent"])(**{k: H.conv(v) for k, v in op.get("parent_kw", [])})
    cls = getattr(nml, op["cls"], None)
    kw = {k: H.conv(v) for k, v in op["kw"]}
    o = op.get("_oracle") or {"fresh_error": "no oracle"}
    if "fresh_error" in o:
        r["direct_exc"] = o["fresh_error"].split(":")[0]
    else:
        r["vchild"] = o["vchild"]
    sw = btv.ENABLED
    ret = None
    with warnings.catch_warnings(record=True):
        warnings.simplefilter("always")
        try:
            ret = parent.add(op["cls"] if op["form"] == "str" else cls, validate=op["validate"], **kw)
            r["code"] = [0, []]
        except BaseException as e:  # noqa
            r["code"] = H.classify(e)
            r["exc"] = type(e).__name__ + ": " + str(e)[:160]
            r["exc_type"] = type(e).__name__
    r["switch_unchanged"] = btv.ENABLED == sw
    if ret is not None:
        r["ret_cls"] = type(ret).__name__
        r["stored"] = any(ret is x or (isinstance(x, list) and any(ret is y for y in x)) for x in vars(parent).values())
    return r


def observe():
    """the switch as the calling thread sees it: [module attribute, get_build_time_validation()]"""
    out = []
    for f in (lambda: btv.ENABLED, neuroml.get_build_time_validation):
        try:
            out.append(f())
        except BaseException as e:  # noqa
            out.append("error:" + type(e).__name__)
    return [x if isinstance(x, (bool, str)) else repr(x) for x in out]


class Threads:
    """where an operation runs: "main"; "new" = a threading.Thread started for it and joined; "pool:<x>" = the single worker of
    a ThreadPoolExecutor that lives until the end of the session.  Operations never overlap in time: the only question is
    whether all threads share the one switch."""

    def __init__(self):
        self.pools = {}

    def run(self, where, fn):
        if where in (None, "main"):
            return fn()
        if where == "new":
            box = {}

            def target():
                try:
                    box["v"] = fn()
                except BaseException as e:  # noqa
                    box["e"] = e
            t = threading.Thread(target=target)
            t.start()
            t.join()
            if "e" in box:
                raise box["e"]
            return box["v"]
        if where not in self.pools:
            self.pools[where] = ThreadPoolExecutor(max_workers=1)
        return self.pools[where].submit(fn).result()

    def survey(self):
        out = {"main": observe()}
        for w in sorted(self.pools):
            out[w] = self.run(w, observe)
        out["new"] = self.run("new", observe)
        return out

    def close(self):
        for p_ in self.pools.values():
            p_.shutdown(wait=True)


def run_op(op):
    r = {}
    if op["op"] == "enable":
        neuroml.enable_build_time_validation()
    elif op["op"] == "disable":
        neuroml.disable_build_time_validation()
    elif op["op"] == "set":
        btv.ENABLED = bool(op["value"])
    elif op["op"] == "factory":
        r = run_factory(op)
    elif op["op"] == "add":
        r = run_add(op)
    elif op["op"] == "validate":      # construct directly and call validate(): a type gets validated in this process
        o = getattr(nml, op["cls"])(**{k: H.conv(v) for k, v in op["kw"]})
        r["valid"] = H.is_valid(o)
    r["switch"], r["getter"] = observe()      # as seen by the thread that ran the operation
    return r


def run_session(sess):
    res = []
    T = Threads()
    try:
        for op in sess["ops"]:
            sys.stdout = io.StringIO()
            r = T.run(op.get("thread"), lambda op=op: run_op(op))
            if sess.get("threads"):
                r["seen"] = T.survey()
            res.append(r)
    finally:
        T.close()
    return res


def switch_runtime():
    """the switch as the interpreter holds it: a bool in the dictionary of a plain module, reached by the package attribute"""
    return {"module_type_plain": type(btv) is types.ModuleType, "package_type_plain": type(neuroml) is types.ModuleType,
            "in_module_dict": type(vars(btv).get("ENABLED")).__name__,
            "same_module": neuroml.build_time_validation is btv and sys.modules.get("neuroml.build_time_validation") is btv,
            "module_getattr": "__getattr__" in vars(btv) or "__getattr__" in vars(neuroml)}


def main():
    P = json.load(sys.stdin)
    H.ORDER.update(P["order"])
    real_stdout = sys.stdout
    sys.stdout = io.StringIO()
    initial = btv.ENABLED
    attrs0 = H.class_attr_snapshot()
    runtime = switch_runtime()
    oracles = {}
    for sess in P["sessions"]:      # fresh-process oracles first, while this process is pristine
        for op in sess["ops"]:
            if op["op"] in ("factory", "add") and hasattr(nml, op["cls"]):
                k = json.dumps([op["cls"], op["kw"]], sort_keys=True)
                if k not in oracles:
                    oracles[k] = H.class_oracle(op["cls"], op["kw"])
                op["_oracle"] = oracles[k]
    out = []
    isolated_attrs = {}
    cache_bad = []
    try:
        for sess in P["sessions"]:
            try:
                if sess.get("isolate"):
                    # the whole session in a forked copy of the still pristine process: what it sees depends on its own
                    # operations only (order of types within the session), not on earlier sessions
                    def work(sess=sess):
                        a0 = H.class_attr_snapshot()
                        return {"res": run_session(sess), "attrs": H.class_attr_diff(a0), "cache": H.member_cache_check()}
                    w = H.fresh(work)
                    if "fresh_error" in w:
                        raise RuntimeError(w["fresh_error"])
                    res = w["res"]
                    for x in w.get("cache") or []:
                        cache_bad.append({"problem": x, "session": [[o.get("op"), o.get("cls")] for o in sess["ops"]][:6]})
                    for c, a in w["attrs"].items():
                        isolated_attrs.setdefault(c, sorted(set(isolated_attrs.get(c, [])) | set(a)))
                else:
                    res = run_session(sess)
            except Exception as e:  # noqa
                import traceback
                res = [{"harness_error": type(e).__name__ + ": " + str(e)[:300] + " @ " + traceback.format_exc()[-600:]}]
            finally:
                btv.ENABLED = initial
            out.append(res)
    finally:
        sys.stdout = real_stdout
    new = H.class_attr_diff(attrs0)
    for c, a in isolated_attrs.items():
        new[c] = sorted(set(new.get(c, [])) | set(a))
    for x in H.member_cache_check():
        cache_bad.append({"problem": x, "session": "all non-isolated sessions of the batch"})
    print(json.dumps({"results": out, "initial": initial, "new_class_attrs": new, "switch_runtime": runtime, "member_cache": cache_bad[:10]}))


if __name__ == "__main__":
    main()
